"""Registry: property id -> scenarios, run counts per tier, claimed level.  MANIFEST.json is generated from this."""

from checks_common import DST

ENGINES = [
    {'name': 'simkit', 'path': 'simkit/',
     'serves_properties': [],
     'kind_free_text': 'simulation kernel: virtual-time asyncio loop (SimLoop), seeded per-stream choice source, '
                       'fault counters, event log, seed sweeps over 16 processes, choice-list shrinker, replay files, '
                       'determinism self-test, evidence writer'},
    {'name': 'asyncprims', 'path': 'worlds/prims/',
     'serves_properties': ['C16', 'C20', 'C21', 'C24', 'C26', 'C40'],
     'kind_free_text': 'real asyncio building blocks of the repository driven by seeded actor tasks and a canceller'},
]

NOTES = ('All checks are deterministic simulations: one VERIF_SEED decides every schedule, delay, fault and generated '
         'operation; replay files reproduce bit-for-bit (event digest compared in a fresh interpreter). '
         'See DESIGN.md.')

_PURE = {
    'C11': 'pure function of (demands, free cores): no schedule, clock, fault or second party for a simulator to control',
    'C12': 'pure arithmetic over a request and a static pool configuration; no time, I/O or interleaving',
    'C13': 'pure integer arithmetic and dict (de)serialisation of instance configs',
    'C15': 'pure encode/decode of job specs and region bitsets',
    'C18': 'pure mapping from a pipeline description to job specs; no fault or schedule dimension',
    'C19': 'pure greedy packing function of its input list and limits',
    'C25': 'pure string -> number parsing',
    'C28': 'pure regular-expression predicates on strings',
    'C29': 'pure URL-validation predicate',
    'C31': 'pure printer/parser of types (and compares against Scala code that cannot be built offline)',
    'C32': 'pure value <-> JSON conversion',
    'C33': 'pure binary encoder/decoder (and compares against Scala code that cannot be built offline)',
    'C34': 'pure bit packing (and compares against Scala code that cannot be built offline)',
    'C35': 'pure function of an expression DAG (rendering)',
    'C36': 'pure function of a program (type inference vs emitted IR)',
    'C37': 'pure numerical functions implemented in Scala; the engine cannot be built or run in this sandbox',
}

# designed in DESIGN.md, world not built yet in this tree: not claimed until its check exists
_PENDING = {
}

CHECKS = {
    'C40': {
        'level': 'exploration',
        'engine': 'asyncprims',
        'technique': DST + ': seeded task schedules and cancellation points on a virtual-time asyncio loop, '
                           'conservation and liveness oracles over the recorded history',
        'design_ref': 'DESIGN.md section 6 (C40), section 5.2',
        'level_text': 'Seeded exploration of acquire/hold/release/cancel interleavings of the real WeightedSemaphore on a '
                      'simulated event loop; safety checked at every event, conservation (full capacity re-acquirable) '
                      'and no-blocked-waiter-with-free-capacity checked at quiescence. Samples schedules; not a proof.',
        'level_note': 'Trusts CPython asyncio Event/Task semantics on the custom loop; weights <= 12, <= 6 tasks, '
                      '<= 3 rounds each, <= 4 cancellations per run.',
        'scenarios': [{'module': 'worlds.prims.wsem', 'quick': 40000, 'thorough': 300000},
                      # the semaphore in its place of use: the copier's transfer-buffer budget under injected
                      # timeouts / errors / cancellation inside part copies (the C22 world with the C40 oracle)
                      {'module': 'worlds.fs.copy', 'quick': 4000, 'thorough': 30000, 'seed_offset': 40_000_000,
                       'params': {'sema_oracle': True}}],
        'expected_probes': ['cancel_waiter', 'exit_by_exception', 'cancel_granted_not_yet_resumed',
                            'copier_semaphore_tracked', 'copier_semaphore_queued',
                            'copier_semaphore_queued_acquire_cancelled'],
    },
}


def _load_fragments():
    # each world may contribute worlds/<name>/registry.py with CHECKS = {...} and ENGINE = {...}
    import importlib
    import os
    here = os.path.dirname(os.path.abspath(__file__))
    for d in sorted(os.listdir(os.path.join(here, 'worlds'))):
        if os.path.exists(os.path.join(here, 'worlds', d, 'registry.py')):
            m = importlib.import_module(f'worlds.{d}.registry')
            for k, v in m.CHECKS.items():
                assert k not in CHECKS, k
                CHECKS[k] = v
            if getattr(m, 'ENGINE', None):
                ENGINES.append(m.ENGINE)


_load_fragments()


def _all_ids():
    import json
    import os
    here = os.path.dirname(os.path.abspath(__file__))
    with open(os.path.join(here, 'properties.jsonl')) as f:
        return [json.loads(line)['id'] for line in f if line.strip()]


for _pid in _all_ids():
    if _pid not in CHECKS and _pid not in _PURE:
        _PENDING[_pid] = ('not claimed: decision procedure is designed (DESIGN.md section 6) but its simulated world is not '
                          'built in this tree yet')

NOT_APPLICABLE = [{'property_id': k, 'reason': v} for k, v in sorted({**_PURE, **_PENDING}.items())
                  if k not in CHECKS]
