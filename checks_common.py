DST = 'deterministic simulation with fault injection'
