"""Registry fragment for the asyncprims scenarios C20 (bounded gather) and C21 (retry policy).

The modules live in worlds/prims/ (gather.py, retry.py); the asyncprims engine itself is declared in checks.py,
so this fragment contributes CHECKS only.
"""
from checks_common import DST

ENGINE = None

CHECKS = {
    'C20': {
        'level': 'exploration',
        'engine': 'asyncprims',
        'technique': DST + ': seeded completion orders, thunk failures, nested use, outer and individual task '
                           'cancellation of the real bounded-gather helpers on a virtual-time asyncio loop; '
                           'step oracle for the parallelism bound, outcome oracles for order, first exception, '
                           'cancel_on_error, pool shutdown and exit',
        'design_ref': 'DESIGN.md section 6 (C20), section 5.2',
        'level_text': 'Seeded exploration of bounded_gather, bounded_gather2 (return / raise / cancel_on_error) and '
                      'OnlineBoundedGather2 (call, wait, exit) with instrumented thunks: the number of running thunks is '
                      'compared with the semaphore bound at every thunk start/resume, results with the submission order, '
                      'the raised exception with the first failure by event order, and after every call the loop is '
                      'drained to see what was cancelled, what kept running and what started late. Samples schedules '
                      'and failure patterns; not a proof.',
        'level_note': 'Trusts CPython asyncio Semaphore/gather/wait/Task semantics on the custom loop. Bounds: semaphore '
                      '1..4, <= 3 calls per run, <= 8 thunks per call (12 thorough), nesting depth 1, <= 2 cancellations, '
                      'durations on a 1/1024 s grid (ties are frequent by construction). Failures tied at one simulated '
                      'instant are not ordered by the "first exception" oracle; after an outer cancellation only the bound '
                      'and liveness are asserted (docstrings are silent).',
        'scenarios': [{'module': 'worlds.prims.gather', 'quick': 50000, 'thorough': 350000}],
        'expected_probes': ['bound_saturated', 'failure_while_others_running', 'cancel_on_error_cancelled_running',
                            'outer_cancel', 'pool_shutdown', 'individual_cancel_running', 'nested_call',
                            'simultaneous_failures', 'sema_reused_after_error', 'thunk_cleanup_after_cancel',
                            'return_exceptions_with_failure', 'completion_order_differs_from_submission',
                            'no_cancel_on_error_rest_continued'],
    },
    'C21': {
        'level': 'exploration',
        'engine': 'asyncprims',
        'technique': DST + ': a scripted operation raises seeded sequences of exceptions built from labelled families '
                           '(transient, rate-limit, limited-retry, permanent, chained, CancelledError; error responses '
                           'built by the real hailtop.httpx.ClientResponseError constructor from realistic documents of '
                           'seeded length with the deciding text at a seeded offset) under the real retry helpers on a virtual-time loop; a label-driven reference model decides attempt '
                           'counts, the raised object and the back-off window of every wait',
        'design_ref': 'DESIGN.md section 6 (C21), section 5.2',
        'level_text': 'Seeded exploration of failure sequences (up to 12, thorough 20 failures per call) through '
                      'retry_transient_errors and its debug-string / delayed-warning variants: the number of invocations, '
                      'the identity of the raised exception and the simulated time of every back-off are compared with a '
                      'reference policy that reads only the harness-side labels; every classification that reads the '
                      'response text (403 rateLimitExceeded, the two limited-retry 400 messages) is also exercised with '
                      'Google-style JSON / OAuth error documents of up to 75 000 characters in which the deciding text '
                      'starts before, across and after character 256 / 1024 / 4096 / 65536, next to look-alike documents '
                      'without it or under another status (permanent); delay_ms_for_try / sleep_before_try are '
                      'probed directly with seeded arguments; retry_all_errors(_n_times) lightly. Samples sequences; not '
                      'a proof. The jitter source random.randrange is replaced by the run\'s choice stream.',
        'level_note': 'Trusted base: the labelled exception families are the harness author\'s reading of the lists in '
                      'hailtop/utils/utils.py (status codes, errnos, exception classes, __cause__ chains of depth <= 2); '
                      'exception classes of botocore/requests/urllib3/aiodocker/google are import stubs here and are not '
                      'exercised; sync_retry_transient_errors runs with time.sleep replaced by a recorder; '
                      'gear.database.retry_transient_mysql_errors is not covered by this scenario. Back-off is checked '
                      'to 2 us.',
        'scenarios': [{'module': 'worlds.prims.retry', 'quick': 40000, 'thorough': 300000}],
        'expected_probes': ['limited_sixth_failure_raised', 'limited_within_five_retried', 'chained_cause_transient',
                            'delay_capped', 'delay_pinned_to_max', 'rate_limit_retried', 'permanent_after_retries',
                            'permanent_raised_first_try', 'success_after_retries', 'long_sequence',
                            'cancelled_error_from_callable', 'outer_cancel_during_backoff',
                            'transient_and_limited_after_five', 'context_only_not_retried', 'direct_delay_probe',
                            'chained_rate_limit_retried', 'sync_helper', 'decided_by_text_before_256',
                            'decided_by_text_across_256', 'decided_by_text_past_256', 'decided_by_text_past_1024',
                            'decided_by_text_past_4096', 'decided_by_text_before_long_tail',
                            'permanent_long_document_raised'],
    },
}
