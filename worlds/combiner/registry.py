from checks_common import DST

ENGINE = {
    'name': 'combinersim',
    'path': 'worlds/combiner/',
    'serves_properties': ['C38'],
    'kind_free_text': 'the real VDS combiner plan code (variant_dataset_combiner.py, combine.py, typecheck, ReferenceGenome, '
                      'Locus, Interval, tmatrix) loaded by file path over FakeHail, a fake query engine in which a dataset '
                      'is a provenance multiset of input ids, plus SimFS, an in-memory file system with durable-at-close '
                      'semantics and crash / torn-write injection at every plan-file operation',
}

CHECKS = {
    'C38': {
        'level': 'fault_enumeration',
        'engine': 'combinersim',
        'technique': DST + ': seeded combiner instances executed on a provenance-tracking fake engine; process crashes '
                           'injected at every file-system operation on the saved plan (all of them for small instances, '
                           'sampled for large ones) and transient failures injected at numbered calls into the fake engine '
                           '(read / import / merge statistics / dataset write, inside a step), resume by load() and by '
                           'new_combiner(), repeatedly; interval lists of claimed length > 150,000; exactly-once oracle on the '
                           'provenance multiset of the output; conservation oracle on every durable plan file; bounded plan '
                           'saves per process (termination); interval-arithmetic oracle on the genome partitioning',
        'design_ref': 'DESIGN.md section 6 (C38), section 5.6',
        'level_text': 'For every generated instance with at most ~130 crash points, every crash point of the first process '
                      '(each exists/copy/open/close/remove on the plan file or its backup, torn writes at 4 cut positions '
                      'in the posix flavour) is executed with both resume modes; larger instances sample crash points; '
                      'resumed processes are crashed again at seeded points. Independently, an engine call of the first '
                      'process is made to raise (every call x both resume modes, and both leftovers of a failed write, for '
                      'small instances; sampled otherwise) and the combiner is resumed from the plan on disk, with further '
                      'seeded failures / kills of the resumed processes. The partitioning function is run on synthetic '
                      'corner-case genomes and on the real GRCh37/GRCh38 contig lengths. Instances are sampled, not '
                      'exhaustive; the engine is a fake, so record-level merge semantics are not covered.',
        'level_note': 'Trusted base: FakeHail (merge = multiset sum; engine writes atomic), SimFS durability model, CPython '
                      'json. Bounds: <= 40 GVCFs (200 thorough), <= 12 VDS inputs, branch factor 2..6, batch size 1..8, <= 3 '
                      'abnormal process ends per execution. A failed dataset write leaves nothing or part files without '
                      '_SUCCESS; a process is never killed (as opposed to failing with an exception) inside an engine call. '
                      'An interval list of more than 150,000 entries is represented by its first entries plus a claimed '
                      'length (only len() sees it).',
        'scenarios': [
            {'module': 'worlds.combiner.plan', 'quick': 1500, 'thorough': 9000, 'params': {'samples': 8, 'enum_cap': 260, 'fault_samples': 4, 'fault_enum_cap': 48}},
            {'module': 'worlds.combiner.partition', 'quick': 5000, 'thorough': 40000},
        ],
        'expected_probes': ['resume_via_load', 'resume_via_new_combiner', 'torn_save', 'multi_level_merge',
                            'vds_and_gvcf_mixed', 'stopped_after_step', 'torn_plan_restart_from_scratch',
                            'instances_fully_enumerated', 'second_crash', 'resume_refused_output_exists',
                            'engine_fault_in_write', 'engine_fault_in_read_or_import', 'resume_after_engine_fault_via_load',
                            'resume_after_engine_fault_via_new_combiner', 'second_engine_fault', 'engine_fault_and_crash',
                            'partial_output_cleared_by_operator', 'instances_engine_faults_fully_enumerated',
                            'big_interval_list_resume_via_new_combiner',
                            'len_lt_size', 'len_eq_k_size', 'len_eq_k_size_pm1', 'multi_interval_contig'],
    },
}
