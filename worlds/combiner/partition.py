"""C38 (part 2) -- `calculate_even_genome_partitioning(rg, size)` covers every base of every primary contig exactly once
with intervals of at most `size` bases.

Real code: hail/vds/combiner/combine.py::calculate_even_genome_partitioning (through the real hail.typecheck
decorator, with a ReferenceGenome object or its name), hail.utils.Interval, hail.genetics.Locus, ReferenceGenome.
No engine is involved; FakeHail only supplies `hl.Locus/hl.Interval/hl.get_reference` bindings (the real classes).

Generated: (a) synthetic genomes named GRCh37/GRCh38 (the function only accepts these names and their 25 primary
contigs) whose contig lengths are built around the requested size s: 1, s-1, s, s+1, k*s, k*s+-1, k*(s+1), k*(s+1)+-1
and arbitrary small values; (b) the repository's real GRCh37/GRCh38 lengths with sizes drawn uniformly, log-uniformly
and next to L_c/k for a seeded contig c (sizes >= 2e5 there: one python object per interval).
Interval conventions are read from the returned objects (includes_start / includes_end), not assumed.

Oracle, per primary contig of length L (three passes so that one failure class cannot mask another):
  1. every interval lies on one contig inside [1, L]; after sorting, consecutive intervals neither overlap nor leave a
     gap and the first one starts at 1                                      -> overlap / gap / beyond_contig / malformed
  2. the last interval ends at L (a contig without any interval fails here) -> tail_uncovered
  3. no interval contains more than `size` bases                            -> interval_longer_than_requested
Signatures carry /synthetic or /real (real = unmodified GRCh37/38 lengths, i.e. reachable through
`hl.vds.new_combiner(import_interval_size=..., reference_genome='GRCh38')`).

Result on the unchanged tree: passes 2 and 3 fire (see the report / known findings): `while n < contig_length` never
emits an interval starting at the last base, so a contig whose length is 1 modulo (real_size + 1) loses its last base
(e.g. GRCh38, size 21913: chr2:242193529; any contig of length 1), and `end = n + real_size` makes every full interval
real_size + 1 bases long, which exceeds `interval_size` whenever ceil(L / ceil(L / size)) == size (e.g. GRCh38, size
124478211 = len(chr1)/2 -> [1, 124478212]).  With `while n <= contig_length` / `end = n + real_size - 1` 400 runs pass.

Sensitivity (mutations of combine.py in a scratch copy): `n = end` (overlap by one base) -> C38/partition/overlap;
`n = end + 2` -> C38/partition/gap; `end = min(n + real_size, contig_length - 1)` -> tail_uncovered;
`real_size = contig_length // n_parts + 2` -> interval_longer_than_requested; `contigs[:-1]` -> tail_uncovered (chrM).
"""
import math

from worlds.combiner import fakehail as fh

NAME = 'combiner.partition'
RULE = ('one call of calculate_even_genome_partitioning per run: synthetic GRCh37/38-named genomes with 25 contig lengths '
        'built around the size (1, s-1, s, s+1, k*s, k*s+-1, k*(s+1), k*(s+1)+-1, random) with s in 1..60, or the real '
        'GRCh37/GRCh38 contig lengths with sizes uniform in [1e4, 3e8], log-uniform in [3e5, 3e8] or ceil(L_c/k)+-1 >= 2e5')
COMPONENTS = {
    'hail.vds.combiner.combine.calculate_even_genome_partitioning': 'real',
    'hail.typecheck, hail.utils.Interval, hail.genetics.Locus, hail.genetics.ReferenceGenome': 'real',
    'reference genomes': 'real GRCh37/GRCh38 primary contig lengths from the repository json, and synthetic lengths',
}
ASSUMPTIONS = ['the property is asserted for the 25 primary contigs the function enumerates; other contigs of the '
               'reference (alt / decoy / unplaced) are deliberately not partitioned by the function']


def _gen(ctx):
    s = ctx.stream('cfg')
    kind = s.weighted([5, 1, 1])  # 0 synthetic, 1 real GRCh38, 2 real GRCh37
    name = 'GRCh37' if kind == 2 else 'GRCh38'
    if kind == 0 and s.draw(4) == 3:
        name = 'GRCh37'
    as_str = bool(s.draw(2))
    if kind == 0:
        size = s.rint(1, 60)
        ls = ctx.stream('lengths')
        lengths = []
        for _ in range(25):
            fam = ls.draw(10)
            k = ls.rint(1, 6)
            d = ls.draw(3) - 1
            if fam == 0:
                v = ls.rint(1, 300)
            elif fam == 1:
                v = 1
            elif fam == 2:
                v = size + d
            elif fam in (3, 4, 5):
                v = k * size + d
            elif fam in (6, 7, 8):
                v = k * (size + 1) + d
            else:
                v = ls.rint(1, 4)
            lengths.append(max(1, v))
        return kind, name, as_str, size, dict(zip(fh.PRIMARY[name], lengths))
    real = fh.real_lengths(name)
    if real is None:
        raise RuntimeError(f'reference json for {name} not found')
    fam = s.weighted([2, 3, 3])
    if fam == 0:
        size = 300_010_000 - s.draw(300_000_000)   # 0 -> one interval per contig; sizes below ~150k are slow but legal
    elif fam == 1:
        size = int(300_000 * math.exp(s.flt() * math.log(1000)))
    else:
        c = fh.PRIMARY[name][s.draw(24)]
        k = s.rint(1, max(1, min(400, real[c] // 200_000)))
        size = max(200_000, -(-real[c] // k) + s.draw(3) - 1)
    return kind, name, as_str, size, dict(real)


def run(ctx):
    kind, name, as_str, size, lengths = _gen(ctx)
    sess = fh.Session(None)
    sess.open()
    try:
        w = fh.World(False)
        sess.bind(w, fh.Process())
        rg = fh.make_reference(sess, name, lengths)
        w.rg = rg
        w.references[name] = rg
        w.default_reference = name
        Locus = sess.mods['hail.genetics.locus'].Locus
        Interval = sess.mods['hail.utils.interval'].Interval
        ivs = sess.combine.calculate_even_genome_partitioning(name if as_str else rg, size)
        tag = 'synthetic' if kind == 0 else 'real'
        primary = fh.PRIMARY[name]
        ctx.log.add('gen', 'genome', tag, name, size, tuple(lengths[c] for c in primary))
        per = {c: [] for c in primary}
        for iv in ivs:
            if not isinstance(iv, Interval) or not isinstance(iv.start, Locus) or not isinstance(iv.end, Locus):
                ctx.violation('C38', 'partition', f'C38/partition/malformed/{tag}', f'not a locus interval: {iv!r}')
            c = iv.start.contig
            if iv.end.contig != c or c not in per:
                ctx.violation('C38', 'partition', f'C38/partition/malformed/{tag}',
                              f'interval {iv} spans contigs or lies on a contig outside the primary list')
            if iv.start.reference_genome != rg or iv.point_type.reference_genome != rg:
                ctx.violation('C38', 'partition', f'C38/partition/malformed/{tag}', f'interval {iv} is on another reference')
            lo = iv.start.position + (0 if iv.includes_start else 1)
            hi = iv.end.position - (0 if iv.includes_end else 1)
            per[c].append((lo, hi))
        ctx.log.add('result', 'intervals', len(ivs), tuple(len(per[c]) for c in primary))
        # shape of the instance (goes into the run's fingerprint): relation of each contig length to the size
        def rel(length):
            if length < size:
                return 'l'
            m = length % size
            return 'e' if m == 0 else 'p' if m == 1 else 'm' if m == size - 1 else 'o'
        ctx.log.add('shape', tag + ':' + ''.join(rel(lengths[c]) for c in primary) + ':' + str(min(len(ivs), 60)))
        ctx.extra['n_intervals'] = len(ivs)
        corner = {'len_lt_size': 0, 'len_eq_k_size': 0, 'len_eq_k_size_pm1': 0, 'len_1': 0}
        # pass 1: shape
        for c in primary:
            length = lengths[c]
            if length < size:
                corner['len_lt_size'] += 1
            if length % size == 0:
                corner['len_eq_k_size'] += 1
            if length % size in (1, size - 1):
                corner['len_eq_k_size_pm1'] += 1
            if length == 1:
                corner['len_1'] += 1
            xs = sorted(per[c])
            prev = 0
            for lo, hi in xs:
                if hi < lo:
                    ctx.violation('C38', 'partition', f'C38/partition/malformed/{tag}', f'{name} {c}: empty interval [{lo},{hi}]')
                if lo < 1 or hi > length:
                    ctx.violation('C38', 'partition', f'C38/partition/beyond_contig/{tag}',
                                  f'{name} {c} (length {length}), size {size}: interval [{lo},{hi}] leaves the contig')
                if lo <= prev:
                    ctx.violation('C38', 'partition', f'C38/partition/overlap/{tag}',
                                  f'{name} {c} (length {length}), size {size}: [{lo},{hi}] overlaps the interval ending at {prev}')
                if lo > prev + 1:
                    ctx.violation('C38', 'partition', f'C38/partition/gap/{tag}',
                                  f'{name} {c} (length {length}), size {size}: bases {prev + 1}..{lo - 1} are in no interval')
                prev = hi
        for k, v in corner.items():
            if v:
                ctx.probe(k, v)
        if any(len(per[c]) > 1 for c in primary):
            ctx.probe('multi_interval_contig')
        # pass 2: tail
        for c in primary:
            length = lengths[c]
            last = max((hi for _lo, hi in per[c]), default=0)
            if last < length:
                ctx.violation('C38', 'partition', f'C38/partition/tail_uncovered/{tag}',
                              f'calculate_even_genome_partitioning({name}, {size}): contig {c} has length {length} but '
                              f'the intervals end at {last} ({len(per[c])} intervals): bases {last + 1}..{length} '
                              f'would never be imported')
        # pass 3: requested ceiling
        for c in primary:
            for lo, hi in per[c]:
                if hi - lo + 1 > size:
                    ctx.violation('C38', 'partition', f'C38/partition/interval_longer_than_requested/{tag}',
                                  f'calculate_even_genome_partitioning({name}, {size}): contig {c} (length {lengths[c]}) '
                                  f'gets the closed interval [{lo},{hi}] = {hi - lo + 1} bases > {size}')
    finally:
        sess.close()


def nontrivial(r):
    return bool(r['probes'])
