"""FakeHail -- a provenance-tracking stand-in for the `hail` query engine, used to run the REAL combiner plan code.

What is real (loaded from the live repository tree by file path on every run, never copied):
    hail/vds/combiner/variant_dataset_combiner.py   VariantDatasetCombiner, new_combiner, load_combiner, Encoder, Decoder
    hail/vds/combiner/combine.py                     calculate_even_genome_partitioning, combine_variant_datasets,
                                                     combine_references, combine_gvcfs, combine, combine_r,
                                                     make_reference_stream, make_variant_stream, transform_gvcf,
                                                     defined_entry_fields (executed over FakeHail objects)
    hail/typecheck/{__init__,check}.py               the typecheck decorators (str -> ReferenceGenome coercion etc.)
    hail/genetics/reference_genome.py, locus.py      ReferenceGenome, Locus
    hail/utils/interval.py                           Interval (includes_start / includes_end conventions)
    hail/expr/matrix_type.py                         tmatrix (to_dict / _from_json used by the plan Encoder/Decoder)

What is fake (this file): everything else those files import from `hail`:
    * a dataset is a *provenance multiset*: a Counter {input id -> multiplicity}.  IR nodes, tables, matrix tables and
      stream expressions carry it; `import_gvcf_interval` creates {gvcf path: 1}; `read_matrix_table` returns what was
      written at that path; `Table.multi_way_zip_join` / `_zip_join_producers` ADD the multisets of their inputs;
      `MatrixTable.write` / `write_variant_datasets` store it at a path of the simulated file system together with the
      multiset of dataset paths it was read from (lineage).
    * expressions are permissive symbolic objects (`Expr`); bodies of row-level lambdas (define_function, map, filter)
      are never evaluated: record-level semantics are outside the property.
    * `calculate_new_intervals` (engine-side repartitioning statistics) is replaced in the loaded module's namespace.
    * the file system (`hl.current_backend().fs`) is SimFS: an in-memory map with close-to-durable semantics and crash
      injection (see `FSView`).  Two flavours: 'atomic' (object store: an object appears at close, a crash before close
      leaves the old object) and 'posix' (open(...,'w') truncates at once; a crash before close leaves a prefix).
    * `uuid.uuid4` inside the loaded combiner module is drawn from the run's choice stream.
    * engine failures: every call that would run a query (header read, GVCF import, dataset read / write, aggregate,
      count, repartitioning statistics) is numbered per process (`CUR.engine_op`); the call whose number equals
      `Process.fault[0]` raises `EngineFault` (a FatalError, like a real lost worker / storage error).  A failed
      write leaves nothing (flavour 0) or part files without _SUCCESS (flavour 1).  Writing over an existing path
      without overwrite=True raises `PathExists` (FatalError "file already exists"), as the real engine does.
    * `BigList`: an import-interval list of a claimed length (> 150,000) of which only the first entries exist.
"""
import collections
import functools
import inspect
import io
import json
import os
import sys
import types
import uuid as _uuid_mod

from simkit import shim

Counter = collections.Counter


# ----------------------------------------------------------------------------------------------------------------
# exceptions
# ----------------------------------------------------------------------------------------------------------------

class SimCrash(BaseException):
    """the simulated process dies here; nothing after this instruction runs (no except/finally effect is modelled:
    the only context manager on the unwinding path is the SimFS file handle, which checks `proc.dead`)."""


class SimStepLimit(BaseException):
    """the combiner exceeded its step bound (termination oracle)."""


class HarnessGap(Exception):
    """the real code touched a hail API that FakeHail does not model: a harness error, never a violation."""


class FatalError(Exception):
    """hail.utils.FatalError"""


class EngineFault(FatalError):
    """an injected transient failure of the query engine (lost worker, quota, storage hiccup): the engine call raises,
    as real hail does, a FatalError that the combiner does not handle; it propagates out of step() / run()."""


class PathExists(FatalError):
    """the engine refuses to write over an existing path (write without overwrite=True)."""

    def __init__(self, path):
        super().__init__(f'FakeHail: file already exists: {path}')
        self.path = path


class BigList(list):
    """an interval list whose LENGTH is `claimed` (say 150,001 exome targets) while only its first few entries are
    materialised: the combiner plan code uses the list through len() (task-limit arithmetic), truthiness, [0] and
    iteration (building the partitioning, which the fake engine ignores); only len() / bool() see the claimed size.
    FakeHail's tarray JSON conversion carries the claimed length through a saved plan (see tarray)."""

    def __init__(self, items, claimed):
        super().__init__(items)
        self.claimed = max(int(claimed), list.__len__(self))

    def __len__(self):
        return self.claimed


_CLAIMED = '__sim_claimed_len__'


# ----------------------------------------------------------------------------------------------------------------
# types (hail.expr.types)
# ----------------------------------------------------------------------------------------------------------------

class HailType:
    def __str__(self):
        raise NotImplementedError

    def __repr__(self):
        return f"dtype('{self}')"

    def __eq__(self, other):
        return isinstance(other, HailType) and str(self) == str(other)

    def __ne__(self, other):
        return not self.__eq__(other)

    def __hash__(self):
        return hash(str(self))

    def _convert_to_json(self, x):
        return x

    def _convert_from_json(self, x, _should_freeze=False):
        return x

    def _convert_to_json_na(self, x):
        return None if x is None else self._convert_to_json(x)

    def _convert_from_json_na(self, x, _should_freeze=False):
        return None if x is None else self._convert_from_json(x, _should_freeze)


class _Prim(HailType):
    def __init__(self, name):
        self._name = name

    def __str__(self):
        return self._name


tint32 = _Prim('int32')
tint64 = _Prim('int64')
tfloat64 = _Prim('float64')
tstr = _Prim('str')
tbool = _Prim('bool')
tcall = _Prim('call')
_PRIMS = {str(t): t for t in (tint32, tint64, tfloat64, tstr, tbool, tcall)}


class tarray(HailType):
    _tag = 'array'

    def __init__(self, element_type):
        self.element_type = element_type

    def __str__(self):
        return f'{self._tag}<{self.element_type}>'

    def _convert_to_json(self, x):
        out = [self.element_type._convert_to_json_na(e) for e in x]
        if isinstance(x, BigList):
            out.append({_CLAIMED: x.claimed})  # stands for the (claimed - materialised) entries not written out
        return out

    def _convert_from_json(self, x, _should_freeze=False):
        if x and isinstance(x[-1], dict) and _CLAIMED in x[-1]:
            return BigList([self.element_type._convert_from_json_na(e, _should_freeze) for e in x[:-1]], x[-1][_CLAIMED])
        return [self.element_type._convert_from_json_na(e, _should_freeze) for e in x]


class tstream(tarray):
    _tag = 'stream'


class tset(tarray):
    _tag = 'set'


class tstruct(HailType, collections.abc.Mapping):
    def __init__(self, **fields):
        self._f = dict(fields)

    @property
    def fields(self):
        return tuple(self._f)

    @property
    def types(self):
        return tuple(self._f.values())

    def __getitem__(self, k):
        if isinstance(k, int):
            return self.types[k]
        return self._f[k]

    def __iter__(self):
        return iter(self._f)

    def __len__(self):
        return len(self._f)

    def __str__(self):
        return 'struct{' + ', '.join(f'{k}: {v}' for k, v in self._f.items()) + '}'

    __eq__ = HailType.__eq__
    __ne__ = HailType.__ne__
    __hash__ = HailType.__hash__


class tlocus(HailType):
    def __init__(self, reference_genome='default'):
        if isinstance(reference_genome, str):
            reference_genome = get_reference(reference_genome)
        self._rg = reference_genome

    @property
    def reference_genome(self):
        return self._rg

    def __str__(self):
        return f'locus<{self._rg.name}>'

    def _convert_to_json(self, x):
        return {'contig': x.contig, 'position': x.position}

    def _convert_from_json(self, x, _should_freeze=False):
        return CUR.mods['hail.genetics.locus'].Locus(x['contig'], x['position'], reference_genome=self._rg)


class tinterval(HailType):
    def __init__(self, point_type):
        self._pt = point_type

    @property
    def point_type(self):
        return self._pt

    def __str__(self):
        return f'interval<{self._pt}>'

    def _convert_to_json(self, x):
        return {'start': self._pt._convert_to_json_na(x.start), 'end': self._pt._convert_to_json_na(x.end),
                'includeStart': x.includes_start, 'includeEnd': x.includes_end}

    def _convert_from_json(self, x, _should_freeze=False):
        Interval = CUR.mods['hail.utils.interval'].Interval
        return Interval(self._pt._convert_from_json_na(x['start'], _should_freeze),
                        self._pt._convert_from_json_na(x['end'], _should_freeze),
                        x['includeStart'], x['includeEnd'], point_type=self._pt)


class _Opaque(HailType):
    """a type FakeHail does not look into (row types of derived tables, function return types)."""

    def __init__(self, label):
        self._label = label

    def __str__(self):
        return f'opaque<{self._label}>'


def dtype(s):
    """parse the type strings FakeHail itself prints (used by the real tmatrix._from_json)."""
    if isinstance(s, HailType):
        return s
    pos = 0

    def fail():
        raise ValueError(f'FakeHail dtype: cannot parse {s!r} at {pos}')

    def ident():
        nonlocal pos
        st = pos
        while pos < len(s) and (s[pos].isalnum() or s[pos] in '_.#'):
            pos += 1
        if st == pos:
            fail()
        return s[st:pos]

    def expect(ch):
        nonlocal pos
        if not s.startswith(ch, pos):
            fail()
        pos += len(ch)

    def ws():
        nonlocal pos
        while pos < len(s) and s[pos] == ' ':
            pos += 1

    def typ():
        nonlocal pos
        name = ident()
        if name in _PRIMS:
            return _PRIMS[name]
        if name in ('array', 'stream', 'set'):
            expect('<')
            e = typ()
            expect('>')
            return {'array': tarray, 'stream': tstream, 'set': tset}[name](e)
        if name == 'interval':
            expect('<')
            e = typ()
            expect('>')
            return tinterval(e)
        if name == 'locus':
            expect('<')
            rg = ident()
            expect('>')
            return tlocus(rg)
        if name == 'opaque':
            expect('<')
            lab = ident()
            expect('>')
            return _Opaque(lab)
        if name == 'struct':
            expect('{')
            fields = {}
            ws()
            if s.startswith('}', pos):
                pos += 1
                return tstruct()
            while True:
                ws()
                k = ident()
                expect(':')
                ws()
                fields[k] = typ()
                ws()
                if s.startswith(',', pos):
                    pos += 1
                    continue
                expect('}')
                return tstruct(**fields)
        fail()

    t = typ()
    if pos != len(s):
        fail()
    return t


# ----------------------------------------------------------------------------------------------------------------
# values
# ----------------------------------------------------------------------------------------------------------------

class Struct:
    """hail.utils.Struct: attribute bag."""

    def __init__(self, **kw):
        self.__dict__['_fields'] = dict(kw)

    def __getattr__(self, k):
        try:
            return self._fields[k]
        except KeyError:
            raise AttributeError(k) from None

    def __getitem__(self, k):
        return self._fields[k]

    def __contains__(self, k):
        return k in self._fields

    def __iter__(self):
        return iter(self._fields)

    def __eq__(self, other):
        return isinstance(other, Struct) and self._fields == other._fields

    def __hash__(self):
        return hash(tuple(self._fields))

    def __repr__(self):
        return 'Struct(' + ', '.join(f'{k}={v!r}' for k, v in self._fields.items()) + ')'


# ----------------------------------------------------------------------------------------------------------------
# IR nodes and expressions
# ----------------------------------------------------------------------------------------------------------------

class IRNode:
    """carries provenance (multiset of input ids), lineage (multiset of dataset paths read) and table metadata."""
    __slots__ = ('kind', 'typ', 'prov', 'srcs', 'meta')

    def __init__(self, kind, children=(), typ=None, prov=None, srcs=None, meta=None):
        self.kind = kind
        self.typ = typ
        p = Counter(prov or ())
        s = Counter(srcs or ())
        for c in children:
            if isinstance(c, IRNode):
                p.update(c.prov)
                s.update(c.srcs)
                if meta is None and c.meta is not None:
                    meta = c.meta
        self.prov = p
        self.srcs = s
        self.meta = meta


def _ir_ctor(kind):
    def make(*args, **kw):
        CUR.tick()
        typ = kw.get('type') or kw.get('typ')
        return IRNode(kind, [a for a in args if isinstance(a, IRNode)], typ=typ)
    make.__name__ = kind
    return make


def Apply(name, return_type, *args):
    CUR.tick()
    return IRNode('Apply', [a for a in args if isinstance(a, IRNode)], typ=return_type)


_NOVAL = object()
_REF = IRNode('Ref')


class Expr:
    """permissive symbolic expression.  Knows a python value (`_pyval`) or per-row python values (`_rowwise`) when it
    was built from literals, its struct fields when it is a struct, and the IR it stands for."""
    _indices = None
    _aggregations = None

    def __init__(self, kind='expr', dtype=None, ir=None, pyval=_NOVAL, rowwise=None, fields=None, base=None, arg=None):
        d = self.__dict__
        d['_kind'] = kind
        d['_dtype'] = dtype
        d['_ir_'] = ir
        d['_pyval'] = pyval
        d['_rowwise'] = rowwise
        d['_fields'] = fields
        d['_base'] = base
        d['_arg'] = arg

    # -- what real code reads ---------------------------------------------------------------------------------
    @property
    def dtype(self):
        return self._dtype if self._dtype is not None else _Opaque('expr')

    @property
    def _ir(self):
        return self._ir_ if self._ir_ is not None else _REF

    def __getattr__(self, name):
        if name.startswith('__') and name.endswith('__'):
            raise AttributeError(name)
        CUR.tick()
        d = self.__dict__
        if d['_fields'] is not None and name in d['_fields']:
            return d['_fields'][name]
        if d['_rowwise'] is not None:
            return Expr('attr', rowwise=[getattr(v, name) for v in d['_rowwise']])
        if d['_pyval'] is not _NOVAL and isinstance(d['_pyval'], Struct):
            return Expr('lit', pyval=getattr(d['_pyval'], name))
        sub = None
        if isinstance(d['_dtype'], tstruct) and name in d['_dtype']:
            sub = d['_dtype'][name]
            if isinstance(sub, tstruct):
                return Expr('attr', dtype=sub, fields={k: Expr('attr', dtype=t) for k, t in sub.items()}, base=self)
        return Expr('attr', dtype=sub, base=self)

    def __call__(self, *args, **kwargs):
        # a method call on an expression (map / filter / annotate ...): same carrier, body not evaluated
        CUR.tick()
        b = self.__dict__['_base']
        if b is None:
            return Expr('call')
        bd = b.__dict__
        return Expr('call', dtype=bd['_dtype'], ir=bd['_ir_'], pyval=_NOVAL, rowwise=None, fields=None, base=bd['_base'])

    def __getitem__(self, i):
        CUR.tick()
        d = self.__dict__
        if isinstance(i, str):
            return getattr(self, i)
        if isinstance(i, Expr):
            if d['_pyval'] is not _NOVAL and isinstance(d['_pyval'], (list, tuple)) and i.__dict__['_kind'] == 'rowidx':
                return Expr('index', rowwise=list(d['_pyval']))
            return Expr('index')
        if d['_rowwise'] is not None:
            return Expr('index', rowwise=[v[i] for v in d['_rowwise']])
        if d['_pyval'] is not _NOVAL and isinstance(d['_pyval'], (list, tuple)):
            return Expr('lit', pyval=d['_pyval'][i])
        return Expr('index')

    def __contains__(self, name):
        d = self.__dict__
        if d['_fields'] is not None:
            return name in d['_fields']
        if isinstance(d['_dtype'], tstruct):
            return name in d['_dtype']
        raise HarnessGap(f'`in` on a non-struct FakeHail expression ({d["_kind"]})')

    def __iter__(self):
        d = self.__dict__
        if d['_fields'] is not None:
            return iter(d['_fields'])
        raise TypeError(f'FakeHail expression of kind {d["_kind"]} is not iterable')

    def items(self):
        return self.__dict__['_fields'].items()

    def keys(self):
        return self.__dict__['_fields'].keys()

    def __len__(self):
        d = self.__dict__
        if d['_fields'] is not None:
            return len(d['_fields'])
        raise TypeError('len() of a FakeHail expression')

    def __bool__(self):
        raise HarnessGap('truth value of a symbolic FakeHail expression was taken')

    def _bin(self, other):
        CUR.tick()
        return Expr('binop')

    __add__ = __radd__ = __sub__ = __rsub__ = __mul__ = __rmul__ = __floordiv__ = __mod__ = _bin
    __and__ = __or__ = __lt__ = __le__ = __gt__ = __ge__ = _bin

    def __eq__(self, other):
        return Expr('binop')

    def __ne__(self, other):
        return Expr('binop')

    __hash__ = None

    def __repr__(self):
        return f'<FakeHail Expr {self.__dict__["_kind"]}>'


BooleanExpression = StructExpression = Expression = Expr


def construct_expr(ir, typ, indices=None, aggregations=None):
    CUR.tick()
    return Expr('constructed', dtype=typ, ir=ir)


def unify_all(*exprs):
    return None, None


def literal(x, dtype=None):
    CUR.tick()
    if isinstance(x, Expr):
        return x
    return Expr('lit', pyval=x, dtype=dtype)


def struct(**kw):
    CUR.tick()
    return Expr('struct', fields={k: (v if isinstance(v, Expr) else Expr('lit', pyval=v)) for k, v in kw.items()})


def enumerate_(a, start=0, *, index_first=True):
    CUR.tick()
    pv = a.__dict__['_pyval']
    if pv is _NOVAL:
        return Expr('enumerate')
    return Expr('lit', pyval=[(i + start, v) for i, v in enumerate(pv)])


def rbind(*args, _ctx=None):
    CUR.tick()
    *exprs, f = args
    return f(*[e if isinstance(e, Expr) else Expr('lit', pyval=e) for e in exprs])


def eval_(expr):
    CUR.tick()
    pv = expr.__dict__['_pyval'] if isinstance(expr, Expr) else expr
    if pv is _NOVAL:
        raise HarnessGap('hl.eval of an expression FakeHail cannot evaluate')
    return pv


def _generic_fn(name):
    def f(*a, **k):
        CUR.tick()
        return Expr(name)
    f.__name__ = name
    return f


def _header_of(path):
    w = CUR.world
    if path not in w.files:
        raise FatalError(f'FakeHail: no such VCF / header file {path}')
    return Struct(sampleIDs=[w.gvcfs[path]] if path in w.gvcfs else [], infoFields=[], formatFields=[], filterAttrs={}, infoAttrs={}, formatAttrs={},
                  infoFlagFields=[])


def get_vcf_header_info(path, filter=None, find=None, replace=None):
    CUR.tick()
    CUR.engine_op('header')
    if isinstance(path, str):
        return Expr('lit', pyval=_header_of(path))
    d = path.__dict__
    if d['_rowwise'] is not None:
        return Expr('header', rowwise=[_header_of(p) for p in d['_rowwise']])
    if d['_pyval'] is not _NOVAL:
        return Expr('lit', pyval=_header_of(d['_pyval']))
    raise HarnessGap('get_vcf_header_info of a symbolic path')


def import_gvcf_interval(path, file_num, contig, start, end, header_info, call_fields=(), entry_float_type=None,
                         array_elements_required=True, reference_genome='default', contig_recoding=None,
                         skip_invalid_loci=False, filter=None, find=None, replace=None):
    CUR.tick()
    p = path.__dict__['_pyval'] if isinstance(path, Expr) else path
    if not isinstance(p, str):
        raise HarnessGap('import_gvcf_interval: path is not a literal')
    w = CUR.world
    if p not in w.gvcfs or not w.fs_exists(p):
        raise FatalError(f'FakeHail: GVCF {p} does not exist')
    CUR.engine_op('import')
    CUR.n_imports += 1
    return Expr('gvcf_stream', dtype=tstream(w.gvcf_row_type), ir=IRNode('ImportGVCF', prov={p: 1}))


def _zip_join_producers(contexts, stream_f, key, join_f):
    CUR.tick()
    pv = contexts.__dict__['_pyval']
    if pv is _NOVAL:
        raise HarnessGap('_zip_join_producers over symbolic contexts')
    streams = [stream_f(Expr('lit', pyval=c)) for c in pv]
    return Expr('zip_join', dtype=tstream(_Opaque('zipjoined')), ir=IRNode('StreamZipJoinProducers', [s._ir for s in streams]))


class _Agg:
    @staticmethod
    def collect(e):
        CUR.tick()
        return Expr('agg.collect', arg=e)

    @staticmethod
    def any(e):
        CUR.tick()
        return Expr('agg.any', arg=e)

    @staticmethod
    def count():
        CUR.tick()
        return Expr('agg.count')

    @staticmethod
    def sum(e):
        CUR.tick()
        return Expr('agg.sum', arg=e)

    @staticmethod
    def max(e):
        CUR.tick()
        return Expr('agg.max', arg=e)


def _aggregate(expr):
    d = expr.__dict__
    if d['_kind'] == 'agg.collect':
        rw = d['_arg'].__dict__['_rowwise']
        if rw is None:
            raise HarnessGap('aggregate(collect) of an expression without literal row values')
        return list(rw)
    if d['_kind'] == 'struct':
        return Struct(**{k: _aggregate(v) for k, v in d['_fields'].items()})
    if d['_kind'] == 'agg.any':
        return True
    if d['_kind'] in ('agg.max', 'agg.sum', 'agg.count'):
        return 1000
    raise HarnessGap(f'aggregate of {d["_kind"]}')


class Function:
    def __init__(self, name, ret_type):
        self._name = name
        self._ret_type = ret_type


def define_function(f, *param_types, _name=None, type_args=()):
    CUR.tick()
    CUR.proc.n_functions += 1
    name = f'fakefn_{CUR.proc.n_functions}'
    CUR.proc.registered.add(name)
    return Function(name, _Opaque(name))


# ----------------------------------------------------------------------------------------------------------------
# tables
# ----------------------------------------------------------------------------------------------------------------

def _meta(**kw):
    m = {'globals': (), 'key': ('locus',), 'entry': None, 'info': None, 'fields': None, 'mtype': None, 'cols': None}
    m.update(kw)
    return m


class _Relational:
    def __init__(self, ir):
        CUR.tick()
        if not isinstance(ir, IRNode):
            raise HarnessGap('Table/MatrixTable constructed from a non-IR object')
        if ir.meta is None:
            ir.meta = _meta()
        self.__dict__['_irn'] = ir

    # -- plumbing ---------------------------------------------------------------------------------------------
    @property
    def _tir(self):
        return self._irn

    _mir = _tir

    def _derive(self, cls=None, **changes):
        CUR.tick()
        m = dict(self._irn.meta)
        m.update(changes)
        return (cls or type(self))(IRNode(self._irn.kind, [self._irn], meta=m))

    @property
    def row(self):
        return Expr('row', dtype=_Opaque('row_' + self._irn.kind), fields=self._row_fields())

    def _row_fields(self):
        f = {'locus': Expr('field', dtype=CUR.world.locus_type)}
        if self._irn.meta['info'] is not None:
            f['info'] = self.info
        return f

    @property
    def globals(self):
        return Expr('globals', dtype=_Opaque('globals_' + '_'.join(self._irn.meta['globals'])),
                    fields={k: Expr('field') for k in self._irn.meta['globals']})

    @property
    def entry(self):
        e = self._irn.meta['entry']
        if e is None:
            raise HarnessGap('entry fields of a derived FakeHail table are unknown')
        return Expr('entry', dtype=e, fields={k: Expr('field', dtype=t) for k, t in e.items()})

    @property
    def row_key(self):
        return list(self._irn.meta['key'])

    @property
    def locus(self):
        return Expr('field', dtype=CUR.world.locus_type)

    def __getattr__(self, name):
        if name.startswith('__') and name.endswith('__'):
            raise AttributeError(name)
        m = self._irn.meta
        if m['fields'] and name in m['fields']:
            return m['fields'][name]
        if name == 'info' and m['info'] is not None:
            return Expr('info', dtype=m['info'], fields={k: Expr('field', dtype=t) for k, t in m['info'].items()})
        if name == 'idx' and self._irn.kind == 'TableRange':
            return Expr('rowidx')
        if m['entry'] is not None and name in m['entry']:
            return Expr('field', dtype=m['entry'][name])
        return Expr('field')

    def __getitem__(self, name):
        return getattr(self, name)

    # -- transformations that keep provenance -------------------------------------------------------------------
    def _same(self, *a, **k):
        return self._derive()

    filter_rows = filter = head = select_rows = rows = annotate_rows = annotate_cols = filter_entries = _same
    select_entries = select_cols = select = _same

    def annotate(self, **kw):
        f = dict(self._irn.meta['fields'] or {})
        f.update(kw)
        return self._derive(fields=f)

    def annotate_entries(self, **kw):
        e = self._irn.meta['entry']
        if e is None:
            return self._derive()
        return self._derive(entry=tstruct(**{**dict(e.items()), **{k: _Opaque('ann') for k in kw}}))

    def key_by(self, *keys, **kw):
        return self._derive(key=tuple(keys))

    key_rows_by = _key_rows_by_assert_sorted = _key_by_assert_sorted = key_by

    def drop(self, *names):
        m = self._irn.meta
        ch = {'globals': tuple(g for g in m['globals'] if g not in names)}
        if m['entry'] is not None:
            ch['entry'] = tstruct(**{k: t for k, t in m['entry'].items() if k not in names})
        return self._derive(**ch)

    def transmute_globals(self, **kw):
        keep = tuple(g for g in self._irn.meta['globals'] if g != 'g' and g not in kw)
        return self._derive(globals=keep + tuple(kw))

    def annotate_globals(self, **kw):
        return self._derive(globals=tuple(self._irn.meta['globals']) + tuple(k for k in kw if k not in self._irn.meta['globals']))

    def _localize_entries(self, entries, cols):
        return self._derive(Table)

    localize_entries = _localize_entries

    def _unlocalize_entries(self, entries, cols, col_key):
        return self._derive(MatrixTable)

    # -- actions ----------------------------------------------------------------------------------------------
    def aggregate(self, expr, _localize=True):
        CUR.tick()
        CUR.engine_op('aggregate')
        return _aggregate(expr)

    aggregate_entries = aggregate_rows = aggregate

    def count_cols(self):
        CUR.tick()
        CUR.engine_op('count')
        return CUR.world.n_cols_of(self._irn.prov)

    def count(self):
        CUR.tick()
        return (1000, self.count_cols())

    def checkpoint(self, path, **kw):
        self.write(path, **kw)
        return self._derive()

    def write(self, path, overwrite=False, stage_locally=False, _codec_spec=None, _partitions=None, **kw):
        CUR.tick()
        CUR.world.write_dataset(path, self, overwrite)

    @property
    def _type(self):
        m = self._irn.meta
        if m['mtype'] is not None:
            return m['mtype']
        return CUR.world.derived_mtype(m['key'])


class Table(_Relational):
    @staticmethod
    def _generate(contexts, partitions, rowfn, globals=None):
        CUR.tick()
        row = rowfn(Expr('ctx'), Expr('globals'))
        g = tuple(globals.__dict__['_fields']) if globals is not None and globals.__dict__['_fields'] else ()
        return Table(IRNode('TableGen', [row._ir], meta=_meta(globals=g)))

    @staticmethod
    def multi_way_zip_join(tables, data_field_name, global_field_name):
        CUR.tick()
        if not tables:
            raise ValueError('multi_way_zip_join must have at least one table as an argument')
        return Table(IRNode('TableMultiWayZipJoin', [t._irn for t in tables], meta=_meta(globals=(global_field_name,))))


class MatrixTable(_Relational):
    pass


def TableMapRows(child, new_row):
    CUR.tick()
    return IRNode('TableMapRows', [child, new_row], meta=dict(child.meta) if child.meta else None)


def range_table(n, n_partitions=None):
    CUR.tick()
    return Table(IRNode('TableRange', meta=_meta(key=('idx',))))


def read_matrix_table(path, *, _intervals=None, _filter_intervals=False, _drop_cols=False, _drop_rows=False,
                      _create_row_uids=False, _create_col_uids=False, _n_partitions=None, _assert_type=None,
                      _load_refs=True):
    CUR.tick()
    ds = CUR.world.read_dataset(path)
    return MatrixTable(IRNode('MatrixRead', prov=ds['prov'], srcs={ds['vid']: 1},
                              meta=_meta(globals=tuple(ds['globals']), key=tuple(ds['key']), entry=ds['entry'],
                                         mtype=ds['mtype'])))


def import_vcf(path, force=False, force_bgz=False, header_file=None, min_partitions=None, drop_samples=False,
               call_fields=(), reference_genome='default', contig_recoding=None, array_elements_required=True,
               skip_invalid_loci=False, entry_float_type=None, filter=None, find=None, replace=None, n_partitions=None,
               block_size=None, _create_row_uids=False, _create_col_uids=False):
    CUR.tick()
    w = CUR.world
    p = path if isinstance(path, str) else path[0]
    if p not in w.gvcfs or not w.fs_exists(p):
        raise FatalError(f'FakeHail: GVCF {p} does not exist')
    CUR.engine_op('import_vcf')
    return MatrixTable(IRNode('MatrixVCFRead', prov={p: 1},
                              meta=_meta(entry=w.gvcf_entry_type, info=w.gvcf_info_type, mtype=w.gvcf_mtype)))


# ----------------------------------------------------------------------------------------------------------------
# hail.vds
# ----------------------------------------------------------------------------------------------------------------

extra_ref_globals_file = 'extra_reference_globals.json'


class VariantDataset:
    ref_block_max_length_field = 'ref_block_max_length'

    @staticmethod
    def _reference_path(base):
        return os.path.join(base, 'reference_data')

    @staticmethod
    def _variants_path(base):
        return os.path.join(base, 'variant_data')

    def __init__(self, reference_data, variant_data):
        CUR.tick()
        if not isinstance(reference_data, MatrixTable) or not isinstance(variant_data, MatrixTable):
            raise HarnessGap('VariantDataset built from non-MatrixTable objects')
        self.reference_data = reference_data
        self.variant_data = variant_data

    def write(self, path, **kwargs):
        self.reference_data.write(VariantDataset._reference_path(path), **kwargs)
        self.variant_data.write(VariantDataset._variants_path(path), **kwargs)

    def checkpoint(self, path, **kwargs):
        self.write(path, **kwargs)
        return read_vds(path)

    def n_samples(self):
        return self.reference_data.count_cols()


def read_vds(path, *, intervals=None, n_partitions=None, _assert_reference_type=None, _assert_variant_type=None,
             _warn_no_ref_block_max_length=True, _drop_end=False):
    CUR.tick()
    rd = read_matrix_table(VariantDataset._reference_path(path), _intervals=intervals)
    vd = read_matrix_table(VariantDataset._variants_path(path), _intervals=intervals)
    vds = VariantDataset(rd, vd)
    if VariantDataset.ref_block_max_length_field not in vds.reference_data.globals:
        fs = current_backend().fs
        metadata_file = os.path.join(path, extra_ref_globals_file)
        if fs.exists(metadata_file):
            with fs.open(metadata_file, 'r') as f:
                metadata = json.load(f)
                vds.reference_data = vds.reference_data.annotate_globals(**metadata)
    return vds


def store_ref_block_max_length(vds_path):
    vds = read_vds(vds_path, _warn_no_ref_block_max_length=False)
    if VariantDataset.ref_block_max_length_field in vds.reference_data.globals:
        return
    fs = current_backend().fs
    with fs.open(os.path.join(vds_path, extra_ref_globals_file), 'w') as f:
        json.dump({VariantDataset.ref_block_max_length_field: 1000}, f)


def write_variant_datasets(vdss, paths, *, overwrite=False, stage_locally=False, codec_spec=None):
    CUR.tick()
    if len(vdss) != len(paths):
        raise FatalError('write_variant_datasets: number of datasets and paths differ')
    for vds, p in zip(vdss, paths):
        CUR.world.write_dataset(f'{p}/reference_data', vds.reference_data, overwrite)
    for vds, p in zip(vdss, paths):
        CUR.world.write_dataset(f'{p}/variant_data', vds.variant_data, overwrite)


def fake_calculate_new_intervals(mt, desired_average_partition_size, tmp_path):
    """engine-side repartitioning: outside the property; returns one interval spanning the genome."""
    CUR.tick()
    if not isinstance(mt, MatrixTable):
        raise HarnessGap('calculate_new_intervals: expected a MatrixTable')
    CUR.engine_op('intervals')
    rg = CUR.world.rg
    Locus = CUR.mods['hail.genetics.locus'].Locus
    Interval = CUR.mods['hail.utils.interval'].Interval
    pt = tstruct(locus=tlocus(rg))
    first, last = rg.contigs[0], rg.contigs[-1]
    iv = Interval(Struct(locus=Locus(first, 1, rg)), Struct(locus=Locus(last, rg.lengths[last], rg)), True, True,
                  point_type=pt)
    return [iv], tarray(tinterval(pt))


# ----------------------------------------------------------------------------------------------------------------
# backend, file system, processes
# ----------------------------------------------------------------------------------------------------------------

class _Handle:
    def __init__(self, view, path, mode):
        self.view = view
        self.path = path
        self.mode = mode
        self.closed = False
        if 'r' in mode:
            self.buf = io.StringIO(view.world.files[path])
        else:
            self.buf = io.StringIO()

    def write(self, s):
        if self.view.proc.dead:
            raise SimCrash()
        return self.buf.write(s)

    def read(self, n=-1):
        return self.buf.read(n)

    def __iter__(self):
        return iter(self.buf)

    def close(self):
        if self.closed or self.view.proc.dead:
            return
        self.closed = True
        if 'w' in self.mode:
            self.view._close_write(self)

    def __enter__(self):
        return self

    def __exit__(self, et, ev, tb):
        self.close()
        return False


class FSView:
    """`hl.current_backend().fs` of one simulated process.  Every call on a *plan path* is a numbered crash point.

    durability: `open(p,'w')` + writes + close -> content durable at close.  posix flavour: the open truncates the file
    at once and a crash before close leaves a seeded prefix of what was written; atomic flavour: the old object stays
    until close.  copy/remove are single operations (posix copy can be torn the same way)."""

    def __init__(self, world, proc):
        self.world = world
        self.proc = proc

    def _op(self, kind, path, tearable=False):
        CUR.tick()
        pr = self.proc
        if pr.dead:
            raise SimCrash()
        if not self.world.is_plan_path(path):
            return None
        idx = pr.n_plan_ops
        pr.n_plan_ops += 1
        pr.plan_ops.append((kind, tearable and self.world.posix))
        if pr.crash is not None and pr.crash[0] == idx:
            return pr.crash
        return None

    def _die(self, kind, path, how):
        self.proc.dead = True
        self.proc.died_at = (kind, how)
        raise SimCrash()

    def exists(self, path):
        c = self._op('exists', path)
        if c:
            self._die('exists', path, 'before')
        return self.world.fs_exists(path)

    def is_file(self, path):
        return path in self.world.files

    def is_dir(self, path):
        return self.world.fs_exists(path) and path not in self.world.files

    def copy(self, src, dst):
        c = self._op('copy', dst, tearable=True)
        if src not in self.world.files:
            raise FileNotFoundError(src)
        data = self.world.files[src]
        if c:
            if c[1] == 'torn' and self.world.posix:
                self.world.files[dst] = data[:_cut(len(data), c[2])]
                self._die('copy', dst, 'torn')
            self._die('copy', dst, 'before')
        self.world.files[dst] = data

    def remove(self, path):
        c = self._op('remove', path)
        if c:
            self._die('remove', path, 'before')
        if path not in self.world.files:
            raise FileNotFoundError(path)
        del self.world.files[path]

    def open(self, path, mode='r', buffer_size=8192):
        if 'w' in mode:
            c = self._op('open_w', path)
            if c:
                self._die('open_w', path, 'before')
            if self.world.posix:
                self.world.files[path] = ''
            return _Handle(self, path, mode)
        c = self._op('open_r', path)
        if c:
            self._die('open_r', path, 'before')
        if path not in self.world.files:
            raise FileNotFoundError(path)
        return _Handle(self, path, mode)

    def _close_write(self, h):
        c = self._op('close_w', h.path, tearable=True)
        data = h.buf.getvalue()
        if c:
            if c[1] == 'torn' and self.world.posix:
                self.world.files[h.path] = data[:_cut(len(data), c[2])]
                self._die('close_w', h.path, 'torn')
            # atomic: old object stays; posix: the truncated (empty) file stays
            self._die('close_w', h.path, 'before')
        self.world.files[h.path] = data
        if self.world.is_plan_path(h.path) and not h.path.endswith('.bak'):
            if self.world.plan_observer is not None:
                self.world.plan_observer(h.path, data)
            self.proc.n_saves += 1
            if self.proc.n_saves > self.world.save_bound:
                raise SimStepLimit(f'{self.proc.n_saves} plan saves in one process, bound {self.world.save_bound}')


def _cut(n, num):
    """torn-write cut position: num in 1..3 -> n*num//4; num == 4 -> all but the last character."""
    if n == 0:
        return 0
    if num >= 4:
        return n - 1
    return n * num // 4


class Process:
    """one incarnation of the python process running the combiner."""

    def __init__(self, crash=None, fault=None):
        self.crash = crash  # None | (plan_op_index, 'before') | (plan_op_index, 'torn', num)
        self.fault = fault  # None | (engine_call_index, flavour): that engine call raises EngineFault; flavour 1 = a
        #                     failed dataset write leaves part files (no _SUCCESS) behind, 0 = it leaves nothing
        self.n_engine_ops = 0
        self.engine_ops = []
        self.failed_at = None
        self.dead = False
        self.died_at = None
        self.n_plan_ops = 0
        self.plan_ops = []
        self.n_saves = 0
        self.n_functions = 0
        self.registered = set()
        self.flags = {}
        self.warnings = 0


class Backend:
    def __init__(self, world, proc):
        self._world = world
        self._proc = proc
        self.fs = FSView(world, proc)

    def _is_registered_ir_function_name(self, name):
        return name in self._proc.registered

    def add_reference(self, rg):
        self._world.references[rg.name] = rg

    def get_reference(self, name):
        return get_reference(name)


def current_backend():
    return CUR.backend


def get_reference(name):
    w = CUR.world
    if name == 'default':
        name = w.default_reference
    try:
        return w.references[name]
    except KeyError:
        raise KeyError(f'FakeHail: no reference genome {name!r}') from None


class World:
    """durable state shared by all incarnations of one simulated execution: the file system and the inputs."""

    def __init__(self, posix):
        self.posix = posix
        self.files = {}       # path -> str content
        self.datasets = {}    # path -> {'vid','prov','srcs','globals','key','entry','mtype'}  (current version)
        self.versions = {}    # 'path#n' -> same record, kept after the path is overwritten (lineage is a DAG of versions)
        self.gvcfs = {}       # path -> sample id
        self.input_vds = {}   # path -> n_samples
        self.references = {}
        self.default_reference = 'GRCh38'
        self.rg = None
        self.plan_path = None       # explicit save_path, or None (autogenerated under temp/combiner-plans/)
        self.save_bound = 10 ** 9
        self.plan_observer = None   # callable(path, text): runs whenever a complete plan file becomes durable
        self.plan_findings = []
        self.n_dataset_writes = 0
        self.overwritten = 0
        self.locus_type = None
        self.gvcf_row_type = self.gvcf_entry_type = self.gvcf_info_type = self.gvcf_mtype = None
        self.ref_entry = self.var_entry = None

    # -- file system ----------------------------------------------------------------------------------------------
    def is_plan_path(self, p):
        if self.plan_path is not None:
            return p == self.plan_path or p == self.plan_path + '.bak'
        return '/combiner-plans/' in p

    def fs_exists(self, p):
        if p in self.files:
            return True
        pre = p.rstrip('/') + '/'
        for q in self.files:
            if q.startswith(pre):
                return True
        return False

    def n_cols_of(self, prov):
        n = 0
        for k, c in prov.items():
            n += c * (1 if k in self.gvcfs else self.input_vds.get(k, 0))
        return n

    def write_dataset(self, path, table, overwrite):
        path = path.rstrip('/')
        if self.fs_exists(path):
            if not overwrite:
                raise PathExists(path)
            self.overwritten += 1
            for q in [q for q in self.files if q.startswith(path + '/')]:
                del self.files[q]
            self.datasets.pop(path, None)
        f = CUR.engine_op('write', fire=False)
        if f is not None:
            if f[1] == 1:  # the write job died half-way: part files exist, no _SUCCESS, not a readable dataset
                self.files[path + '/metadata.json.gz'] = 'sim'
            CUR.engine_fail('write')
        irn = table._irn
        m = irn.meta
        self.n_dataset_writes += 1
        vid = f'{path}#{self.n_dataset_writes}'
        self.datasets[path] = self.versions[vid] = {
            'vid': vid, 'prov': Counter(irn.prov), 'srcs': Counter(irn.srcs), 'globals': tuple(m['globals']),
            'key': tuple(m['key']), 'entry': m['entry'], 'mtype': table._type}
        self.files[path + '/metadata.json.gz'] = 'sim'
        self.files[path + '/_SUCCESS'] = ''

    def put_input_dataset(self, path, prov, globals_, key, entry, mtype):
        vid = f'{path}#0'
        self.datasets[path] = self.versions[vid] = {
            'vid': vid, 'prov': Counter(prov), 'srcs': Counter(), 'globals': tuple(globals_), 'key': tuple(key),
            'entry': entry, 'mtype': mtype}
        self.files[path + '/metadata.json.gz'] = 'sim'
        self.files[path + '/_SUCCESS'] = ''

    def read_dataset(self, path):
        path = path.rstrip('/')
        if path not in self.datasets or (path + '/_SUCCESS') not in self.files:
            raise FatalError(f'FakeHail: MatrixTable at {path} does not exist or is incomplete')
        CUR.engine_op('read')
        return self.datasets[path]

    def derived_mtype(self, key):
        tm = CUR.mods['hail.expr.matrix_type'].tmatrix
        variant = tuple(key) == ('locus', 'alleles')
        row = {'locus': self.locus_type}
        if variant:
            row['alleles'] = tarray(tstr)
        return tm(tstruct(), tstruct(s=tstr), ['s'], tstruct(**row), list(row),
                  self.var_entry if variant else self.ref_entry)


# ----------------------------------------------------------------------------------------------------------------
# per-run binding + loader of the real files
# ----------------------------------------------------------------------------------------------------------------

class _Cur:
    """what the module-level fake functions act on (set by Session)."""
    world = None
    proc = None
    backend = None
    mods = None
    ticks = 0
    tick_cap = 2_000_000
    n_imports = 0

    def tick(self):
        self.ticks += 1
        if self.ticks > self.tick_cap:
            raise SimStepLimit(f'more than {self.tick_cap} FakeHail calls in one process: the combiner does not terminate')

    def engine_op(self, kind, fire=True):
        """a numbered call into the query engine (fault point).  Returns the process's fault spec if this is the call
        the fault is scheduled at (raising EngineFault itself when `fire`), else None."""
        pr = self.proc
        if pr is None:
            return None
        idx = pr.n_engine_ops
        pr.n_engine_ops += 1
        pr.engine_ops.append(kind)
        f = pr.fault
        if f is None or f[0] != idx or pr.dead:
            return None
        if fire:
            self.engine_fail(kind)
        return f

    def engine_fail(self, kind):
        pr = self.proc
        pr.failed_at = (kind, pr.n_engine_ops - 1)
        raise EngineFault(f'FakeHail: injected transient engine failure in {kind} (engine call #{pr.n_engine_ops - 1})')


CUR = _Cur()

_REAL = [  # (module name, path below hail/python, is_package)
    ('hail.typecheck.check', 'hail/typecheck/check.py', False),
    ('hail.typecheck', 'hail/typecheck/__init__.py', True),
    ('hail.genetics.reference_genome', 'hail/genetics/reference_genome.py', False),
    ('hail.genetics.locus', 'hail/genetics/locus.py', False),
    ('hail.utils.interval', 'hail/utils/interval.py', False),
    ('hail.expr.matrix_type', 'hail/expr/matrix_type.py', False),
    ('hail.vds.combiner.combine', 'hail/vds/combiner/combine.py', False),
    ('hail.vds.combiner.variant_dataset_combiner', 'hail/vds/combiner/variant_dataset_combiner.py', False),
]
_code_cache = {}


def real_path(rel):
    return os.path.join(shim.REPO, 'hail', 'python', rel)


def _code(rel):
    p = real_path(rel)
    c = _code_cache.get(p)
    if c is None:
        with open(p, encoding='utf-8') as f:
            src = f.read()
        c = _code_cache[p] = compile(src, p, 'exec', dont_inherit=True)
    return c


def _install_decorator_fake():
    """functional stand-in for the third-party `decorator` package (needed by hailtop.hail_decorator, which the real
    hail.typecheck imports): same calling convention as decorator>=5 (arguments bound and defaults applied)."""
    m = sys.modules.get('decorator')
    if m is not None and getattr(m, '__sim_fake__', False) and hasattr(m, 'decorator'):
        return

    def decorator(caller):
        def deco(func):
            sig = inspect.signature(func)

            @functools.wraps(func)
            def fun(*args, **kw):
                ba = sig.bind(*args, **kw)
                ba.apply_defaults()
                return caller(func, *ba.args, **ba.kwargs)
            return fun
        return deco

    shim.fake_module('decorator', decorator=decorator)
    sys.modules.pop('hailtop.hail_decorator', None)


class _FakeModule(types.ModuleType):
    def __getattr__(self, name):
        if name.startswith('__') and name.endswith('__'):
            raise AttributeError(name)
        raise HarnessGap(f'FakeHail has no {self.__name__}.{name}')


class Session:
    """installs the fake `hail` tree in sys.modules, loads the real files into it, restores sys.modules on close."""

    def __init__(self, uuid_stream=None):
        self.saved = {}
        self.mods = {}
        self.uuid_stream = uuid_stream
        self.n_uuid = 0

    def _mod(self, name, pkg=False, **attrs):
        m = _FakeModule(name)
        if pkg:
            m.__path__ = []
        m.__sim_fake__ = True
        for k, v in attrs.items():
            setattr(m, k, v)
        self._register(name, m)
        return m

    def _register(self, name, m):
        if name not in self.saved:
            self.saved[name] = sys.modules.get(name)
        sys.modules[name] = m
        self.mods[name] = m
        if '.' in name:
            parent, _, leaf = name.rpartition('.')
            if parent in self.mods:
                setattr(self.mods[parent], leaf, m)

    def _load_real(self, name, rel, pkg):
        m = types.ModuleType(name)
        m.__file__ = real_path(rel)
        if pkg:
            m.__path__ = [os.path.dirname(m.__file__)]
            m.__package__ = name
        else:
            m.__package__ = name.rpartition('.')[0]
        self._register(name, m)
        exec(_code(rel), m.__dict__)  # pylint: disable=exec-used
        return m

    def uuid4(self):
        self.n_uuid += 1
        r = self.uuid_stream.draw(1 << 30) if self.uuid_stream is not None else 0
        return _uuid_mod.UUID(int=(self.n_uuid << 96) | (0x4 << 76) | (0x8 << 60) | r)

    def open(self):
        shim.install()
        _install_decorator_fake()
        CUR.mods = self.mods
        real = {n: (rel, pkg) for n, rel, pkg in _REAL}
        load = lambda n: self._load_real(n, *real[n])  # noqa: E731

        hl = self._mod('hail', pkg=True, __pip_version__='0.2.sim', __version__='0.2.sim-simsha')
        load('hail.typecheck.check')
        tc = load('hail.typecheck')

        class Env:
            _n = 0

            @staticmethod
            def backend():
                return CUR.backend

            @staticmethod
            def get_uid(base=None):
                Env._n += 1
                return f'__uid_{Env._n}'

        utils = self._mod('hail.utils', pkg=True, FatalError=FatalError, Struct=Struct, range_table=range_table,
                          hadoop_open=lambda path, mode='r', buffer_size=8192: CUR.backend.fs.open(path, mode),
                          hadoop_exists=lambda path: CUR.backend.fs.exists(path))

        def _info(msg):
            pass

        def _warning(msg):
            CUR.proc.warnings += 1

        self._mod('hail.utils.java', Env=Env, info=_info, warning=_warning, error=_warning,
                  escape_parsable=lambda s: s, jiterable_to_list=list, FatalError=FatalError)
        self._mod('hail.utils.misc', wrap_to_list=lambda s: s if isinstance(s, list) else list(s) if isinstance(s, tuple) else [s])
        genetics = self._mod('hail.genetics', pkg=True)
        rgm = load('hail.genetics.reference_genome')
        hl.get_reference = get_reference
        hl.current_backend = current_backend
        hl.hadoop_open = utils.hadoop_open
        genetics.ReferenceGenome = rgm.ReferenceGenome
        hl.ReferenceGenome = rgm.ReferenceGenome
        lm = load('hail.genetics.locus')
        genetics.Locus = lm.Locus
        hl.Locus = lm.Locus

        class AlleleType:
            pass

        self._mod('hail.genetics.allele_type', AlleleType=AlleleType)

        expr = self._mod('hail.expr', pkg=True, HailType=HailType, BooleanExpression=Expr, StructExpression=Expr,
                         Expression=Expr, construct_expr=construct_expr, unify_all=unify_all)
        hail_type = tc.oneof(HailType, tc.transformed((str, dtype)), type(None))
        self._mod('hail.expr.types', HailType=HailType, dtype=dtype, tstruct=tstruct, tarray=tarray, tlocus=tlocus,
                  tinterval=tinterval, tstr=tstr, tint32=tint32, tint64=tint64, tfloat64=tfloat64, tbool=tbool,
                  tcall=tcall, hail_type=hail_type, tset=tset)

        def impute_type(x):
            if isinstance(x, lm.Locus):
                return tlocus(x.reference_genome)
            if isinstance(x, Struct):
                return tstruct(**{k: impute_type(v) for k, v in x._fields.items()})
            if isinstance(x, bool):
                return tbool
            if isinstance(x, int):
                return tint32
            if isinstance(x, str):
                return tstr
            raise HarnessGap(f'impute_type({type(x).__name__})')

        self._mod('hail.expr.expressions', expr_bool=tc.anytype, expr_str=tc.anytype, impute_type=impute_type,
                  unify_types_limited=lambda *ts: ts[0] if all(t == ts[0] for t in ts) else None)
        self._mod('hail.expr.functions', numeric_allele_type=_generic_fn('numeric_allele_type'))
        iv = load('hail.utils.interval')
        utils.Interval = iv.Interval
        hl.Interval = iv.Interval
        mt = load('hail.expr.matrix_type')
        expr.tmatrix = mt.tmatrix

        self._mod('hail.experimental', pkg=True, define_function=define_function)
        self._mod('hail.experimental.function', Function=Function)
        self._mod('hail.ir', Apply=Apply, TableMapRows=TableMapRows, ToArray=_ir_ctor('ToArray'),
                  StreamMap=_ir_ctor('StreamMap'), ToStream=_ir_ctor('ToStream'), Ref=_ir_ctor('Ref'))
        self._mod('hail.matrixtable', MatrixTable=MatrixTable)
        self._mod('hail.table', Table=Table)
        hl.agg = _Agg
        for k, v in dict(Struct=Struct, Table=Table, MatrixTable=MatrixTable, tstruct=tstruct, tarray=tarray,
                         tlocus=tlocus, tinterval=tinterval, tstr=tstr, tint32=tint32, tint64=tint64, tbool=tbool,
                         tfloat64=tfloat64, tcall=tcall, literal=literal, struct=struct, enumerate=enumerate_,
                         rbind=rbind, eval=eval_, get_vcf_header_info=get_vcf_header_info,
                         import_gvcf_interval=import_gvcf_interval, _zip_join_producers=_zip_join_producers,
                         import_vcf=import_vcf, read_matrix_table=read_matrix_table, Expression=Expr,
                         is_defined=_generic_fn('is_defined'), is_missing=_generic_fn('is_missing'),
                         flatten=_generic_fn('flatten'), max=_generic_fn('max'), len=_generic_fn('len'),
                         _get_flags=lambda *names: {n: CUR.proc.flags.get(n) for n in names},
                         _set_flags=lambda **kw: CUR.proc.flags.update(kw)).items():
            setattr(hl, k, v)
        vds = self._mod('hail.vds', pkg=True, VariantDataset=VariantDataset, read_vds=read_vds,
                        write_variant_datasets=write_variant_datasets,
                        store_ref_block_max_length=store_ref_block_max_length)
        self._mod('hail.vds.variant_dataset', VariantDataset=VariantDataset, read_vds=read_vds,
                  store_ref_block_max_length=store_ref_block_max_length)
        self._mod('hail.vds.combiner', pkg=True)
        comb = load('hail.vds.combiner.combine')
        vdc = load('hail.vds.combiner.variant_dataset_combiner')
        # engine-side seams inside the loaded real module
        vdc.calculate_new_intervals = fake_calculate_new_intervals
        vdc.uuid = types.SimpleNamespace(**{k: getattr(_uuid_mod, k) for k in dir(_uuid_mod) if not k.startswith('__')})
        vdc.uuid.uuid4 = self.uuid4  # only uuid4 is seeded; UUID, uuid5, NAMESPACE_* pass through
        vds.new_combiner = vdc.new_combiner
        vds.load_combiner = vdc.load_combiner
        self.combine = comb
        self.vdc = vdc
        self.hl = hl
        return self

    def fresh_combiner_modules(self):
        """a new python process: module-level state of the two combiner files starts empty again."""
        self._load_real('hail.vds.combiner.combine', *[(r, p) for n, r, p in _REAL if n == 'hail.vds.combiner.combine'][0])
        vdc = self._load_real('hail.vds.combiner.variant_dataset_combiner',
                              *[(r, p) for n, r, p in _REAL if n == 'hail.vds.combiner.variant_dataset_combiner'][0])
        vdc.calculate_new_intervals = fake_calculate_new_intervals
        vdc.uuid = types.SimpleNamespace(**{k: getattr(_uuid_mod, k) for k in dir(_uuid_mod) if not k.startswith('__')})
        vdc.uuid.uuid4 = self.uuid4  # only uuid4 is seeded; UUID, uuid5, NAMESPACE_* pass through
        self.combine = self.mods['hail.vds.combiner.combine']
        self.vdc = vdc
        self.mods['hail.vds'].new_combiner = vdc.new_combiner
        self.mods['hail.vds'].load_combiner = vdc.load_combiner

    def bind(self, world, proc):
        CUR.world = world
        CUR.proc = proc
        CUR.backend = Backend(world, proc)
        CUR.ticks = 0

    def close(self):
        for name, old in self.saved.items():
            if old is None:
                sys.modules.pop(name, None)
            else:
                sys.modules[name] = old
        self.saved.clear()
        CUR.world = CUR.proc = CUR.backend = CUR.mods = None


# ----------------------------------------------------------------------------------------------------------------
# reference genomes
# ----------------------------------------------------------------------------------------------------------------

PRIMARY = {
    'GRCh37': [str(i) for i in range(1, 23)] + ['X', 'Y', 'MT'],
    'GRCh38': [f'chr{i}' for i in range(1, 23)] + ['chrX', 'chrY', 'chrM'],
}
_rg_json = {}


def real_lengths(name):
    """contig -> length of the repository's builtin reference (primary contigs first, then a few others), or None."""
    if name not in _rg_json:
        res = None
        for base in ('hail/hail/resources/reference', 'hail/src/main/resources/reference', 'hail/python/hail/experimental'):
            p = os.path.join(shim.REPO, base, name.lower() + '.json')
            if os.path.exists(p):
                with open(p) as f:
                    cfg = json.load(f)
                allc = {c['name']: c['length'] for c in cfg['contigs']}
                res = {c: allc[c] for c in PRIMARY[name]}
                for c in list(allc)[:40]:
                    if c not in res and len(res) < len(PRIMARY[name]) + 3:
                        res[c] = allc[c]
                break
        _rg_json[name] = res
    return _rg_json[name]


def make_reference(session, name, lengths):
    RG = session.mods['hail.genetics.reference_genome'].ReferenceGenome
    return RG(name, list(lengths), dict(lengths), _builtin=True)
