"""Simulated transports for the cloud AsyncFS backends (C23).  Nothing here is repository code.

* GCS: `GcsTransport` stands where `aiohttp.ClientSession` sits inside the *real* `hailtop.httpx.ClientSession`
  (its `_request(method, url, **kwargs)`); the real hailtop.httpx status handling, the real
  `hailtop.aiocloud.common.session.Session` (retry_transient_errors around the request), the real GoogleStorageClient /
  GoogleStorageAsyncFS / GetObjectStream run on top.  Responses carry a *real* `aiohttp.StreamReader` fed by a server
  task in seeded chunk sizes at seeded instants.  Object GET honours RFC 7233 single byte ranges the way GCS does
  (206 + slice, last-byte-pos clipped to the object; 416 when first-byte-pos >= size, which includes every ranged GET
  of an empty object; a syntactically invalid range is ignored -> 200 + whole object); metadata GET and object
  listing (prefix / delimiter / maxResults) return the JSON shapes the repository reads.
* S3: `boto3.client('s3', config=...)` -> `S3Client` with get_object(Bucket, Key, Range=) / head_object /
  list_objects_v2 and the botocore ClientError shapes the repository inspects (`Error.Code == 'InvalidRange'`,
  `ResponseMetadata.HTTPStatusCode == 404`, `client.exceptions.NoSuchKey`).  Body is a blocking stream whose
  read(amt) may return fewer bytes (io.RawIOBase contract) and which raises botocore's IncompleteReadError when the
  body ends before Content-Length (what StreamingBody does).
* Azure: `azure.storage.blob.aio.BlobServiceClient` -> BlobClient.exists / get_blob_properties /
  download_blob(offset=, length=) -> downloader with chunks() and readall(); ContainerClient.walk_blobs.  Semantics
  follow azure-storage-blob 12: no offset -> whole blob (an empty blob is fine), offset without length -> from
  offset to the end of the blob, length without offset -> ValueError, offset >= size (also offset 0 on an empty
  blob) -> HttpResponseError with status_code 416, missing blob -> ResourceNotFoundError.

Body faults (per response): io.truncated = the body stops early and the transport reports it (aiohttp
ClientPayloadError "Response payload is not completed", botocore IncompleteReadError, azure ServiceResponseError);
io.short_body = the body stops early but ends cleanly (a server that lies about the length); chunk sizes down to one
byte are the short reads.  GCS requests can additionally fail before a response exists (ServerDisconnectedError,
503, TimeoutError) -- the repository's Session retries those.
"""
import asyncio
import json
import sys
import urllib.parse

from simkit import shim

CURRENT = {'env': None}
_INSTALLED = {}


# ---------------------------------------------------------------------------------------------------------------
# exception types the repository code catches
# ---------------------------------------------------------------------------------------------------------------

class ClientError(Exception):
    def __init__(self, error_response, operation_name):
        self.response = error_response
        self.operation_name = operation_name
        code = error_response.get('Error', {}).get('Code')
        super().__init__(f'An error occurred ({code}) when calling the {operation_name} operation')


class NoSuchKey(ClientError):
    pass


class BotoConnectionClosedError(Exception):
    pass


class BotoIncompleteReadError(Exception):
    def __init__(self, actual_bytes, expected_bytes):
        super().__init__(f'{actual_bytes} read, but total bytes expected is {expected_bytes}.')


class BotoConfig:
    def __init__(self, **kwargs):
        self.kwargs = kwargs


class AzureError(Exception):
    pass


class HttpResponseError(AzureError):
    def __init__(self, message=None, status_code=None, error_code=None):
        super().__init__(message)
        self.status_code = status_code
        self.error_code = error_code
        self.message = message


class ResourceNotFoundError(HttpResponseError):
    pass


class ClientAuthenticationError(HttpResponseError):
    pass


class ServiceResponseError(AzureError):
    pass


class BlobPrefix:
    def __init__(self, prefix):
        self.prefix = prefix
        self.name = prefix


class BlobProperties:
    def __init__(self, name, size):
        self.name = name
        self.size = size
        self.creation_time = None
        self.last_modified = None


# ---------------------------------------------------------------------------------------------------------------
# per-run environment shared by the three transports
# ---------------------------------------------------------------------------------------------------------------

class CloudEnv:
    def __init__(self, ctx, *, chunk_max, chunk_mode, p_trunc, net_lat, p_req_fault):
        self.ctx = ctx
        self.objects = {}  # (bucket, key) -> bytes
        self.chunk_max = max(1, chunk_max)
        self.chunk_mode = chunk_mode  # 0 whole body, 1 fixed chunk_max, 2 seeded 1..chunk_max, 3 single bytes
        self.p_trunc = p_trunc
        self.net_lat = net_lat
        self.p_req_fault = p_req_fault
        self.req_faults_left = 3
        self.truncated_bodies = 0
        self.requests = 0

    def lat(self, who):
        return self.ctx.stream(f'net:{who}').ticks(self.net_lat) if self.net_lat else 0.0

    def plan_body(self, who, data):
        """-> (chunks, tail) with tail in {'eof', 'error', 'clean_short'}."""
        ctx = self.ctx
        tail = 'eof'
        if self.p_trunc > 0 and len(data) >= 1:
            s = ctx.stream('fault:io.truncated')
            if s.chance(self.p_trunc):
                cut = s.draw(len(data))
                kind = s.draw(2)
                data = data[:cut]
                tail = 'error' if kind == 0 else 'clean_short'
                ctx.fault('io.truncated' if kind == 0 else 'io.short_body')
                self.truncated_bodies += 1
                ctx.log.add(who, 'body_cut', cut, tail)
        chunks = []
        cs = ctx.stream(f'chunks:{who}')
        i = 0
        while i < len(data):
            if self.chunk_mode == 0:
                n = len(data)
            elif self.chunk_mode == 1:
                n = self.chunk_max
            elif self.chunk_mode == 2:
                n = 1 + cs.draw(self.chunk_max)
            else:
                n = 1
            chunks.append(data[i:i + n])
            if n == 1 and len(data) > 1:
                ctx.probe('one_byte_chunk')
            i += n
        return chunks, tail


def parse_range(header, size):
    """RFC 7233 single range against an object of `size` bytes.
    -> ('full', None, None) | ('partial', first, last_inclusive) | ('unsatisfiable', None, None)."""
    if header is None:
        return 'full', None, None
    if not header.startswith('bytes='):
        return 'full', None, None
    spec = header[len('bytes='):]
    if ',' in spec or '-' not in spec:
        return 'full', None, None
    a, _, b = spec.partition('-')
    a, b = a.strip(), b.strip()
    if a == '':
        if not b.isdigit():
            return 'full', None, None
        n = int(b)
        if n == 0 or size == 0:
            return 'unsatisfiable', None, None
        return 'partial', max(size - n, 0), size - 1
    if not a.isdigit() or (b != '' and not b.isdigit()):
        return 'full', None, None
    first = int(a)
    last = int(b) if b != '' else None
    if last is not None and last < first:
        return 'full', None, None  # invalid byte-range-spec: the header is ignored
    if first >= size:
        return 'unsatisfiable', None, None
    if last is None or last >= size:
        last = size - 1
    return 'partial', first, last


# ---------------------------------------------------------------------------------------------------------------
# GCS over a fake aiohttp session
# ---------------------------------------------------------------------------------------------------------------

class _NullTransport(asyncio.Transport):
    def pause_reading(self):
        pass

    def resume_reading(self):
        pass

    def is_closing(self):
        return False

    def close(self):
        pass


class GcsResponse:
    def __init__(self, transport, method, url, status, reason, headers, body_chunks, tail, who):
        import aiohttp
        from aiohttp.base_protocol import BaseProtocol
        from multidict import CIMultiDict, CIMultiDictProxy
        from yarl import URL
        self._t = transport
        loop = asyncio.get_running_loop()
        self.status = status
        self.reason = reason
        self.method = method
        self.url = URL(url)
        self.headers = CIMultiDictProxy(CIMultiDict(headers))
        self.history = ()
        self.request_info = aiohttp.RequestInfo(self.url, method, CIMultiDictProxy(CIMultiDict()), self.url)
        proto = BaseProtocol(loop)
        proto.connection_made(_NullTransport())  # StreamReader refuses to wait on a protocol without a transport
        self.content = aiohttp.StreamReader(proto, 2 ** 16, loop=loop)
        self._closed = False
        self._feeder = None
        self._who = who
        env = transport.env
        delays = [env.lat(who) for _ in body_chunks] + [env.lat(who)]
        if any(delays):
            self._feeder = loop.create_task(self._feed(body_chunks, tail, delays))
        else:
            for c in body_chunks:
                self.content.feed_data(c)
            self._finish(tail)

    def _finish(self, tail):
        import aiohttp
        if tail == 'error':
            self.content.set_exception(aiohttp.ClientPayloadError('Response payload is not completed'))
        else:
            self.content.feed_eof()

    async def _feed(self, chunks, tail, delays):
        for c, d in zip(chunks, delays):
            if d:
                await asyncio.sleep(d)
            if self._closed:
                return
            self.content.feed_data(c)
        if delays[-1]:
            await asyncio.sleep(delays[-1])
        if not self._closed:
            self._finish(tail)

    async def read(self):
        return await self.content.read()

    def get_encoding(self):
        return 'utf-8'

    async def text(self, encoding=None, errors='strict'):
        return (await self.read()).decode()

    async def json(self, **kwargs):
        return json.loads((await self.read()).decode())

    def close(self):
        self._closed = True
        if self._feeder is not None and not self._feeder.done():
            self._feeder.cancel()

    async def _noop(self):
        return None

    def release(self):
        self.close()
        return self._noop()

    @property
    def closed(self):
        return self._closed

    def raise_for_status(self):
        import aiohttp
        if self.status >= 400:
            raise aiohttp.ClientResponseError(self.request_info, self.history, status=self.status, message=self.reason,
                                              headers=self.headers)

    async def __aenter__(self):
        return self

    async def __aexit__(self, *a):
        self.release()


class GcsTransport:
    """replaces hailtop.httpx.ClientSession.client_session (an aiohttp.ClientSession)."""

    BASE = 'https://storage.googleapis.com/storage/v1/b/'

    def __init__(self, env):
        self.env = env
        self.closed = False

    async def close(self):
        self.closed = True

    def _json(self, method, url, status, reason, obj):
        body = json.dumps(obj).encode()
        return GcsResponse(self, method, url, status, reason,
                           {'Content-Type': 'application/json', 'Content-Length': str(len(body))}, [body] if body else [],
                           'eof', 'gcs-json')

    async def _request(self, method, url, *, params=None, headers=None, **kwargs):
        import aiohttp
        env = self.env
        ctx = env.ctx
        env.requests += 1
        url = str(url)
        params = dict(params or {})
        headers = dict(headers or {})
        d = env.lat('gcs-req')
        if d:
            await asyncio.sleep(d)
        if env.p_req_fault > 0 and env.req_faults_left > 0:
            s = ctx.stream('fault:io.transient')
            if s.chance(env.p_req_fault):
                env.req_faults_left -= 1
                k = s.draw(3)
                ctx.fault('io.transient')
                ctx.log.add('gcs', 'request_fault', method, ('disconnect', '503', 'timeout')[k])
                if k == 0:
                    raise aiohttp.ServerDisconnectedError()
                if k == 2:
                    raise asyncio.TimeoutError()
                return self._json(method, url, 503, 'Service Unavailable', {'error': {'code': 503, 'message': 'backendError'}})
        if not url.startswith(self.BASE) or method != 'GET':
            raise shim.SimulationEscape(f'GCS transport: unsupported request {method} {url}')
        rest = url[len(self.BASE):]
        bucket, _, tail = rest.partition('/o')
        if tail in ('', '/'):
            return self._list(method, url, bucket, params)
        assert tail.startswith('/'), url
        name = urllib.parse.unquote(tail[1:])
        data = env.objects.get((bucket, name))
        if data is None:
            ctx.log.add('gcs', 'GET', 'object', 404)
            return self._json(method, url, 404, 'Not Found', {'error': {'code': 404, 'message': f'No such object: {bucket}/{name}'}})
        if params.get('alt') != 'media':
            ctx.log.add('gcs', 'GET', 'metadata', 200)
            return self._json(method, url, 200, 'OK', {'kind': 'storage#object', 'name': name, 'bucket': bucket,
                                                      'size': str(len(data)), 'storageClass': 'STANDARD'})
        rng = headers.get('Range') or headers.get('range')
        kind, first, last = parse_range(rng, len(data))
        if kind == 'unsatisfiable':
            ctx.probe('http_416')
            ctx.log.add('gcs', 'GET', rng, 416)
            body = b'Requested range not satisfiable'
            return GcsResponse(self, method, url, 416, 'Requested range not satisfiable',
                               {'Content-Type': 'text/plain', 'Content-Range': f'bytes */{len(data)}',
                                'Content-Length': str(len(body))}, [body], 'eof', 'gcs-err')
        if kind == 'full':
            payload, status, hdrs = data, 200, {}
        else:
            payload, status = data[first:last + 1], 206
            hdrs = {'Content-Range': f'bytes {first}-{last}/{len(data)}'}
        hdrs.update({'Content-Type': 'application/octet-stream', 'Content-Length': str(len(payload))})
        chunks, btail = env.plan_body('gcs-body', payload)
        ctx.log.add('gcs', 'GET', rng, status, len(payload), tuple(len(c) for c in chunks), btail)
        return GcsResponse(self, method, url, status, 'OK' if status == 200 else 'Partial Content', hdrs, chunks, btail,
                           'gcs-body')

    def _list(self, method, url, bucket, params):
        env = self.env
        prefix = params.get('prefix', '')
        delim = params.get('delimiter')
        keys = sorted(k for (b, k) in env.objects if b == bucket and k.startswith(prefix))
        items, prefixes = [], []
        for k in keys:
            rest = k[len(prefix):]
            if delim and delim in rest:
                p = prefix + rest[:rest.index(delim) + 1]
                if p not in prefixes:
                    prefixes.append(p)
                if not (params.get('includeTrailingDelimiter') == 'true' and k == p):
                    continue
            items.append({'name': k, 'size': str(len(env.objects[(bucket, k)])), 'bucket': bucket})
        mx = params.get('maxResults')
        if mx is not None:
            mx = int(mx)
            prefixes = prefixes[:mx]
            items = items[:max(mx - len(prefixes), 0)]
        out = {'kind': 'storage#objects'}
        if items:
            out['items'] = items
        if prefixes:
            out['prefixes'] = prefixes
        env.ctx.log.add('gcs', 'GET', 'list', len(items), len(prefixes))
        return self._json(method, url, 200, 'OK', out)


# ---------------------------------------------------------------------------------------------------------------
# S3 through a fake boto3 client
# ---------------------------------------------------------------------------------------------------------------

class S3Body:
    def __init__(self, env, chunks, tail, expected_len):
        self.env = env
        self.buf = b''.join(chunks)
        self.caps = [len(c) for c in chunks]  # a read never spans two transport chunks
        self.tail = tail
        self.expected_len = expected_len
        self.pos = 0
        self.closed = False

    def read(self, amt=None):
        if self.closed:
            raise ValueError('read on closed body')
        if amt is None or amt < 0:
            out = self.buf[self.pos:]
            self.pos = len(self.buf)
            self.caps = []
            if self.tail == 'error':
                raise BotoIncompleteReadError(len(self.buf), self.expected_len)
            return out
        if amt == 0:
            return b''
        if self.pos >= len(self.buf):
            if self.tail == 'error':
                raise BotoIncompleteReadError(len(self.buf), self.expected_len)
            return b''
        n = min(amt, self.caps[0])
        out = self.buf[self.pos:self.pos + n]
        self.pos += n
        if n == self.caps[0]:
            self.caps.pop(0)
        else:
            self.caps[0] -= n
        return out

    def close(self):
        self.closed = True

    def readable(self):
        return True


class _S3Exceptions:
    NoSuchKey = NoSuchKey
    ClientError = ClientError


class S3Client:
    exceptions = _S3Exceptions

    def __init__(self, service, config=None, **kwargs):
        assert service == 's3'
        self.config = config

    @property
    def env(self):
        env = CURRENT['env']
        assert env is not None, 'S3 client used outside a run'
        return env

    def get_object(self, Bucket, Key, Range=None, **kwargs):  # pylint: disable=invalid-name
        env = self.env
        env.requests += 1
        data = env.objects.get((Bucket, Key))
        if data is None:
            env.ctx.log.add('s3', 'get_object', Range, 'NoSuchKey')
            raise NoSuchKey({'Error': {'Code': 'NoSuchKey', 'Message': 'The specified key does not exist.'},
                             'ResponseMetadata': {'HTTPStatusCode': 404}}, 'GetObject')
        kind, first, last = parse_range(Range, len(data))
        if kind == 'unsatisfiable':
            env.ctx.probe('http_416')
            env.ctx.log.add('s3', 'get_object', Range, 'InvalidRange')
            raise ClientError({'Error': {'Code': 'InvalidRange', 'Message': 'The requested range is not satisfiable'},
                               'ResponseMetadata': {'HTTPStatusCode': 416}}, 'GetObject')
        payload = data if kind == 'full' else data[first:last + 1]
        chunks, tail = env.plan_body('s3-body', payload)
        env.ctx.log.add('s3', 'get_object', Range, 200 if kind == 'full' else 206, len(payload),
                        tuple(len(c) for c in chunks), tail)
        resp = {'Body': S3Body(env, chunks, tail, len(payload)), 'ContentLength': len(payload),
                'ResponseMetadata': {'HTTPStatusCode': 200 if kind == 'full' else 206}}
        if kind == 'partial':
            resp['ContentRange'] = f'bytes {first}-{last}/{len(data)}'
        return resp

    def head_object(self, Bucket, Key, **kwargs):  # pylint: disable=invalid-name
        env = self.env
        data = env.objects.get((Bucket, Key))
        if data is None:
            env.ctx.log.add('s3', 'head_object', 404)
            raise ClientError({'Error': {'Code': '404', 'Message': 'Not Found'},
                               'ResponseMetadata': {'HTTPStatusCode': 404}}, 'HeadObject')
        env.ctx.log.add('s3', 'head_object', 200)
        return {'ContentLength': len(data), 'LastModified': None, 'ResponseMetadata': {'HTTPStatusCode': 200}}

    def list_objects_v2(self, Bucket, Prefix='', Delimiter=None, ContinuationToken=None, **kwargs):  # pylint: disable=invalid-name
        env = self.env
        keys = sorted(k for (b, k) in env.objects if b == Bucket and k.startswith(Prefix))
        contents, prefixes = [], []
        for k in keys:
            rest = k[len(Prefix):]
            if Delimiter and Delimiter in rest:
                p = Prefix + rest[:rest.index(Delimiter) + 1]
                if p not in prefixes:
                    prefixes.append(p)
                continue
            contents.append({'Key': k, 'Size': len(env.objects[(Bucket, k)]), 'LastModified': None})
        out = {'KeyCount': len(contents) + len(prefixes), 'IsTruncated': False}
        if contents:
            out['Contents'] = contents
        if prefixes:
            out['CommonPrefixes'] = [{'Prefix': p} for p in prefixes]
        env.ctx.log.add('s3', 'list_objects_v2', len(contents), len(prefixes))
        return out


# ---------------------------------------------------------------------------------------------------------------
# Azure blob SDK surface
# ---------------------------------------------------------------------------------------------------------------

class AzureDownloader:
    def __init__(self, env, chunks, tail, size):
        self.env = env
        self._chunks = chunks
        self._tail = tail
        self.size = size

    def chunks(self):
        return self._aiter()

    async def _aiter(self):
        for c in self._chunks:
            d = self.env.lat('az-body')
            if d:
                await asyncio.sleep(d)
            yield c
        if self._tail == 'error':
            raise ServiceResponseError('sim-truncated: connection broken while reading the blob')

    async def readall(self):
        d = self.env.lat('az-body')
        if d:
            await asyncio.sleep(d)
        if self._tail == 'error':
            raise ServiceResponseError('sim-truncated: connection broken while reading the blob')
        return b''.join(self._chunks)


class AzureBlobClient:
    def __init__(self, account, container, name):
        self.key = (f'{account}/{container}', name)

    @property
    def env(self):
        env = CURRENT['env']
        assert env is not None, 'azure client used outside a run'
        return env

    async def _lat(self):
        d = self.env.lat('az-req')
        if d:
            await asyncio.sleep(d)

    async def exists(self, **kwargs):
        await self._lat()
        return self.key in self.env.objects

    async def get_blob_properties(self, **kwargs):
        await self._lat()
        data = self.env.objects.get(self.key)
        if data is None:
            raise ResourceNotFoundError('The specified blob does not exist.', status_code=404, error_code='BlobNotFound')
        return BlobProperties(self.key[1], len(data))

    async def download_blob(self, offset=None, length=None, **kwargs):
        env = self.env
        env.requests += 1
        await self._lat()
        if length is not None and offset is None:
            raise ValueError('Offset value must not be None if length is set.')
        data = env.objects.get(self.key)
        if data is None:
            env.ctx.log.add('azure', 'download_blob', offset, length, 404)
            raise ResourceNotFoundError('The specified blob does not exist.', status_code=404, error_code='BlobNotFound')
        if offset is None:
            payload = data
        else:
            if offset >= len(data):
                env.ctx.probe('http_416')
                env.ctx.log.add('azure', 'download_blob', offset, length, 416)
                raise HttpResponseError('The range specified is invalid for the current size of the resource.',
                                        status_code=416, error_code='InvalidRange')
            payload = data[offset:] if length is None else data[offset:offset + length]
        chunks, tail = env.plan_body('az-body', payload)
        env.ctx.log.add('azure', 'download_blob', offset, length, 200 if offset is None else 206, len(payload),
                        tuple(len(c) for c in chunks), tail)
        return AzureDownloader(env, chunks, tail, len(payload))


class AzureContainerClient:
    def __init__(self, account, container):
        self.bucket = f'{account}/{container}'

    def walk_blobs(self, name_starts_with=None, include=None, delimiter='/', **kwargs):
        return self._walk(name_starts_with or '', delimiter)

    async def _walk(self, prefix, delimiter):
        env = CURRENT['env']
        keys = sorted(k for (b, k) in env.objects if b == self.bucket and k.startswith(prefix))
        seen = set()
        for k in keys:
            rest = k[len(prefix):]
            if delimiter and delimiter in rest:
                p = prefix + rest[:rest.index(delimiter) + 1]
                if p not in seen:
                    seen.add(p)
                    yield BlobPrefix(p)
                continue
            yield BlobProperties(k, len(env.objects[(self.bucket, k)]))

    def list_blobs(self, name_starts_with=None, include=None, **kwargs):
        return self._list(name_starts_with or '')

    async def _list(self, prefix):
        env = CURRENT['env']
        for (b, k) in sorted(env.objects):
            if b == self.bucket and k.startswith(prefix):
                yield BlobProperties(k, len(env.objects[(b, k)]))


class AzureBlobServiceClient:
    def __init__(self, account_url, credential=None, **kwargs):
        host = urllib.parse.urlparse(account_url).netloc
        self.account = host.split('.')[0]
        self.credential = credential

    def get_blob_client(self, container, blob, **kwargs):
        return AzureBlobClient(self.account, container, blob)

    def get_container_client(self, container, **kwargs):
        return AzureContainerClient(self.account, container)

    async def close(self):
        return None


class AzureFakeCredentials:
    """what AzureAsyncFS(credentials=...) needs: `.credential` with an async close()."""

    class _Cred:
        async def close(self):
            return None

    def __init__(self):
        self.credential = AzureFakeCredentials._Cred()


# ---------------------------------------------------------------------------------------------------------------
# registration
# ---------------------------------------------------------------------------------------------------------------

def _module(name):
    """the module as the process sees it (real, functional fake or permissive stub created by the shim's finder)."""
    import importlib
    importlib.import_module(name)
    return sys.modules[name]


def install():
    """make the functional fakes visible to the repository modules.

    The shim's fallback finder creates permissive stub modules for boto3 / botocore / azure.*; the functional classes
    are set as attributes on those modules (the effect of shim.fake_module, but order-independent: repository code
    looks `boto3.client`, `botocore.exceptions.ClientError` and `azure.core.exceptions.*` up at call time, and the
    names that aioazure/fs.py binds at import (`from azure.storage.blob.aio import BlobServiceClient, ...`) are re-bound
    in that module if it was imported before us).  Everything not listed here stays a stub, and awaiting a stub is a
    SimulationEscape (harness error)."""
    if _INSTALLED:
        return
    shim.install()
    # pyspark is not installed; the fallback finder would otherwise make `import pyspark` succeed and
    # aiogoogle.user_config would try to read a spark-defaults.conf below a stub path
    for k in [k for k in sys.modules if k == 'pyspark' or k.startswith('pyspark.')]:
        del sys.modules[k]
    sys.modules['pyspark'] = None
    _module('boto3').client = S3Client
    _module('botocore.config').Config = BotoConfig
    be = _module('botocore.exceptions')
    be.ClientError = ClientError
    be.ConnectionClosedError = BotoConnectionClosedError
    be.IncompleteReadError = BotoIncompleteReadError
    ae = _module('azure.core.exceptions')
    for cls in (AzureError, HttpResponseError, ResourceNotFoundError, ClientAuthenticationError, ServiceResponseError):
        setattr(ae, cls.__name__, cls)
    aio = _module('azure.storage.blob.aio')
    names = {'BlobClient': AzureBlobClient, 'BlobPrefix': BlobPrefix, 'BlobServiceClient': AzureBlobServiceClient,
             'ContainerClient': AzureContainerClient, 'StorageStreamDownloader': AzureDownloader}
    for k, v in names.items():
        setattr(aio, k, v)
    _module('azure.storage.blob').BlobProperties = BlobProperties
    names['BlobProperties'] = BlobProperties
    for modname in ('hailtop.aiocloud.aioazure.fs', 'hailtop.aiocloud.aioterra.azure.fs'):
        m = sys.modules.get(modname)
        if m is not None:
            for k, v in names.items():
                if hasattr(m, k):
                    setattr(m, k, v)
    _INSTALLED['ok'] = True
