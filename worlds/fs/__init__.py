"""fssim -- the copy tool (C22) and ranged reads (C23) of hailtop.aiotools / hailtop.aiocloud on the simulated loop.

Modules
  copy.py      C22 scenario: real Copier / Transfer / SourceCopier / copy.copy / RouterAsyncFS / LocalAsyncFS on a scratch
               directory behind FaultyFS (transient faults, short reads, seeded latencies and completion order).
  refmodel.py  independent reference model of the documented destination rules; pinned against the project's own
               324-entry table (test/hailtop/inter_cloud/copy_test_specs.py, generated on the local file system) at
               first use per process -- a disagreement is a harness error.
  ranged.py    C23 scenario: open_from / read_from / read_range / read / readexactly on LocalAsyncFS,
               GoogleStorageAsyncFS, S3AsyncFS, AzureAsyncFS (all real) over simulated transports.
  fakes.py     the simulated transports (GCS range server under hailtop.httpx feeding a real aiohttp.StreamReader, fake
               boto3 client, fake azure blob client); installed from ranged.py at import as attributes of the shim's stub
               modules (pyspark is marked absent so that aiogoogle.user_config takes its ImportError branch).
  util.py      InlinePool, drain_tasks (no coroutine outlives its run), SeededModuleRandom (retry jitter from a stream).
  registry.py  ENGINE + CHECKS for C22 and C23.

What is and is not exercised
  C22: local paths only.  All three treat_dest_as modes, trailing slashes on source and destination, list sources,
  1..3 transfers per call, missing sources, files named with a trailing slash, empty directories, destinations that are
  absent / files / directories / below a file / with missing parents, file-onto-directory and directory-onto-file
  clashes at the top and inside a copied tree, overwriting shorter and longer files, zero-byte files, sizes at
  P-1/P/P+1/2P/2P+1/3P and around the buffer size, buffer smaller/equal/larger than the part, retried transient faults
  before and after every retried operation, partial writes, short reads, three entry points.  NOT exercised:
  FileAndDirectoryError (cannot arise on a local file system; no object-store copy endpoint was built), symlinks,
  return_exceptions=True, sources below a file (the tool raises NotADirectoryError there, nothing documents it).
  C23: all four backends run repository code; see ranged.py for the trusted base of the cloud verdicts.

Sensitivity -- mutations applied to a scratch copy of hail/python (HAIL_REPO_ROOT=/tmp/fsmut/<name>, deleted
afterwards), 400-1500 seeds each, "caught" = at least one run ends in a violation that the unchanged tree does not show:
  C22 copier.py  create_part offset + 1 for parts after the first ....................... caught (length_differs/multi_part)
  C22 copier.py  one part fewer when size is an exact multiple of the part size .......... caught (length_differs/multi_part)
  C22 copier.py  last part gets size `rem` even when rem == 0 ............................ caught (length_differs/multi_part)
  C22 copier.py  every buffer of a part read from the part's first offset ................ caught (bytes_differ/multi_part)
  C22 copier.py  _copy_part swallows TimeoutError instead of re-raising (no retry) ....... caught (bytes/length differ)
  C22 copier.py  INFER_DEST treats an existing *file* destination as a directory ......... caught (unexpected IsADirectory,
                                                                                           missing_file, ...)
  C22 copier.py  list sources no longer imply a directory destination in _dest_type ...... caught (missing_file, ...)
  C22 copier.py  missing source no longer raises FileNotFoundError ....................... caught (error_expected_but_succeeded)
  C22 copier.py  no makedirs when the destination's parent is missing ..................... caught (unexpected FileNotFoundError)
  C22 copier.py  basename of a source with trailing slash taken without rstrip('/') ...... caught (missing_file)
  C22 copier.py  _copy_file stops at the first read shorter than BUFFER_SIZE .............. caught (length_differs/single_part)
  C22 local_fs   LocalMultiPartCreate.create_part without seek(start) .................... caught (length_differs/multi_part)
  C22 local_fs   makedirs(exist_ok=True) skips directories it created before (never invalidated; seeded change C22-5)
                 ................................................................................ caught (unexpected_exception/
                 FileNotFoundError, wrong_exception/FileNotFoundError) in the second or third copy of a history, after the
                 directory an earlier copy created was removed (rmtree / rmdir of the same object, shutil / os); missed
                 while every run was a single copy on a fresh file system object
  C22 utils.py   retry gives up after the second transient error ......................... caught (transient_error_not_retried)
  C22 utils.py   EPIPE no longer retryable ............................................... caught (transient_error_not_retried)
  C22 utils.py   ETIMEDOUT no longer in RETRYABLE_ERRNOS ................................. not caught: equivalent on Python 3.12
                 (OSError(ETIMEDOUT) is TimeoutError is asyncio.TimeoutError, still transient)
  C22 copier.py  single-part threshold size <= part_size + 1 ............................. not caught: equivalent (a file one
                 byte larger than the part is copied correctly by the single-part path)
  C23 fs.py      read_range ignores end_inclusive (always +1) / inverts it ............... caught on all four backends
  C23 fs.py      open_from length == 0 shortcut only for start == 0 ...................... caught on all four backends
  C23 local_fs   _open_from ignores length ................................................ caught (local/read_n_ignores_length)
  C23 local_fs   _open_from does not seek ................................................. caught (local/*/wrong_bytes)
  C23 local_fs   TruncatedReadableBinaryIO.read(n) limits by `limit` instead of remaining . caught (local/read_n_ignores_length)
  C23 stream.py  _readexactly returns short instead of raising at EOF .................... caught (local+s3 missing_eof_error)
  C23 gcs        Range last-byte-pos off by one (start + length) ......................... caught (gcs/read*_ignores_length)
  C23 gcs        Range first-byte-pos off by one ......................................... caught (gcs/*/wrong_bytes)
  C23 gcs        416 no longer mapped to UnexpectedEOFError .............................. caught (gcs/read_range/unexpected_exception)
  C23 gcs        IncompleteReadError returns the partial data ............................ caught (gcs/readexactly_short, ...)
  C23 s3         Range last-byte-pos off by one .......................................... caught (s3/read*_ignores_length)
  C23 s3         InvalidRange no longer mapped ........................................... caught (s3/read_range/unexpected_exception)
  C23 azure      read() downloads without offset/length .................................. caught (azure/*/wrong_bytes)
  C23 azure      readexactly accepts short data .......................................... caught (azure/readexactly_short, ...)

Findings on the unchanged tree (see the scenario docstrings and the replay files under /verif/replays):
  C23/azure/read_n_ignores_length          AzureReadableStream.read(n) opens download_blob(offset=...) without length.
  C23/azure/mixed/error_instead_of_eof     AzureReadableStream.read() after read(n) consumed the last byte asks for
                                           offset == size and lets the 416 HttpResponseError escape.
  (observation, no property claims it)     bounded_gather2_raise_exceptions(cancel_on_error=True) re-raises from inside
                                           its `finally` loop, so tasks listed after the failed one are neither cancelled
                                           nor awaited: after Copier.copy has raised, other sources keep copying.
"""
