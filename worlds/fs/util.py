"""helpers shared by the fs scenarios (harness code only)."""
import asyncio
import random

from simkit.core import HarnessError


class InlinePool:
    """stands where a ThreadPoolExecutor is expected; SimLoop.run_in_executor never touches it."""


async def drain_tasks():
    """no coroutine may outlive its run: a coroutine that is still suspended when the loop is dropped is finalised by
    the garbage collector during some later run, and its cleanup (stream close -> run_in_executor, sleeps) would then
    schedule callbacks on that later run's loop (observed: 'list changed size during iteration' inside heappush).
    bounded_gather2_raise_exceptions leaves such tasks behind (it re-raises the first failed task's exception from
    inside its `finally` loop before cancelling/awaiting the tasks after it) and GrowingSempahore cancels its grower
    without awaiting it.  Returns the sorted coroutine names of the tasks that were still alive."""
    me = asyncio.current_task()
    first = None
    for _ in range(100):
        others = sorted((t for t in asyncio.all_tasks() if t is not me and not t.done()), key=lambda t: t._sim_id)
        if first is None:
            first = sorted(getattr(t.get_coro(), '__qualname__', '?') for t in others)
        if not others:
            break
        for t in others:
            t.cancel()
        await asyncio.wait(others, timeout=3600.0)
    else:
        raise HarnessError('tasks survive repeated cancellation')
    return first


_RANDOM_NAMES = ('randrange', 'random', 'uniform', 'randint', 'choice')


class SeededModuleRandom:
    """while active, the module-level functions of `random` (the repository's retry jitter uses random.randrange) draw
    from a choice stream.  random.Random instances (the kernel's own streams) are unaffected."""

    def __init__(self, stream):
        self.s = stream
        self.saved = None

    def __enter__(self):
        s = self.s
        self.saved = {n: getattr(random, n) for n in _RANDOM_NAMES}

        def randrange(start, stop=None, step=1):
            if stop is None:
                return s.draw(start)
            return start + step * s.draw(max((stop - start + step - 1) // step, 1))

        random.randrange = randrange
        random.random = s.flt
        random.uniform = lambda a, b: a + (b - a) * s.flt()
        random.randint = lambda a, b: a + s.draw(b - a + 1)
        random.choice = lambda seq: seq[s.draw(len(seq))]
        return self

    def __exit__(self, *a):
        for n, f in self.saved.items():
            setattr(random, n, f)
        return False
