"""C23 -- ranged reads (AsyncFS.open_from / read_from / read_range, ReadableStream.read / readexactly) on four backends.

Which backends run real repository code (all four; what is simulated is the transport below them):

* local -- real LocalAsyncFS / TruncatedReadableBinaryIO / _ReadableStreamFromBlocking on a tempfile.mkdtemp scratch
  directory (removed in a finally); the thread pool is SimLoop.run_in_executor.
* gcs   -- real GoogleStorageAsyncFS._open_from (Range header construction), GoogleStorageClient.get_object (404/416
  mapping), GetObjectStream (read/readexactly over a real aiohttp.StreamReader), aiocloud.common.session.Session
  (retry of the request) and hailtop.httpx.ClientSession (status handling); simulated: the aiohttp session underneath
  (worlds/fs/fakes.py GcsTransport: RFC 7233 range server streaming seeded chunk sizes).
* s3    -- real S3AsyncFS._open_from (Range string, InvalidRange / NoSuchKey mapping) and _ReadableStreamFromBlocking;
  simulated: boto3.client('s3') (get_object / head_object / list_objects_v2, blocking body with short reads).
* azure -- real AzureAsyncFS._open_from and AzureReadableStream.read/readexactly; simulated:
  azure.storage.blob.aio.BlobServiceClient / BlobClient.download_blob(offset, length) / downloader.chunks()/readall().
  The SDK surface the repository calls is five methods wide, so it was kept; its semantics are written down in
  worlds/fs/fakes.py and are the trusted base of the azure verdicts.
Optionally (seeded) the FS is reached through the real RouterAsyncFS.

Per run: one backend, one object of size 0..3C (+/-1 around chunk multiples; C = transport chunk size 1..12), 0..4
operations drawn from: open_from(start[, length]) followed by read() / a loop of read(n) with seeded n / a sequence of
readexactly(n) / read(n) then read(); read_range(start, end, end_inclusive); read_from(start); open().read().  Offsets and
lengths concentrate on 0, the last byte, size, size+1, "exactly to the end", one more, one less and 0.  Transport: body
chunking in {whole, fixed C, seeded 1..C, single bytes}, seeded latencies, body cut short with (io.truncated) or without
(io.short_body) a transport error, GCS request faults that the repository's Session retries.

Oracle (per operation, from the ReadableStream comments, the inter_cloud tests and the property text):
* open_from(start, length) then reading to the end yields exactly obj[start:start+length] (obj[start:] without length;
  b'' for length 0); a loop of read(n) yields the same bytes in pieces of at most n and ends with b''; readexactly(n)
  returns exactly the next n bytes of that range or raises UnexpectedEOFError when the range has fewer left.
* read_range(start, end, end_inclusive) returns exactly the span, b'' for an empty span, UnexpectedEOFError when the span
  extends past the object's end.
* start at or past the end of the object with a non-empty request: nothing documents the outcome and the backends
  differ (b'' locally, UnexpectedEOFError from a 416 on GCS/S3, a raw HttpResponseError from azure read()); accepted:
  no data plus normal completion or any exception; returning data is a violation.  Counted in probes
  (`past_eof_offset:*`), reported, never an alarm.
* when a body was cut during the operation: readexactly / read_range must return the complete correct bytes or raise
  (UnexpectedEOFError or the transport's error); read()/read(n) may deliver a prefix; wrong bytes never.

Sensitivity: see worlds/fs/__init__.py.
"""
import asyncio
import os
import shutil
import ssl
import tempfile

from simkit import shim
from worlds.common import simulate
from worlds.fs import fakes
from worlds.fs.util import InlinePool, SeededModuleRandom, drain_tasks

fakes.install()  # functional boto3 / botocore / azure.* surfaces on top of the shim's stub modules (order-independent)

NAME = 'fs.ranged'
RULE = ('one backend per run (local, gcs, s3, azure; optionally through RouterAsyncFS), object size 0..3C+1 for transport '
        'chunk C in 1..12, 0..4 operations (open_from+read / read(n) loop / readexactly sequence / read(n)+read, '
        'read_range inclusive/exclusive, read_from, open) with offsets/lengths on the boundaries (0, last byte, size, '
        'size+1, to-the-end +/-1, 0); body chunking whole/fixed/seeded/1-byte, seeded latencies, truncated bodies with '
        'and without transport error, retried GCS request faults')
COMPONENTS = {
    'hailtop.aiotools.fs.fs.AsyncFS.open_from / read_from / read_range, EmptyReadableStream': 'real',
    'hailtop.aiotools.local_fs.LocalAsyncFS / TruncatedReadableBinaryIO': 'real, on a tempfile.mkdtemp scratch directory',
    'hailtop.aiotools.fs.stream._ReadableStreamFromBlocking (local, s3)': 'real',
    'hailtop.aiocloud.aiogoogle GoogleStorageAsyncFS / GoogleStorageClient.get_object / GetObjectStream': 'real',
    'hailtop.aiocloud.common.session.Session, hailtop.httpx.ClientSession': 'real',
    'aiohttp.StreamReader carrying GCS bodies': 'real (third-party), fed by the simulated server',
    'aiohttp.ClientSession / network under hailtop.httpx': 'simulated (GcsTransport: RFC 7233 range server)',
    'hailtop.aiocloud.aioaws.fs.S3AsyncFS': 'real',
    'boto3 / botocore': 'simulated (S3Client.get_object/head_object/list_objects_v2, ClientError shapes)',
    'hailtop.aiocloud.aioazure.fs.AzureAsyncFS / AzureReadableStream': 'real',
    'azure.storage.blob.aio (BlobServiceClient, BlobClient.download_blob, downloader)': 'simulated (semantics of '
                                                                                        'azure-storage-blob 12 as '
                                                                                        'documented in fakes.py)',
    'hailtop.aiotools.router_fs.RouterAsyncFS': 'real (seeded subset of runs)',
    'cloud credentials': 'AnonymousCloudCredentials (real class) for GCS; inert credential object for azure',
    'TLS context': 'a bare ssl.SSLContext (no CA bundle is loaded; no socket is ever opened)',
}
ASSUMPTIONS = [
    'GCS and S3 answer single byte ranges per RFC 7233 (206 + clipped slice; 416 when first-byte-pos >= size, including '
    'any ranged GET of an empty object; an invalid range is ignored)',
    'azure download_blob(offset, length): no offset = whole blob; offset without length = to the end of the blob; '
    'offset >= size (also 0 on an empty blob) = HttpResponseError 416',
    'aiohttp.StreamReader.read/readexactly behave as in aiohttp 3.x; a body that ends before Content-Length surfaces as '
    'ClientPayloadError("Response payload is not completed")',
    'botocore StreamingBody raises IncompleteReadError when the body ends before Content-Length',
]

BACKENDS = ['local', 'gcs', 's3', 'azure']
URLS = {'gcs': 'gs://bkt/obj/data', 's3': 's3://bkt/obj/data',
        'azure': 'https://acct.blob.core.windows.net/cont/obj/data'}
KEYS = {'gcs': ('bkt', 'obj/data'), 's3': ('bkt', 'obj/data'), 'azure': ('acct/cont', 'obj/data')}
OPS = ['read_all', 'read_n', 'readexactly', 'mixed', 'read_range', 'read_from', 'open_read']

_TLS = {}


def content(size):
    return bytes((i * 37 + (i // 256) * 11 + 5) % 256 for i in range(size))


def pick_start(s, size):
    c = [0, size - 1, size, size // 2, size + 1, 1]
    i = s.draw(len(c) + 1)
    v = c[i] if i < len(c) else s.draw(size + 3)
    return max(v, 0)


def pick_span(s, size, start):
    """a length / span: 'exactly to the end', one more, one less, 1, 0, seeded."""
    to_end = max(size - start, 0)
    c = [to_end, to_end + 1, 1, to_end - 1, 0]
    i = s.draw(len(c) + 2)
    v = c[i] if i < len(c) else s.draw(size + 3)
    return max(v, 0)


def gen_op(s, size, C):
    kind = OPS[s.weighted([3, 4, 3, 2, 5, 1, 1])]
    op = {'kind': kind}
    if kind == 'open_read':
        return op
    op['start'] = pick_start(s, size)
    if kind == 'read_from':
        return op
    if kind == 'read_range':
        n = pick_span(s, size, op['start'])
        incl = bool(s.draw(2)) and n > 0
        op['n'] = n
        op['incl'] = incl
        op['end'] = op['start'] + n - (1 if incl else 0)
        return op
    op['length'] = None if s.draw(3) == 0 else pick_span(s, size, op['start'])
    if kind in ('read_n', 'mixed'):
        op['ns'] = [1 + s.draw(C + 2) for _ in range(3)]  # cycled
    if kind == 'readexactly':
        k = 1 + s.draw(3)
        op['ns'] = [s.draw(max(size, 1) + 2) if s.draw(4) else pick_span(s, size, op['start']) for _ in range(k)]
    return op


async def build_fs(backend, env, root, via_router, rp):
    """-> (fs, url, closers)"""
    closers = []
    if backend == 'local':
        from hailtop.aiotools.local_fs import LocalAsyncFS
        fs = LocalAsyncFS(thread_pool=InlinePool())
        url = os.path.join(root, 'obj', 'data')
        attr = '_local_fs'
    elif backend == 'gcs':
        from hailtop import httpx
        from hailtop.aiocloud.aiogoogle import GoogleStorageAsyncFS, GoogleStorageClient
        from hailtop.aiocloud.common.credentials import AnonymousCloudCredentials
        from hailtop.aiocloud.common.session import Session
        from hailtop.config import get_deploy_config
        if 'ctx' not in _TLS:
            _TLS['ctx'] = ssl.SSLContext(ssl.PROTOCOL_TLS_CLIENT)
        dc = get_deploy_config()
        dc.client_ssl_context = lambda: _TLS['ctx']
        hs = httpx.ClientSession(raise_for_status=True)
        await hs.client_session.close()
        hs.client_session = fakes.GcsTransport(env)
        sess = Session(credentials=AnonymousCloudCredentials(), http_session=hs)
        client = GoogleStorageClient(session=sess, gcs_requester_pays_configuration=rp)
        fs = GoogleStorageAsyncFS(storage_client=client)
        closers.append(hs.close)
        url = URLS['gcs']
        attr = '_google_fs'
    elif backend == 's3':
        from hailtop.aiocloud.aioaws import S3AsyncFS
        fs = S3AsyncFS(thread_pool=InlinePool())
        url = URLS['s3']
        attr = '_s3_fs'
    else:
        from hailtop.aiocloud.aioazure import AzureAsyncFS
        fs = AzureAsyncFS(credentials=fakes.AzureFakeCredentials())
        url = URLS['azure']
        attr = '_azure_fs'
    if via_router:
        from hailtop.aiotools.router_fs import RouterAsyncFS
        r = RouterAsyncFS(local_kwargs={'thread_pool': InlinePool()})
        setattr(r, attr, fs)
        closers.insert(0, fs.close)
        return r, url, closers
    closers.insert(0, fs.close)
    return fs, url, closers


def run(ctx):
    shim.install()
    from hailtop.aiotools.fs import UnexpectedEOFError

    cfg = ctx.stream('cfg')
    backend = BACKENDS[cfg.weighted([3, 4, 3, 4])]
    C = 1 + cfg.draw(12)
    sizes = [0, 1, C, C + 1, C - 1, 2 * C, 2 * C + 1, 3 * C, 3 * C + 1, 2]
    i = cfg.draw(len(sizes) + 3)
    size = sizes[i] if i < len(sizes) else cfg.draw(3 * C + 2)
    via_router = cfg.chance(0.25)
    chunk_mode = cfg.draw(4)
    p_trunc = [0.0, 0.0, 0.15, 0.4][cfg.draw(4)] if backend != 'local' else 0.0
    net_lat = [0, 2, 8][cfg.draw(3)]
    p_req_fault = [0.0, 0.1, 0.3][cfg.draw(3)] if backend == 'gcs' else 0.0
    exec_max = [0, 2, 6][cfg.draw(3)]
    rp = [None, 'sim-project'][cfg.draw(2)]
    obj = content(size)
    # each of up to four operations lives on its own stream whose first draw says whether it exists at all (0 = absent),
    # so that the shrinker can delete operations independently
    ops = []
    for k in range(4):
        s = ctx.stream(f'op{k}')
        if s.weighted([2, 3]) == 0:
            continue
        ops.append((k, gen_op(s, size, C)))

    log = ctx.log
    log.add('cfg', 'run', backend, size, C, chunk_mode, via_router)
    ctx.probe(f'backend:{backend}')
    if via_router:
        ctx.probe('via_router')
    if size == 0:
        ctx.probe('zero_size_object')

    env = fakes.CloudEnv(ctx, chunk_max=C, chunk_mode=chunk_mode, p_trunc=p_trunc, net_lat=net_lat,
                         p_req_fault=p_req_fault)
    root = None
    state = {}
    try:
        if backend == 'local':
            root = tempfile.mkdtemp(prefix='verif-c23-')
            os.makedirs(os.path.join(root, 'obj'))
            with open(os.path.join(root, 'obj', 'data'), 'wb') as f:
                f.write(obj)
        else:
            env.objects[KEYS[backend]] = obj
        fakes.CURRENT['env'] = env
        exec_stream = ctx.stream('exec')

        async def main(loop):
            fs, url, closers = await build_fs(backend, env, root, via_router, rp)
            try:
                for k, op in ops:
                    await one_op(ctx, env, backend, fs, url, obj, k, op, UnexpectedEOFError)
            finally:
                for c in closers:
                    await c()
                state['orphans'] = await drain_tasks()

        with SeededModuleRandom(ctx.stream('jitter')):
            _res, outcome = simulate(ctx, main, max_steps=200_000, max_time=3600.0,
                                     executor_delay=(lambda: exec_stream.ticks(exec_max)) if exec_max else None)
        if outcome != 'done':
            ctx.violation('C23', 'termination', f'C23/{backend}/hang/{outcome}',
                          f'ranged read neither returned nor raised ({outcome}); ops={ops}')
        if env.req_faults_left < 3 and backend == 'gcs':
            ctx.probe('gcs_request_fault_retried', 3 - env.req_faults_left)
    finally:
        fakes.CURRENT['env'] = None
        if root is not None:
            shutil.rmtree(root, ignore_errors=True)


def _cls_name(e):
    return type(e).__name__


async def one_op(ctx, env, backend, fs, url, obj, k, op, UnexpectedEOFError):
    """run one operation against the real FS code and judge it."""
    log = ctx.log
    kind = op['kind']
    size = len(obj)
    actor = f'op{k}'
    cuts_before = env.truncated_bodies
    pieces = []     # data returned by stream reads, in order
    calls = []      # (what, requested n or None, outcome: int length | 'eof' | 'exc:<Class>')
    final = None    # None = completed normally, else the exception that ended the operation
    start = op.get('start', 0)
    length = op.get('length')

    if kind == 'read_range':
        ctx.probe('read_range_inclusive' if op['incl'] else 'read_range_exclusive')
        log.add(actor, 'read_range', start, op['end'], op['incl'])
        try:
            data = await fs.read_range(url, start, op['end'], end_inclusive=op['incl'])
            pieces.append(data)
            calls.append(('read_range', op['n'], len(data)))
        except UnexpectedEOFError as e:
            final = e
            calls.append(('read_range', op['n'], 'eof'))
        except Exception as e:  # pylint: disable=broad-except
            final = e
            calls.append(('read_range', op['n'], f'exc:{_cls_name(e)}'))
    elif kind == 'read_from':
        log.add(actor, 'read_from', start)
        try:
            data = await fs.read_from(url, start)
            pieces.append(data)
            calls.append(('read', None, len(data)))
        except Exception as e:  # pylint: disable=broad-except
            final = e
    elif kind == 'open_read':
        log.add(actor, 'open_read')
        try:
            async with await fs.open(url) as f:
                data = await f.read()
            pieces.append(data)
            calls.append(('read', None, len(data)))
        except Exception as e:  # pylint: disable=broad-except
            final = e
    else:
        log.add(actor, 'open_from', start, length, kind)
        try:
            async with await fs.open_from(url, start, length=length) as f:
                if kind == 'read_all':
                    data = await f.read()
                    pieces.append(data)
                    calls.append(('read', None, len(data)))
                elif kind == 'read_n':
                    ns = op['ns']
                    for j in range(size + 12):
                        n = ns[j % len(ns)]
                        data = await f.read(n)
                        pieces.append(data)
                        calls.append(('read', n, len(data)))
                        if not data:
                            break
                    else:
                        calls.append(('loop', None, 'no_eof'))
                elif kind == 'mixed':
                    n = op['ns'][0]
                    data = await f.read(n)
                    pieces.append(data)
                    calls.append(('read', n, len(data)))
                    data = await f.read()
                    pieces.append(data)
                    calls.append(('read', None, len(data)))
                else:
                    for n in op['ns']:
                        try:
                            data = await f.readexactly(n)
                        except UnexpectedEOFError:
                            calls.append(('readexactly', n, 'eof'))
                            break
                        pieces.append(data)
                        calls.append(('readexactly', n, len(data)))
        except Exception as e:  # pylint: disable=broad-except
            final = e
    log.add(actor, 'outcome', tuple((c[0], c[1], c[2]) for c in calls), _cls_name(final) if final is not None else 'ok')
    if final is not None and type(final).__module__.startswith('simkit'):
        raise final
    cut = env.truncated_bodies > cuts_before
    judge(ctx, backend, op, obj, pieces, calls, final, cut, UnexpectedEOFError)


def judge(ctx, backend, op, obj, pieces, calls, final, cut, UnexpectedEOFError):
    kind = op['kind']
    size = len(obj)
    start = op.get('start', 0)
    length = op.get('length')
    got = b''.join(pieces)
    final_name = _cls_name(final) if final is not None else None
    is_eof = isinstance(final, UnexpectedEOFError)

    def bad(cls, detail, sig=None):
        ctx.violation('C23', 'ranged_read', sig or f'C23/{backend}/{kind}/{cls}',
                      f'{detail}; backend={backend} size={size} op={op} calls={calls} ended={final_name or "ok"}')

    ctx.probe(f'op:{kind}')
    if cut:
        ctx.probe('op_with_truncated_body')

    # ---- read_range ------------------------------------------------------------------------------------------
    if kind == 'read_range':
        n = op['n']
        if n == 0:
            ctx.probe('range_empty')
        elif start + n == size:
            ctx.probe('range_ends_at_last_byte')
        elif start + n > size:
            ctx.probe('range_past_eof')
        if n >= 1 and start + n <= size and start + n - 1 == size - 1 and n == 1:
            ctx.probe('range_is_last_byte_only')
        want = obj[start:start + n]
        if final is None:
            if got == want and len(want) == n:
                return
            if start + n > size:
                bad('missing_eof_error', f'returned {len(got)} bytes for a span of {n} that extends past the end')
            bad('wrong_bytes', f'returned {len(got)} bytes, want exactly the {n}-byte span')
        if cut:
            return  # an exception instead of a complete result is the documented outcome of a truncated body
        if is_eof:
            if start + n > size:
                ctx.probe('unexpected_eof_raised')
                return
            bad('spurious_eof_error', f'UnexpectedEOFError although the {n}-byte span lies inside the object')
        bad('unexpected_exception', f'{final_name}: {str(final)[:160]}')

    # ---- stream operations -----------------------------------------------------------------------------------
    if kind in ('read_from', 'open_read'):
        length = None
    want = obj[start:] if length is None else obj[start:start + length]
    past = start >= size and length != 0 and kind != 'open_read'
    if length is not None:
        ctx.probe('open_from_with_length')
        if length == 0:
            ctx.probe('length_zero')
        elif start + length > size:
            ctx.probe('length_past_eof')
        elif start + length == size:
            ctx.probe('length_to_last_byte')
    if start == size:
        ctx.probe('offset_eq_size')
    elif start > size:
        ctx.probe('offset_past_size')

    if past:
        if got:
            bad('wrong_bytes', f'{len(got)} bytes returned for an offset at/after the end of the object')
        tag = 'no_data' if final is None else ('UnexpectedEOFError' if is_eof else final_name)
        ctx.probe(f'past_eof_offset:{backend}:{kind}:{tag}')
        return

    # every returned byte must be the right byte, whatever else happens
    over = len(got) > len(want)
    if got != want[:len(got)]:
        if over and got == obj[start:start + len(got)] and length is not None:
            used_n = any(c[0] in ('read', 'readexactly') and c[1] is not None for c in calls)
            sig = f'C23/{backend}/read_n_ignores_length' if used_n else f'C23/{backend}/read_ignores_length'
            bad('over_read', f'{len(got)} bytes delivered from a stream opened with length={length}: the bytes after '
                             f'offset {start + length} belong to the object but not to the requested range', sig)
        bad('wrong_bytes', f'delivered bytes differ from obj[{start}:{start}+{len(got)}]')

    # per-call contract
    pos = 0
    for what, n, out in calls:
        if what == 'read' and n is not None and isinstance(out, int) and out > n:
            bad('read_returned_more_than_n', f'read({n}) returned {out} bytes')
        if what == 'readexactly':
            remaining = len(want) - pos
            if isinstance(out, int):
                if out != n:
                    bad('readexactly_short', f'readexactly({n}) returned {out} bytes')
                pos += out
            elif out == 'eof':
                if n <= remaining and not cut:
                    bad('spurious_eof_error', f'readexactly({n}) raised UnexpectedEOFError with {remaining} bytes left')
                ctx.probe('unexpected_eof_raised')
                if n > remaining:
                    ctx.probe('readexactly_past_range')
        elif isinstance(out, int):
            pos += out

    if final is not None:
        if cut:
            return
        if got == want and not is_eof:
            bad('error_instead_of_eof', f'every byte of the range had been delivered, then {final_name} was raised where '
                                        f'the stream should report end of file: {str(final)[:120]}')
        bad('unexpected_exception', f'{final_name}: {str(final)[:160]}')

    if kind == 'readexactly':
        return  # each call was judged above (wrong bytes / over-read were caught by the prefix check)
    if any(c[2] == 'no_eof' for c in calls):
        bad('no_eof', 'read(n) never returned b""')
    if len(got) < len(want):
        if cut:
            ctx.probe('prefix_after_truncated_body')
            return
        bad('too_few_bytes', f'stream ended after {len(got)} of {len(want)} bytes without an error')
    if kind == 'read_n':
        ctx.probe('read_n_loop_complete')
        if any(c[0] == 'read' and isinstance(c[2], int) and c[1] is not None and 0 < c[2] < c[1] for c in calls[:-2]):
            ctx.probe('short_read_mid_stream')


def nontrivial(r):
    return r['n_events'] >= 4 and any(k.startswith('op:') for k in r['probes'])
