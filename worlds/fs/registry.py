"""Registry fragment of the fs world: C22 (copy tool) and C23 (ranged reads)."""
from checks_common import DST

ENGINE = {
    'name': 'fssim',
    'path': 'worlds/fs/',
    'serves_properties': ['C22', 'C23'],
    'kind_free_text': 'the repository\'s copy tool and AsyncFS backends run on the simulated event loop: real LocalAsyncFS on a '
                      'scratch directory behind a fault-injecting wrapper (transient errors, short reads, seeded latencies '
                      'and executor completion order); GCS / S3 / Azure FS classes run against simulated transports '
                      '(RFC 7233 range server feeding a real aiohttp StreamReader, fake boto3 client, fake azure blob '
                      'client); oracles are an independent reference model of the copy destination rules pinned to the '
                      'project\'s 324-case table, and byte-exact slice comparison for ranged reads',
}

CHECKS = {
    'C22': {
        'level': 'exploration',
        'engine': 'fssim',
        'technique': DST + ': seeded source trees / destination states / transfers run through the real Copier on a real '
                           'scratch directory with seeded completion orders, transient faults and short reads, as single '
                           'calls and as histories on one long-lived file system object (copy, parts of the destination '
                           'removed through the file system or behind its back, copy again); every outcome compared with an independent reference model of the documented destination rules',
        'design_ref': 'DESIGN.md section 6 (C22), section 5.3',
        'level_text': 'Seeded exploration of small source trees (sizes around part and buffer boundaries), destination states, '
                      'treat-destination-as modes, list sources, trailing slashes and multi-transfer calls through three entry '
                      'points of the real copy tool, under seeded I/O completion orders and injected retryable faults. Every '
                      'run is decided by an independent reference model (byte-identical destination tree and untouched '
                      'source, or one of the documented exception classes); the model itself must reproduce the project\'s '
                      'own 324-entry behaviour table before any run counts. A third of the runs are histories of two or '
                      'three copies through the same file system object with files or directory trees of the destination '
                      'removed in between (rmtree / remove / rmdir of that object, or os / shutil); each copy is judged '
                      'against the tree found on disk when it starts. Samples inputs and schedules; not a proof.',
        'level_note': 'Local file system only (FileAndDirectoryError cannot arise there and is not exercised); <=6 files, '
                      'part size 4..40 bytes, <=3 transfers per copy, <=3 copies and <=2 removals between two copies, <=8 faults per run; faults only at operations the copier runs '
                      'under retry_transient_errors; schedule-dependent transfer combinations are pruned by the model; trusts '
                      'the scratch file system, CPython asyncio on the simulated loop and the reference model.',
        'scenarios': [{'module': 'worlds.fs.copy', 'quick': 16000, 'thorough': 100000,
                       'wall_cap': {'quick': 240.0, 'thorough': 1150.0}}],
        'expected_probes': ['multi_part_file', 'multi_part_file_observed', 'size_eq_part_boundary', 'size_multiple_of_part',
                            'zero_byte_file', 'dest_exists_dir', 'dest_exists_file', 'dest_missing', 'dest_parent_missing',
                            'infer_dest', 'infer_dest_existing_dir', 'infer_dest_existing_file', 'infer_dest_missing',
                            'infer_dest_by_trailing_slash', 'dest_dir_mode', 'dest_is_target_mode', 'list_sources',
                            'multi_transfer', 'error_expected', 'error_expected:FileNotFoundError',
                            'error_expected:IsADirectoryError', 'error_expected:NotADirectoryError',
                            'transient_fault_retried', 'overwrite_existing_file', 'overwrite_longer_file',
                            'buffer_smaller_than_part', 'empty_dir_source', 'files_copied', 'later_round_of_history',
                            'copy_after_removal_through_the_fs', 'copy_after_removal_behind_the_fs',
                            'copy_into_removed_directory', 'recreates_removed_directory_of_earlier_copy'],
    },
    'C23': {
        'level': 'exploration',
        'engine': 'fssim',
        'technique': DST + ': seeded objects, offsets, lengths and read sequences against the real LocalAsyncFS, '
                           'GoogleStorageAsyncFS, S3AsyncFS and AzureAsyncFS, the cloud ones over simulated transports that '
                           'stream bodies in seeded chunk sizes, cut them short and fail requests; every returned byte '
                           'compared with the object slice',
        'design_ref': 'DESIGN.md section 6 (C23), section 5.3',
        'level_text': 'Seeded exploration of ranged reads (open_from with/without length followed by read(), read(n) loops, '
                      'readexactly sequences and read(n)+read(); read_range inclusive/exclusive; read_from) on all four '
                      'backends with object sizes, offsets and lengths concentrated on the boundaries (empty object, last '
                      'byte, exactly-to-the-end +/- 1, empty ranges, past the end), bodies delivered in chunks down to one '
                      'byte and optionally truncated. The repository code of every backend is real; for GCS, S3 and Azure '
                      'the transport under it is a simulation whose range semantics are stated in the assumptions. Samples '
                      'inputs and chunkings; not a proof.',
        'level_note': 'Cloud verdicts rest on the simulated transports (RFC 7233 range server for GCS/S3, '
                      'azure-storage-blob download_blob(offset, length) semantics for Azure) -- hence borderline. Offsets at or '
                      'past the end of the object are not judged beyond "no data is returned" (undocumented; backends differ). '
                      'Object size <= 37 bytes, <= 4 operations per run.',
        'scenarios': [{'module': 'worlds.fs.ranged', 'quick': 40000, 'thorough': 280000,
                       'wall_cap': {'quick': 240.0, 'thorough': 1150.0}}],
        'expected_probes': ['backend:local', 'backend:gcs', 'backend:s3', 'backend:azure', 'via_router', 'zero_size_object',
                            'range_empty', 'range_ends_at_last_byte', 'range_is_last_byte_only', 'range_past_eof',
                            'read_range_inclusive', 'read_range_exclusive', 'offset_eq_size', 'offset_past_size',
                            'open_from_with_length', 'length_zero', 'length_past_eof', 'length_to_last_byte',
                            'one_byte_chunk', 'short_read_mid_stream', 'op_with_truncated_body', 'prefix_after_truncated_body',
                            'unexpected_eof_raised', 'readexactly_past_range', 'read_n_loop_complete', 'http_416',
                            'gcs_request_fault_retried'],
    },
}
