"""Registry fragment of the fs world: C22 (copy tool) and C23 (ranged reads)."""
from checks_common import DST

ENGINE = {
    'name': 'fssim',
    'path': 'worlds/fs/',
    'serves_properties': ['C22', 'C23'],
    'kind_free_text': 'the repository\'s copy tool and AsyncFS backends run on the simulated event loop: real LocalAsyncFS on a '
                      'scratch directory behind a fault-injecting wrapper (transient errors, short reads, seeded latencies '
                      'and executor completion order); GCS / S3 / Azure FS classes run against simulated transports '
                      '(RFC 7233 range server feeding a real aiohttp StreamReader, fake boto3 client, fake azure blob '
                      'client); oracles are an independent reference model of the copy destination rules pinned to the '
                      'project\'s 324-case table, and byte-exact slice comparison for ranged reads',
}

CHECKS = {
    'C22': {
        'level': 'exploration',
        'engine': 'fssim',
        'technique': DST + ': seeded source trees / destination states / transfers run through the real Copier on a real '
                           'scratch directory with seeded completion orders, transient faults and short reads; outcome '
                           'compared with an independent reference model of the documented destination rules',
        'design_ref': 'DESIGN.md section 6 (C22), section 5.3',
        'level_text': 'Seeded exploration of small source trees (sizes around part and buffer boundaries), destination states, '
                      'treat-destination-as modes, list sources, trailing slashes and multi-transfer calls through three entry '
                      'points of the real copy tool, under seeded I/O completion orders and injected retryable faults. Every '
                      'run is decided by an independent reference model (byte-identical destination tree and untouched '
                      'source, or one of the documented exception classes); the model itself must reproduce the project\'s '
                      'own 324-entry behaviour table before any run counts. Samples inputs and schedules; not a proof.',
        'level_note': 'Local file system only (FileAndDirectoryError cannot arise there and is not exercised); <=6 files, '
                      'part size 4..40 bytes, <=3 transfers, <=8 faults per run; faults only at operations the copier runs '
                      'under retry_transient_errors; schedule-dependent transfer combinations are pruned by the model; trusts '
                      'the scratch file system, CPython asyncio on the simulated loop and the reference model.',
        'scenarios': [{'module': 'worlds.fs.copy', 'quick': 40000, 'thorough': 1500000,
                       'wall_cap': {'quick': 240.0, 'thorough': 1150.0}}],
        'expected_probes': ['multi_part_file', 'multi_part_file_observed', 'size_eq_part_boundary', 'size_multiple_of_part',
                            'zero_byte_file', 'dest_exists_dir', 'dest_exists_file', 'dest_missing', 'dest_parent_missing',
                            'infer_dest', 'infer_dest_existing_dir', 'infer_dest_existing_file', 'infer_dest_missing',
                            'infer_dest_by_trailing_slash', 'dest_dir_mode', 'dest_is_target_mode', 'list_sources',
                            'multi_transfer', 'error_expected', 'error_expected:FileNotFoundError',
                            'error_expected:IsADirectoryError', 'error_expected:NotADirectoryError',
                            'transient_fault_retried', 'overwrite_existing_file', 'overwrite_longer_file',
                            'buffer_smaller_than_part', 'empty_dir_source', 'files_copied'],
    },
}
