from checks_common import DST

ENGINE = {
    'name': 'localbackend',
    'path': 'worlds/dsl/',
    'serves_properties': ['C17'],
    'kind_free_text': 'real hailtop.batch DSL and LocalBackend with the subprocess seam replaced by a simulated process '
                      'runner that records execution order and fails a chosen set of jobs',
}

CHECKS = {
    'C17': {
        'level': 'fault_enumeration',
        'engine': 'localbackend',
        'technique': DST + ': seeded pipelines built through the real Batch DSL, executed by the real LocalBackend against '
                           'a simulated process runner; every failing singleton and pair enumerated for pipelines of <= 6 '
                           'jobs; order, cycle-rejection and skip-set oracles computed from the generated graph',
        'design_ref': 'DESIGN.md section 6 (C17), section 5.4',
        'level_text': 'Each generated pipeline of at most 6 jobs is executed once per failing set for the empty set, all '
                      'singletons and all pairs (larger pipelines: seeded subsets); pipelines themselves are sampled. The '
                      'backend is sequential, so the simulation contributes the fault dimension only (borderline claim).',
        'level_note': 'Trusted base: bash executes generated scripts as written; <= 8 jobs; bash jobs only (no PythonJob, no '
                      'docker image, no input files / write_output).',
        'scenarios': [{'module': 'worlds.dsl.pipeline', 'quick': 5000, 'thorough': 30000}],
        'expected_probes': ['resource_edge', 'explicit_edge', 'always_run_after_failure', 'cycle_rejected', 'two_failures',
                            'resource_cycle', 'self_cycle', 'created_before_its_dependency',
                            'skipped_because_dependency_skipped', 'always_run_shields_descendants',
                            'failsets_enumerated', 'failsets_sampled'],
    },
}
