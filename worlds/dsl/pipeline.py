"""C17 -- Batch DSL: numbering / execution in dependency order, cycle rejection, LocalBackend failure propagation.

Real code (imported through the shim from the live tree): hailtop.batch.Batch (new_job, _async_run: DFS numbering and
cycle check), hailtop.batch.job.Job/BashJob (depends_on, always_run, command, _interpolate_command: resource-induced
dependencies, _compile), hailtop.batch.resource, hailtop.batch.backend.LocalBackend._async_run (script generation,
cancel_child_jobs, first_exc).  `Batch.run()` is `async_to_blocking(self._async_run(...))`; the scenario awaits
`Batch._async_run` on the simulated loop instead of creating a real event loop.
Process seam: the name `sp` (= subprocess) in the namespace of hailtop.batch.backend is replaced during an execution by
a simulated process runner (restored in `finally`): `check_call(script, shell=True)` recognises the job by the marker
`JOBMARK_<k>_` that every generated command contains, records the order, and raises `subprocess.CalledProcessError`
(what the real check_call raises for a non-zero exit status) for the jobs in the failing set (fault kind proc.fail);
`run('rm -rf <scratch>')` is a no-op.  Anything else on `sp` raises SimulationEscape.  No real process is started.
LocalBackend's scratch directories live under one `tempfile.mkdtemp()` directory per run, removed in `finally`,
never logged.  `LocalBackend.__del__` (which would create a real event loop at garbage-collection time) is overridden
in a harness subclass; the backend is closed explicitly on the simulated loop.

One run = one seeded pipeline and a set of executions of it with different failing sets:
  * 1..8 jobs; a seeded DAG with explicit (`depends_on`) and resource-induced edges (the consumer's command mentions
    `{producer.ofile}`), optionally both on the same pair; seeded `always_run` flags; occasionally a command > 10 KiB
    (LocalBackend then writes it to a code file);
  * the DSL calls (new_job, command, depends_on, always_run) are issued in a seeded order subject only to what the DSL
    requires (a job exists before it is used; a producer's command declares its output before a consumer mentions it),
    so jobs are created before or after the jobs they depend on;
  * cyclic variants (1 in 4): an explicit back edge, a self-dependency, or a resource back edge (second command on the
    earlier job that mentions the later job's output);
  * failing sets: for pipelines of <= 6 jobs the empty set, every singleton and every pair (fault enumeration);
    otherwise the empty set and seeded subsets of size 1..3.

Oracle (graph = the edges THIS generator created, never the DSL's `_dependencies`):
  * cyclic pipeline: `_async_run` raises BatchException and the runner has not been called;
  * DAG: no BatchException; `_job_id`s are 1..n, distinct, and id(dep) < id(job) on every edge; the order in which the
    runner sees jobs puts every executed dependency before its dependant; no job is run twice;
  * executed set == all jobs minus S, S = least set such that a non-always-run job is in S when one of its direct
    dependencies failed or is in S (always-run jobs are never in S; an always-run job that ran successfully does not
    put its dependants into S) -- the same rule the Batch service applies (state of the *direct* parents);
  * if an executed job failed, `_async_run` raises the CalledProcessError of one of the failed jobs after all runnable
    jobs were run (the code keeps the first one; which one is not part of the property, only counted as a probe);
    otherwise it returns None.
Reading of the property text: "transitively depend on a failed or skipped job" is read as the closure through *skipped*
jobs.  With A failing, B = always_run depending on A and succeeding, C depending on B: LocalBackend runs C.  Under a
literal "C transitively depends on the failed A" reading C would have to be skipped; the scenario counts this shape
(probe always_run_shields_descendants) and does not assert either way beyond the rule above.

Event log: only canonical facts (per-job status vector indexed by the generator's job number); neither execution
order nor `_job_id`s are logged because `Job._dependencies` is a set of objects hashed by address (DFS order varies
between interpreters).

Sensitivity (mutations in a scratch copy of hailtop/batch; all detected within 40 runs):
  * backend.py: cancelled jobs do not cancel their children (`cancel_child_jobs(job)` removed in the cancelled branch)
        -> C17/executed_set/ran_but_should_skip
  * backend.py: `if not child._always_run` removed -> C17/executed_set/skipped_but_should_run
  * job.py: `self._dependencies.add(source)` removed -> C17/job_id_order (or exec_order / executed_set)
  * batch.py: cycle check removed -> C17/cycle_not_rejected
  * batch.py: `schedule_job(p)` recursion removed (jobs numbered in creation order) -> C17/dag_rejected
  * backend.py: failure not re-raised -> C17/failure_not_surfaced
  * backend.py: `break` after the first failure -> C17/executed_set/skipped_but_should_run
  * batch.py: `job_index[d] > i` (self-dependency passes) -> C17/cycle_not_rejected
  * not detected by design: raising the last instead of the first failure (not stated by the property)
"""
import contextlib
import io
import itertools
import os
import re
import shutil
import subprocess
import tempfile

from simkit.loop import SimulationEscape
from worlds.common import simulate

NAME = 'dsl.pipeline'
RULE = ('1..8 jobs, seeded DAG with explicit and resource-induced edges, always_run flags, DSL calls in any legal order, '
        '1 in 4 pipelines cyclic (explicit back edge, self-dependency or resource back edge); failing sets: empty + all '
        'singletons + all pairs for <= 6 jobs, else empty + seeded subsets of size 1..3')
COMPONENTS = {
    'hailtop.batch.batch.Batch (new_job, _async_run numbering + cycle check)': 'real',
    'hailtop.batch.job.Job / BashJob (depends_on, always_run, command, _interpolate_command, _compile)': 'real',
    'hailtop.batch.resource': 'real',
    'hailtop.batch.backend.LocalBackend._async_run': 'real',
    'Batch.run = async_to_blocking(_async_run)': 'replaced by awaiting _async_run on the simulated loop',
    'subprocess (name `sp` in hailtop.batch.backend)': 'simulated process runner (check_call / run)',
    'LocalBackend.__del__': 'overridden in a harness subclass (no real event loop at GC time)',
    'scratch directory': 'real directory under the system temp dir, removed after the run',
}
ASSUMPTIONS = ['bash would execute the generated script as written: a job "fails" iff its script exits non-zero',
               'job tokens / scratch names come from real randomness and never influence the logged history']

MARK = re.compile(r'JOBMARK_(\d+)_')


# ---------------------------------------------------------------------------------------------------------------------
# generation
# ---------------------------------------------------------------------------------------------------------------------

def _gen(ctx):
    s = ctx.stream('cfg')
    n = s.rint(1, 8)
    order = s.shuffle(range(n))          # logical (topological) order of the DAG: order[i] may depend on order[<i]
    pos = {k: i for i, k in enumerate(order)}
    g = ctx.stream('graph')
    dens = g.rint(1, 3)
    explicit, resource = set(), set()    # (u, v): u depends on v
    for i in range(n):
        for j in range(i):
            u, v = order[i], order[j]
            if g.draw(4) < dens:
                kind = g.draw(3)
                if kind in (0, 2):
                    resource.add((u, v))
                if kind in (1, 2):
                    explicit.add((u, v))
    always = {k for k in range(n) if g.draw(4) == 3}
    long_cmd = {k for k in range(n) if g.draw(40) == 39}
    cyc = None
    if s.draw(4) == 3:
        kind = s.draw(3)
        if kind == 1 or n == 1:
            k = s.draw(n)
            cyc = ('self', k, k)
        else:
            i = s.rint(1, n - 1)
            j = s.draw(i)
            early, late = order[j], order[i]
            # make sure late really depends on early (possibly through a new explicit edge), then add early -> late
            if (late, early) not in explicit and (late, early) not in resource:
                explicit.add((late, early))
            cyc = ('explicit' if kind == 0 else 'resource', early, late)
    # DSL operations and their ordering constraints
    ops = [('create', k) for k in range(n)] + [('command', k) for k in range(n)]
    ops += [('depends', u, v) for (u, v) in sorted(explicit)]
    ops += [('always', k) for k in sorted(always)]
    if cyc:
        if cyc[0] in ('self', 'explicit'):
            ops.append(('depends', cyc[1], cyc[2]))
        else:
            ops.append(('command2', cyc[1], cyc[2]))
    idx = {op: i for i, op in enumerate(ops)}
    before = {i: set() for i in range(len(ops))}   # before[i] = ops that must precede op i
    for i, op in enumerate(ops):
        if op[0] != 'create':
            for k in set(op[1:]):
                before[i].add(idx[('create', k)])
        if op[0] == 'command':
            for (u, v) in resource:
                if u == op[1]:
                    before[i].add(idx[('create', v)])
                    before[i].add(idx[('command', v)])
        if op[0] == 'command2':
            before[i].add(idx[('command', op[1])])
            before[i].add(idx[('command', op[2])])
    o = ctx.stream('dsl_order')
    done, seq = set(), []
    while len(seq) < len(ops):
        ready = [i for i in range(len(ops)) if i not in done and before[i] <= done]
        i = ready[o.draw(len(ready))]
        done.add(i)
        seq.append(ops[i])
    edges = set(explicit) | set(resource)
    if cyc:
        edges.add((cyc[1], cyc[2]))
    # command-less jobs ("barriers": `j.depends_on(*shards)` and nothing else).  Only jobs outside every resource
    # edge qualify; drawn from a stream of their own so the rest of the pipeline is what it was without them
    b = ctx.stream('barriers')
    in_res = {k for e in resource for k in e} | ({cyc[1], cyc[2]} if cyc and cyc[0] == 'resource' else set())
    nocmd = {k for k in range(n) if b.draw(4) == 3 and k not in in_res and k not in long_cmd}
    return {'n': n, 'explicit': explicit, 'resource': resource, 'always': always, 'long': long_cmd, 'cyc': cyc,
            'seq': seq, 'edges': edges, 'pos': pos, 'nocmd': nocmd}


def _fail_sets(ctx, n, cyclic):
    if cyclic:
        return [frozenset()], True
    if n <= 6:
        sets = [frozenset()] + [frozenset(c) for r in (1, 2) for c in itertools.combinations(range(n), r)]
        return sets, True
    f = ctx.stream('fault:proc.fail')
    sets = [frozenset()]
    for _ in range(10 if ctx.tier == 'quick' else 24):
        size = f.rint(1, 3)
        sets.append(frozenset(f.shuffle(range(n))[:size]))
    return sets, False


# ---------------------------------------------------------------------------------------------------------------------
# one execution
# ---------------------------------------------------------------------------------------------------------------------

class _Runner:
    """stands in for the `subprocess` module inside hailtop.batch.backend."""
    CalledProcessError = subprocess.CalledProcessError

    def __init__(self, failing, nocmd=()):
        self.failing = failing
        self.nocmd = set(nocmd)
        self.order = []        # generator job numbers in the order their scripts were run
        self.ids = {}          # job number -> the id LocalBackend printed in the script header
        self.raised = []
        self.calls = 0

    def check_call(self, code, shell=False, **kw):
        self.calls += 1
        if not shell or not isinstance(code, str):
            raise SimulationEscape('LocalBackend started a process the simulated runner does not understand')
        ks = {int(m) for m in MARK.findall(code)}
        m = re.search(r'^# (\d+): job(\d+)$', code, re.M)
        if not ks and m and int(m.group(2)) in self.nocmd:
            ks = {int(m.group(2))}      # a command-less job: only the header LocalBackend writes names it
        if len(ks) != 1:
            raise SimulationEscape(f'script belongs to {len(ks)} generated jobs')
        k = ks.pop()
        if m and int(m.group(2)) == k:
            self.ids[k] = int(m.group(1))
        self.order.append(k)
        if k in self.failing:
            e = subprocess.CalledProcessError(1, code)
            self.raised.append(e)
            raise e
        return 0

    def run(self, args, shell=False, check=False, **kw):
        if isinstance(args, str) and args.startswith('rm -rf '):
            return subprocess.CompletedProcess(args, 0)
        raise SimulationEscape(f'unexpected sp.run({args!r})')

    def __getattr__(self, name):
        raise SimulationEscape(f'hailtop.batch.backend used subprocess.{name}')


def _execute(ctx, hb, bk, spec, failing, scratch):
    class SimLocalBackend(hb.LocalBackend):
        def __del__(self):  # the real __del__ runs close() on a fresh real event loop at GC time
            pass

    runner = _Runner(failing, spec.get('nocmd', ()))
    out = {'exc': None, 'jobs': None}

    async def main(loop):
        be = SimLocalBackend(tmp_dir=scratch)
        try:
            b = hb.Batch(backend=be, name='sim')
            jobs = {}
            for op in spec['seq']:
                if op[0] == 'create':
                    jobs[op[1]] = b.new_job(name=f'job{op[1]}')
                elif op[0] == 'always':
                    jobs[op[1]].always_run()
                elif op[0] == 'depends':
                    jobs[op[1]].depends_on(jobs[op[2]])
                elif op[0] == 'command':
                    k = op[1]
                    j = jobs[k]
                    if k in spec.get('nocmd', ()):
                        ctx.probe('commandless_job')
                        continue
                    cmd = f'echo JOBMARK_{k}_ > {j.ofile}'
                    for (u, v) in sorted(spec['resource']):
                        if u == k:
                            cmd += f'; cat {jobs[v].ofile}'
                    if k in spec['long']:
                        cmd += '; true ' + '#' * 11000
                    j.command(cmd)
                else:  # command2: resource back edge
                    k, v = op[1], op[2]
                    jobs[k].command(f'echo JOBMARK_{k}_; cat {jobs[v].ofile}')
            out['jobs'] = jobs
            saved = bk.sp
            bk.sp = runner
            try:
                with contextlib.redirect_stdout(io.StringIO()):
                    await b._async_run(False, False, True)
            except BaseException as e:  # pylint: disable=broad-except
                out['exc'] = e
            finally:
                bk.sp = saved
        finally:
            await be.async_close()

    _r, outcome = simulate(ctx, main, max_steps=200_000)
    if outcome != 'done':
        raise RuntimeError(f'simulated loop ended with {outcome}')
    return runner, out


def _reference(spec, failing):
    """status per job: 'ok' | 'failed' | 'skipped' (least fixpoint, evaluated in the generator's topological order)."""
    deps = {k: set() for k in range(spec['n'])}
    for (u, v) in spec['edges']:
        deps[u].add(v)
    status = {}
    for k in sorted(range(spec['n']), key=lambda k: spec['pos'][k]):
        if k not in spec['always'] and any(status[d] in ('failed', 'skipped') for d in deps[k]):
            status[k] = 'skipped'
        else:
            status[k] = 'failed' if k in failing else 'ok'
    return status, deps


def run(ctx):
    from simkit import shim
    shim.install()
    import hailtop.batch as hb
    import hailtop.batch.backend as bk
    from hailtop.batch.exceptions import BatchException

    spec = _gen(ctx)
    n = spec['n']
    cyclic = spec['cyc'] is not None
    sets, enumerated = _fail_sets(ctx, n, cyclic)
    ctx.log.add('gen', f'pipeline:n{n}:{"cyclic-" + spec["cyc"][0] if cyclic else "dag"}', len(spec['explicit']),
                len(spec['resource']), tuple(sorted(spec['always'])), len(sets))
    ctx.extra['fail_sets'] = len(sets)
    ctx.extra['enumerated'] = enumerated
    if spec['explicit']:
        ctx.probe('explicit_edge')
    if spec['resource']:
        ctx.probe('resource_edge')
    if spec['explicit'] & spec['resource']:
        ctx.probe('edge_both_kinds')
    if spec['long']:
        ctx.probe('long_command_code_file')
    created = [op[1] for op in spec['seq'] if op[0] == 'create']
    cpos = {k: i for i, k in enumerate(created)}
    if any(cpos[u] < cpos[v] for (u, v) in spec['edges'] if u != v):
        ctx.probe('created_before_its_dependency')
    if not cyclic:
        ctx.probe('failsets_enumerated' if enumerated else 'failsets_sampled', len(sets))
    scratch = tempfile.mkdtemp(prefix='verif-dsl-')
    try:
        for failing in sets:
            # a command-less job has nothing that could fail; whether the backend starts a process for its empty
            # script is not part of the property (only that skipping propagates through it), see `want - ran` below
            failing = frozenset(failing) - spec['nocmd']
            runner, out = _execute(ctx, hb, bk, spec, failing, scratch)
            exc = out['exc']
            if exc is not None and not isinstance(exc, (BatchException, subprocess.CalledProcessError)):
                raise exc
            ftag = ','.join(str(k) for k in sorted(failing)) or '-'
            if cyclic:
                if not isinstance(exc, BatchException):
                    ctx.violation('C17', 'cycle', 'C17/cycle_not_rejected',
                                  f'{spec["cyc"][0]} cycle between jobs {spec["cyc"][1:]} of {n}: run() did not raise '
                                  f'BatchException (ran {len(runner.order)} jobs, exc={type(exc).__name__ if exc else None})')
                if runner.calls:
                    ctx.violation('C17', 'cycle', 'C17/cycle_rejected_after_running',
                                  f'BatchException came after {runner.calls} scripts had been run')
                ctx.probe('cycle_rejected')
                ctx.probe({'self': 'self_cycle', 'explicit': 'explicit_cycle', 'resource': 'resource_cycle'}[spec['cyc'][0]])
                ctx.log.add('exec', 'cycle_rejected:' + spec['cyc'][0])
                continue
            if isinstance(exc, BatchException):
                ctx.violation('C17', 'cycle', 'C17/dag_rejected', f'acyclic pipeline of {n} jobs rejected: {exc}')
            status, deps = _reference(spec, failing)
            jobs = out['jobs']
            # numbering
            ids = {k: jobs[k]._job_id for k in range(n)}
            if sorted(ids.values()) != list(range(1, n + 1)):
                ctx.violation('C17', 'order', 'C17/job_ids_not_a_numbering', f'_job_id values {sorted(map(str, ids.values()))}')
            for (u, v) in sorted(spec['edges']):
                if not ids[v] < ids[u]:
                    kind = 'resource' if (u, v) in spec['resource'] and (u, v) not in spec['explicit'] else 'explicit'
                    ctx.violation('C17', 'order', f'C17/job_id_order/{kind}_edge',
                                  f'job{u} depends on job{v} ({kind}) but got id {ids[u]} <= {ids[v]}')
            # execution order
            if len(set(runner.order)) != len(runner.order):
                ctx.violation('C17', 'order', 'C17/job_run_twice', f'runner saw {runner.order}')
            at = {k: i for i, k in enumerate(runner.order)}
            for (u, v) in sorted(spec['edges']):
                if u in at and v in at and not at[v] < at[u]:
                    kind = 'resource' if (u, v) in spec['resource'] and (u, v) not in spec['explicit'] else 'explicit'
                    ctx.violation('C17', 'order', f'C17/exec_order/{kind}_edge',
                                  f'job{u} depends on job{v} ({kind}) but ran first')
            for k, i in runner.ids.items():
                if i != ids[k]:
                    ctx.violation('C17', 'order', 'C17/script_id_mismatch', f'script of job{k} carries id {i}, _job_id is {ids[k]}')
            # executed set
            ran = set(runner.order)
            want = {k for k in range(n) if status[k] != 'skipped'}
            if ran - want:
                k = min(ran - want)
                ctx.violation('C17', 'skip_set', 'C17/executed_set/ran_but_should_skip',
                              f'failing={ftag}: job{k} ran although a dependency failed or was skipped '
                              f'(deps {sorted(deps[k])}, statuses {[status[d] for d in sorted(deps[k])]})')
            if want - ran - spec['nocmd']:
                k = min(want - ran - spec['nocmd'])
                cls = 'always_run' if k in spec['always'] else 'no_failed_dependency'
                ctx.violation('C17', 'skip_set', f'C17/executed_set/skipped_but_should_run/{cls}',
                              f'failing={ftag}: job{k} was skipped (always_run={k in spec["always"]}, deps {sorted(deps[k])}, '
                              f'statuses {[status[d] for d in sorted(deps[k])]})')
            # failure surfaced
            failed = [k for k in runner.order if k in failing]
            if failed:
                if not isinstance(exc, subprocess.CalledProcessError):
                    ctx.violation('C17', 'surface', 'C17/failure_not_surfaced', f'failing={ftag}: run() returned normally')
                if not any(exc is e for e in runner.raised):
                    ctx.violation('C17', 'surface', 'C17/wrong_failure_surfaced', 'run() raised an error no job produced')
                if exc is runner.raised[0]:
                    ctx.probe('first_failure_surfaced')
                ctx.fault('proc.fail', len(failed))
                if len(failed) >= 2:
                    ctx.probe('two_failures')
            elif exc is not None:
                ctx.violation('C17', 'surface', 'C17/spurious_failure', f'failing={ftag}: nothing failed but run() raised {exc!r}')
            # probes
            for k in range(n):
                bad = [d for d in deps[k] if status[d] in ('failed', 'skipped')]
                if k in spec['always'] and bad and status[k] != 'skipped':
                    ctx.probe('always_run_after_failure')
                if status[k] == 'skipped' and any(status[d] == 'skipped' for d in deps[k]):
                    ctx.probe('skipped_because_dependency_skipped')
                if status[k] == 'ok' and k not in spec['always'] and any(
                        d in spec['always'] and status[d] == 'ok' and any(status[x] in ('failed', 'skipped') for x in deps[d])
                        for d in deps[k]):
                    ctx.probe('always_run_shields_descendants')
            ctx.log.add('exec', 'fail=' + ftag + ':' + ''.join(status[k][0] for k in range(n)))
    finally:
        shutil.rmtree(scratch, ignore_errors=True)


def nontrivial(r):
    return bool(r['probes']) and (bool(r['faults']) or r['probes'].get('cycle_rejected', 0) > 0)
