"""C30 -- the CI service merges only fully tested, approved, current pull requests (ci/ci/github.py).

Real code (imported from the repository at run time): ci.github (WatchedBranch, PR, _update*, _heal, try_to_merge,
is_mergeable, is_up_to_date, merge, **the real PR._start_build / WatchedBranch._start_deploy**), ci.build
(BuildConfiguration and its steps, on an in-memory checkout fixture), the drivers in ci.ci (gh_router callbacks
pull_request / push / pull_request_review, batch_callback_handler, update_loop, retry_pr), and the real hailtop
BatchClient / Batch (SimBatchService is their HTTP session).

World: 1-2 watched branches with 2-4 pull requests each.  Actors, each on its own choice stream: one developer per
pull request (open, approve, request changes, dismiss review, push, add/remove labels incl. WIP / stacked PR /
prio:high / do-not-test, retry through CI, authorize a sha, close), one check reporter per pull request (external
checks pending -> success/failure/re-run for every head), one pusher per target branch, the batch service (seeded
durations and outcomes).  Webhook deliveries and batch callbacks are delayed, dropped and duplicated and run
concurrently with each other and with the periodic update loop; GitHub and batch calls have seeded latency and
fail transiently.  A heal phase (no faults, no new events) ends each run.

Oracle (monitor at every merge PUT reaching SimGitHub, the only way CI merges).  A violation is raised only if GitHub
accepts the PUT -- a refused PUT is not a merge; refused PUTs on bad served state are a probe.  Every condition is
judged on what SimGitHub most recently SERVED TO CI (CI cannot know the world's newer truth):
  * the sha in the PUT is the head most recently listed to CI for that PR, and none of that listing's labels is a
    do-not-merge label (the oracle's own constant {'WIP', 'stacked PR'});
  * the review decision most recently served is APPROVED;
  * the checks most recently served for that PR were those of that head commit and every *required* one other than
    CI's own status context is SUCCESS/NEUTRAL (failing non-required checks: probe only; CI's own context is an output
    of CI whose input is the next item; ">= 1 check" is not asserted because the property text does not say it).  If the
    review decision / checks CI was last served belong to an *older* head than the one it merges (it was served the new
    head by a later listing and never the review/checks for it) that is signature unrefreshed_new_head/...;
  * CI's `pr.batch` is a Batch whose server-side record is a test batch (test=1) with source_sha == that head and
    target_sha == the target-branch sha most recently served to CI, complete with state success;
  * history: CI was not told of a successful merge into that branch since it last looked at the branch ref
    (<= 1 merge per target-branch observation).  A merge that was applied while CI received an error for it
    (fault net.github_ack_lost) does not arm this check (CI cannot know); it is only counted as a probe.
  * lost notification (signature notified_change_ignored/<labels|review|checks>): the world has forbidden the merge
    on that aspect since event c; after c CI was notified (a webhook handler or the periodic update called
    notify_github_changed / update on that branch); the update-loop iteration that merges began after that
    notification; and CI did not even start a refresh of the branch between the notification and the PUT.  The loop
    is observed (never altered) through wrappers on the WatchedBranch instance.  Sound on the original loop: an
    iteration that begins with github_changed set starts with a refresh.  Not judged: a refresh that started and
    failed, and a notification that arrives while the merging iteration is already under way.
On top of that, a label / review / check / batch problem is reported only if the WORLD agrees on that aspect at the
instant of the merge (the PR really carries a do-not-merge label / is not approved / has a non-successful required
check on the merged head / has no successful test batch of that head against the branch's current commit): then the
property text is violated literally and staleness does not excuse it.  Served-bad but world-good merges are counted
as probes lucky_merge:*; served-good but world-bad merges (legal races) as merged_on_stale_but_served_state.

Per-run knobs added for histories that seeded changes C30-1..3 need: GitHub speed (a leg takes up to 6 ms / 0.24 s /
2.4 s, so a refresh of a branch lasts ms to tens of seconds and webhooks land inside it); "hot" developers who act a
moment after CI was served their PR's state; partial GitHub incidents (fault net.github_outage: the ref read, the
REST reads, GraphQL, or all reads answer 503 for 30-600 s while statuses and merges work) starting right after a
merge or at seeded times; 11-25 check contexts on every head in a quarter of the runs (StatusContext / CheckRun,
required or not), the external ones mostly behind the first GraphQL page of 10.

Choices made: "dismiss stale reviews" is a per-run knob (push resets an approval to REVIEW_REQUIRED or keeps it);
SimGitHub enforces no branch protection (it refuses only a stale `sha`, a merge conflict, or a closed PR), so the
gating under test is CI's own; status / check_run events have no handler in ci.ci, so check changes reach CI only
through the next refresh.

Sensitivity: ci/ci/github.py mutated in a scratch tree (/tmp/hailmut: copy of ci/, symlinks to the other roots,
HAIL_REPO_ROOT), 1600 quick-tier runs each; number of violating runs and first signature:
  M1  is_mergeable ignores DO_NOT_MERGE labels                    396  C30/merged/do_not_merge_label/ci_view_agrees
  M2  review decision REVIEW_REQUIRED mapped to 'approved'        476  C30/merged/not_approved/ci_view_differs
  M3  is_up_to_date() == (batch is not None)                      109  C30/merged/batch_for_other_target
  M4  update_from_gh_json keeps batch/build_state on a new head     5  C30/merged/batch_for_other_source
  M5  try_to_merge neither returns nor resets branch sha after a successful merge
                                                                   20  C30/merged/second_merge_without_reobserving_target
  M6  is_mergeable looks only at CI's own status context          182  C30/merged/required_check_not_success/ci_view_agrees
  M7  the build_state assertion in is_mergeable removed (python -O) 148 C30/merged/batch_not_success (+ no_test_batch)
  M8  _update_batch: every complete batch counts as success       159  C30/merged/batch_not_success
  M9  DO_NOT_MERGE = {STACKED_PR} (WIP dropped)                   185  C30/merged/do_not_merge_label/ci_view_agrees
  M10 is_mergeable does not look at review_state                  358  C30/merged/not_approved/ci_view_agrees
  M11 _update_batch query uses pr= instead of source_sha=          88  C30/merged/batch_for_other_source
  M12 CHANGES_REQUESTED mapped to 'approved'                      152  C30/merged/not_approved/ci_view_differs
All twelve were caught.  Seeded changes (tools/run_seeded.py, quick tier; violating runs out of 8000):
  C30-1 try_to_merge keeps the branch sha after a merge     44  C30/merged/second_merge_without_reobserving_target
  C30-2 only the first GraphQL page of contexts recorded   342  C30/merged/required_check_not_success/ci_view_differs
  C30-3 github_changed cleared after the refresh             9  C30/merged/notified_change_ignored/{labels,review}  (M7 shows that the assertion in is_mergeable is load-bearing: after _start_build the PR
holds a fresh running batch with the right target_sha while last_known_github_status still says SUCCESS.)

Findings on the unchanged tree (genuine, see the replays; one root cause): PR.update_from_gh_json resets batch /
build_state when the head changes but keeps review_state and last_known_github_status; they are only replaced when the
GraphQL refresh that follows completes.  If that refresh aborts -- a transient GitHub error, or deterministically
github_status(None) -> ValueError while a *required CheckRun is in progress* (GraphQL conclusion null) -- _update exits
with github_changed already cleared, and the next notify_batch_changed-driven _update (which does not refresh GitHub)
builds the new head and merges it with the approval / check results of the old head, or with check results that the
last response CI was served contradicted.  Signatures:
  C30/merged/required_check_not_success/ci_view_differs  -- needs no injected fault: a complete answer listing a pending
      / failed required check was delivered, github_status(None) raised while CI digested it, CI kept the old results;
  C30/merged/unrefreshed_new_head/not_approved, C30/merged/unrefreshed_new_head/required_check_not_success -- the
      refresh after the listing that announced the new head failed (one transient GitHub error is enough), the review
      decision / checks CI holds are those of the older head, the merged head is unapproved / has a non-successful
      required check.
(A GraphQL answer counts as served once its last page is delivered; a series that breaks off between pages leaves the
previous answer in place, so CI is not blamed for discarding partial results.)
Other observations (not asserted): an AssertionError in is_mergeable of a higher-priority PR aborts try_to_merge for
the whole branch (probe end_green_unmerged); with a merge whose acknowledgement is lost CI can merge a second PR on
the same target observation (probe merge_after_unacked_merge; exempt because CI was told the first merge failed).
"""
import asyncio
import json
import random
import re
import secrets
import sys

from simkit.core import Violation
from simkit.loop import SimulationEscape
from worlds.common import simulate

NAME = 'ci.merge'
RULE = ('1-2 watched branches x 2-4 pull requests; per pull request 1-5 (thorough 1-8) developer actions at seeded '
        'gaps of 0-675 s, 0-3 external checks (status contexts / check runs, required or not) reported per head at '
        'seeded times with re-runs, 0-2 pushes per target branch, batch durations 10-1810 s with seeded outcome, '
        'per-run fault plan (GitHub/batch transient errors, webhook drop/dup/delay, merge ack loss, git failures, '
        'merge conflicts, partial GitHub incidents after merges / at seeded times), GitHub leg latency <= 6 ms / 0.24 s / '
        '2.4 s per run, developers acting right after their PR was served, 11-25 check contexts per head in a quarter of '
        'the runs, periodic update every 300 s, heal phase of 3000 s')
COMPONENTS = {
    'ci.github (WatchedBranch, PR: _update, _update_github, _update_batch, _heal, try_to_merge, is_mergeable, '
    'is_up_to_date, merge)': 'real',
    'ci.github PR._start_build / WatchedBranch._start_deploy': 'real (process seam check_shell/check_shell_output and '
                                                                'the checkout directory are simulated)',
    'ci.build BuildConfiguration + steps': 'real, on an in-memory 3-step build.yaml fixture; jinja2.Template.render '
                                           'is a pass-through fake',
    'ci.ci gh_router callbacks, batch_callback_handler, update_loop, retry_pr': 'real (called directly, no aiohttp server)',
    'hailtop.batch_client.aioclient BatchClient/Batch': 'real; their HTTP session is SimBatchService',
    'GitHub (gidgethub client + service)': 'simulated: SimGitHub (REST refs/pulls/statuses/merge, GraphQL review+rollup)',
    'batch service': 'simulated: SimBatchService (attribute queries, create-fast, status, cancel, callbacks)',
    'gear.Database': 'simulated: SimDB (authorized_shas, invalidated_batches; other writes ignored)',
    'git / bash': 'simulated: seeded duration, transient failure, merge conflict per (source, target) pair',
    'asyncio event loop / clock': 'simulated (SimLoop, virtual time)',
    'secrets / random.choice': 'deterministic counters during the run',
}
ASSUMPTIONS = [
    'GitHub refuses a merge PUT whose sha is not the current head (409), that conflicts with the base (405) or whose '
    'pull request is closed (405) and enforces nothing else (no branch protection)',
    'a squash merge moves the target branch to a fresh commit',
    'pull-request heads never return to an earlier sha',
    'webhooks: pull_request (opened/synchronize/labeled/unlabeled/closed), push, pull_request_review; none for statuses',
    'the batch service reports complete batches monotonically (a successful batch stays successful)',
    'python assertions are enabled in the CI process',
]

DNM = frozenset({'WIP', 'stacked PR'})
AUTHORS = ('ehigham', 'cjllanwarne', 'patrick-schultz')
OK_STATES = ('SUCCESS', 'NEUTRAL')
# exception types repository code is expected to log or raise in this world; anything else is a harness bug
EXPECTED_EXC = {'GitHubBroken', 'BadRequest', 'ClientConnectionError', 'TimeoutError', 'ClientResponseError',
                'AssertionError', 'ValueError', 'CalledProcessError', 'BuildConfigurationError', 'CancelledError'}


class _Log:
    """stands in for logging.getLogger('ci') so that logged exceptions become deterministic events."""

    def __init__(self, w):
        self.w = w

    def info(self, *a, **k):
        pass

    debug = info
    warning = info

    def error(self, *a, **k):
        if k.get('exc_info'):
            self.exception()

    def exception(self, *a, **k):
        et = sys.exc_info()[0]
        self.w.on_ci_exception('logged', sys.exc_info()[1] if et else None)

    def isEnabledFor(self, lvl):
        return False


class _Request(dict):
    def __init__(self, app, body=b''):
        super().__init__()
        self.app = app
        self._body = body
        self.headers = {}

    async def read(self):
        return self._body


class World:
    def __init__(self, ctx, G, C, fakes, Batch, BatchClient, CalledProcessError):
        self.ctx = ctx
        self.G = G
        self.C = C
        self.fakes = fakes
        self.Batch = Batch
        self.BatchClient = BatchClient
        self.CalledProcessError = CalledProcessError
        self.log = ctx.log
        self.healing = False
        self.stopping = False
        self.violation = None
        self.harness_error = None
        self.tasks = []
        self.sha_n = 0
        self.token_n = 0
        self.conflicts = {}
        self.broken_heads = set()
        self.n_builds = 0
        self.loop = None
        self.wake = None

        cfg = ctx.stream('cfg')
        self.thorough = ctx.tier == 'thorough'
        self.branches = ['main', 'release'][:1 + (cfg.draw(3) == 2)]
        self.n_prs = {b: cfg.rint(2, 4) for b in self.branches}
        self.dismiss_stale = cfg.draw(2) == 1
        self.ci_ctx_required = cfg.draw(4) != 3
        self.deployable0 = cfg.draw(4) == 3
        self.no_review_rule = cfg.draw(12) == 11
        self.ext_checks = []
        for i in range(cfg.draw(4)):
            typename = 'CheckRun' if cfg.draw(6) == 5 else 'StatusContext'
            required = cfg.draw(4) != 3
            self.ext_checks.append((f'ext{i}', typename, required))
        self.many_checks = cfg.draw(4) == 3
        self.p_gh_err = cfg.pick([0.0, 0.01, 0.03, 0.1])
        self.p_drop = cfg.pick([0.0, 0.1, 0.3])
        self.p_dup = cfg.pick([0.0, 0.1, 0.3])
        self.p_delay = cfg.pick([0.0, 0.05, 0.2])
        self.p_batch_err = cfg.pick([0.0, 0.02, 0.08])
        self.p_ack_lost = cfg.pick([0.0, 0.0, 0.25])
        self.p_git_fail = cfg.pick([0.0, 0.05])
        self.p_conflict = cfg.pick([0.0, 0.05, 0.15])
        self.max_actions = 8 if self.thorough else 5
        self.boot_delay = cfg.draw(4) * 75.0
        # more than one GraphQL page of contexts (page size 10): 11..25 contexts, the external ones mostly behind page 1
        self.n_bulk = cfg.rint(10, 22) if self.many_checks else 0
        self.bulk_first = cfg.draw(4) != 3
        if self.many_checks and not any(c[2] for c in self.ext_checks):
            self.ext_checks.append((f'ext{len(self.ext_checks)}', 'StatusContext', True))
        self.gh_slow = cfg.pick([1, 1, 40, 400])          # GitHub leg latency up to 6 ms / 0.24 s / 2.4 s
        self.p_outage = cfg.pick([0.0, 0.0, 0.4, 0.8])    # partial GitHub incident after a merge / at seeded times
        self.p_hot = cfg.pick([0.0, 0.3, 0.6])            # developer acts right after CI was served the PR's state
        self.outage_until = {}
        self.served_waiters = {}
        self.tseq = 0
        self.bad_since = {}
        self.mon = {}

        self.s_hook = ctx.stream('lat:webhook')
        self.f_drop = ctx.stream('fault:net.webhook_drop')
        self.f_dup = ctx.stream('fault:net.webhook_dup')
        self.f_delay = ctx.stream('fault:net.delay')
        self.f_git = ctx.stream('fault:proc.git_fail')
        self.s_git = ctx.stream('lat:git')
        self.s_conflict = ctx.stream('conflict')
        self.f_outage = ctx.stream('fault:net.github_outage')

        self.gh = fakes.SimGitHub(self)
        self.batch = fakes.SimBatchService(self)
        self.db = fakes.SimDB(self)
        self.checkout = fakes.Checkout(self)
        self.wbs = []
        self.wb_by_branch = {}
        self.app = None
        self.ci_context = None

    # -- plumbing --------------------------------------------------------------------------------
    def escape(self, msg):
        e = SimulationEscape(msg)
        if self.harness_error is None:
            self.harness_error = e
        self._wake()
        return e

    def _wake(self):
        if self.wake is not None and not self.wake.done():
            self.wake.set_result(None)

    def tk(self):
        self.tseq += 1
        return self.tseq

    def touch(self, p):
        """world bookkeeping: since when (event order) has each GitHub-side aspect of the PR forbidden a merge."""
        for aspect, bad in (('labels', bool(set(p.labels) & DNM)), ('review', p.review != 'APPROVED'),
                            ('checks', not self.gh.required_ok(p.head, exclude=(self.ci_context,)))):
            k = (p.number, aspect)
            if bad:
                if k not in self.bad_since:
                    self.bad_since[k] = self.tk()
            else:
                self.bad_since.pop(k, None)

    def checks_served(self, number):
        for fut in self.served_waiters.pop(number, []):
            if not fut.done():
                fut.set_result(None)

    def start_outage(self, why):
        s = self.f_outage
        kinds = (('get_ref',), ('get_ref', 'list_pulls'), ('graphql',), ('get_ref', 'list_pulls', 'graphql'))[s.draw(4)]
        dur = s.rint(1, 20) * 30.0
        self.ctx.fault('net.github_outage')
        self.log.add('github', 'outage_begins', why, kinds, dur)
        for k in kinds:
            self.outage_until[k] = max(self.outage_until.get(k, 0.0), self.loop.time() + dur)

    def after_merge(self, base):
        if self.p_outage and not self.healing and self.f_outage.chance(self.p_outage):
            self.start_outage('after_merge')

    def instrument(self, wb):
        """observe (never alter) the update loop of one watched branch: order of notifications, refresh starts and
        loop iterations.  Within `_update` nothing can interleave between the end of one step and the start of the
        next, so the first step of an iteration marks the instant the loop looked at its flags."""
        m = self.mon[wb.branch.name] = {'notifies': [], 'refresh_starts': [], 'it_first': 0, 'last_rank': -1}
        o_update, o_notify, o_full = wb._update, wb.notify_github_changed, wb.update

        async def _update(*a, **k):
            if not wb.updating:
                m['last_rank'] = -1
            return await o_update(*a, **k)

        def step(rank, orig):
            async def f(*a, **k):
                sq = self.tk()
                if rank <= m['last_rank'] or m['last_rank'] < 0:
                    m['it_first'] = sq
                m['last_rank'] = rank
                if rank == 0:
                    m['refresh_starts'].append(sq)
                return await orig(*a, **k)
            return f

        async def notify(*a, **k):
            m['notifies'].append(self.tk())
            return await o_notify(*a, **k)

        async def full(*a, **k):
            m['notifies'].append(self.tk())
            return await o_full(*a, **k)

        wb._update_github = step(0, wb._update_github)
        wb._update_batch = step(1, wb._update_batch)
        wb._heal = step(2, wb._heal)
        wb._update = _update
        wb.notify_github_changed = notify
        wb.update = full

    def new_sha(self, prefix):
        self.sha_n += 1
        return f'{prefix}{self.sha_n:04d}'

    def token(self, nchars):
        self.token_n += 1
        return f'{self.token_n:0{nchars}x}'[-nchars:] if nchars >= 8 else f'{self.token_n:x}'

    def pick_seq(self, seq):
        self.token_n += 1
        return seq[self.token_n % len(seq)]

    def on_ci_exception(self, where, e):
        name = type(e).__name__ if e is not None else 'None'
        self.ctx.probe('ci_exc:' + name)
        self.log.add('ci', 'exception', where, name)
        if isinstance(e, Violation):
            return
        if isinstance(e, SimulationEscape) or name not in EXPECTED_EXC:
            if self.harness_error is None:
                self.harness_error = e if e is not None else RuntimeError('log.exception without exception')
            self._wake()

    def spawn(self, label, fn):
        if self.stopping:
            return None
        t = asyncio.ensure_future(self._guard(label, fn))
        self.tasks.append(t)
        if len(self.tasks) > 64:
            self.tasks = [x for x in self.tasks if not x.done()]
        return t

    async def _guard(self, label, fn):
        try:
            await fn()
        except asyncio.CancelledError:
            raise
        except Exception as e:  # pylint: disable=broad-except
            self.on_ci_exception(label, e)

    def violate(self, signature, detail):
        v = Violation('C30', 'merge_monitor', signature, detail)
        if self.violation is None:
            self.violation = v
        self._wake()
        return v

    # -- process seam ----------------------------------------------------------------------------
    def conflict(self, src, tgt):
        k = (src, tgt)
        if k not in self.conflicts:
            self.conflicts[k] = bool(self.p_conflict) and self.s_conflict.chance(self.p_conflict)
        return self.conflicts[k]

    async def check_shell(self, script, echo=False):
        m_co = None
        for m_co in re.finditer(r'git checkout (\S+)', script):
            pass
        m_mg = re.search(r'git merge (\S+) -m', script)
        if m_co is None:
            raise self.escape('check_shell: script without git checkout')
        tgt = m_co.group(1)
        src = m_mg.group(1) if m_mg else None
        self.n_builds += 1
        await asyncio.sleep(self.s_git.draw(31) * 1.0)
        if self.p_git_fail and not self.healing and self.f_git.chance(self.p_git_fail):
            self.ctx.fault('proc.git_fail')
            self.log.add('git', 'fail', tgt, src or '-')
            raise self.CalledProcessError(['/bin/bash', '-c', 'checkout'], 128, (b'', b'fatal: unable to access'))
        if src is not None and self.conflict(src, tgt):
            self.ctx.probe('merge_conflict')
            self.log.add('git', 'conflict', tgt, src)
            raise self.CalledProcessError(['/bin/bash', '-c', 'checkout'], 1, (b'CONFLICT (content)', b''))
        self.checkout.head = (tgt, src, self.new_sha('x'))
        self.checkout.broken = src in self.broken_heads
        if self.checkout.broken:
            self.ctx.probe('build_config_error')
        self.log.add('git', 'checkout', tgt, src or '-', self.checkout.head[2])

    async def check_shell_output(self, script, echo=False):
        if 'rev-parse HEAD' not in script or self.checkout.head is None:
            raise self.escape('check_shell_output: unexpected script')
        await asyncio.sleep(self.s_git.draw(3) * 0.25)
        return (self.checkout.head[2].encode() + b'\n', b'')

    # -- webhooks --------------------------------------------------------------------------------
    def _deliveries(self, what):
        """list of delays for one notification (empty = dropped)."""
        if not self.healing and self.p_drop and self.f_drop.chance(self.p_drop):
            self.ctx.fault('net.webhook_drop')
            self.log.add('net', 'drop', what)
            return []
        n = 1
        if not self.healing and self.p_dup and self.f_dup.chance(self.p_dup):
            self.ctx.fault('net.webhook_dup')
            self.log.add('net', 'dup', what)
            n = 2
        out = []
        for _ in range(n):
            d = self.s_hook.ticks(200)
            if not self.healing and self.p_delay and self.f_delay.chance(self.p_delay):
                self.ctx.fault('net.delay')
                d += self.f_delay.rint(1, 120) * 1.0
            out.append(d)
        return out

    def pr_event(self, p, action):
        repo = {'name': self.fakes.REPO_NAME, 'owner': {'login': self.fakes.OWNER}}
        return {'action': action, 'number': p.number,
                'pull_request': {'number': p.number, 'base': {'ref': p.base, 'repo': repo}}}

    def push_event(self, branch):
        return {'ref': f'refs/heads/{branch}',
                'repository': {'name': self.fakes.REPO_NAME, 'owner': {'login': self.fakes.OWNER, 'name': self.fakes.OWNER}}}

    def webhook(self, etype, data):
        if self.stopping:
            return
        what = f'{etype}:{data.get("number", data.get("ref", "-"))}'
        for d in self._deliveries(what):
            self.loop.call_later(d, self._deliver_hook, etype, data, what)

    def _deliver_hook(self, etype, data, what):
        if self.stopping:
            return
        self.log.add('net', 'deliver', what)
        ev = self.fakes.Event(data, event=etype, delivery_id='sim')
        ev.app = self.app
        self.spawn('hook:' + etype, lambda: self.C.gh_router.dispatch(ev))

    def batch_callback(self, status):
        if self.stopping:
            return
        what = f'batch:{status["id"]}'
        body = json.dumps(status).encode()
        for d in self._deliveries(what):
            self.loop.call_later(d, self._deliver_batch, status, body, what)

    def _deliver_batch(self, status, body, what):
        if self.stopping:
            return
        a = status['attributes']
        if a.get('test') == '1':
            p = self.gh.prs.get(int(a['pr']))
            if p is None or p.state != 'open' or p.head != a['source_sha'] \
                    or self.gh.branches[p.base] != a['target_sha']:
                self.ctx.probe('stale_batch_notification')
        self.log.add('net', 'deliver', what)
        self.spawn('hook:batch', lambda: self.C.batch_callback_handler(_Request(self.app, body)))

    # -- world truth helpers ---------------------------------------------------------------------
    def has_green_batch(self, p):
        tgt = self.gh.branches[p.base]
        return any(r['complete'] and r['state'] == 'success' and r['attributes'].get('test') == '1'
                   and r['attributes'].get('source_sha') == p.head and r['attributes'].get('target_sha') == tgt
                   for r in self.batch.batches.values())

    def world_green(self, p):
        return (p.state == 'open' and p.review == 'APPROVED' and not (set(p.labels) & DNM)
                and self.gh.required_ok(p.head, exclude=(self.ci_context,)) and self.has_green_batch(p))

    def before_target_moves(self, base, old, new, why):
        ss = f'{self.fakes.REPO_SS}:{base}'
        if any(r['attributes'].get('target_sha') == old for r in self.batch.running_tests(ss)):
            self.ctx.probe('target_moved_during_build')
        self.log.add('world', 'target_moves', base, old, new, why)

    def on_batch_created(self, rec):
        if rec['attributes'].get('deploy') == '1':
            self.ctx.probe('deploy_batch_created')
        elif rec['attributes'].get('test') == '1':
            self.ctx.probe('test_batch_created')

    # -- the C30 monitor -------------------------------------------------------------------------
    def ci_decision_state(self, number):
        """CI's in-memory view of the PR at the instant it issues the merge PUT."""
        for wb in self.wbs:
            cpr = wb.prs.get(number)
            if cpr is not None:
                m = self.mon[wb.branch.name]
                return {'batch': cpr.batch, 'labels': set(cpr.labels), 'review_state': cpr.review_state,
                        'statuses': {k: v.value for k, v in cpr.last_known_github_status.items()},
                        'it_first': m['it_first'], 'put_seq': self.tk()}
        return None

    def on_merge_put(self, number, sha, refusal, held):
        """every merge PUT that reaches GitHub.  A problem is a pair of facts about one aspect (labels, review, checks,
        batch): (1) what CI was most recently served / holds does not entitle it to merge, and (2) the world agrees,
        i.e. the property text is violated by this merge.  (1) without (2) is a lucky merge (probe); (2) without (1)
        is a legal race (probe).  `held` is CI's in-memory view when it sent the PUT."""
        gh = self.gh
        p = gh.prs.get(number)
        problems = []   # (aspect or None, signature suffix, detail)
        sp = gh.served_pr.get(number)
        sc = gh.served_chk.get(number)
        base = p.base if p is not None else None
        # how CI came to it (only refines the signature): does CI's in-memory view agree with what it was last served?
        ci_labels_ok = held is not None and not (held['labels'] & DNM)
        ci_review_ok = held is not None and held['review_state'] == 'approved'
        ci_checks_ok = held is not None and all(
            st == 'success' for k, st in held['statuses'].items() if k != self.ci_context)
        ci_holds = sorted(held['statuses'].items()) if held is not None else None

        def how(ci_ok):
            return 'ci_view_differs' if ci_ok else 'ci_view_agrees'
        if sp is None or not sp['listed']:
            problems.append((None, 'pr_not_in_last_listing', f'PR {number} was not in the listing last served to CI'))
        else:
            if sp['head'] != sha:
                problems.append((None, 'sha_not_last_served_head', f'PUT sha {sha}, last served head {sp["head"]}'))
            if set(sp['labels']) & DNM:
                problems.append(('labels', f'do_not_merge_label/{how(ci_labels_ok)}',
                                 f'labels last served to CI: {list(sp["labels"])}'))
        if sc is None:
            problems.append((None, 'review_never_served', 'CI was never served a review decision for this PR'))
        elif sc['sha'] == sha and not sc['mixed']:
            # CI has looked at the review decision / checks while `sha` was the head: judge what it was served
            if sc['review'] != 'APPROVED':
                problems.append(('review', f'not_approved/{how(ci_review_ok)}',
                                 f'review decision last served to CI: {sc["review"]} (CI holds '
                                 f'{held["review_state"] if held is not None else None})'))
            bad = [(k, v[1]) for k, v in sorted(sc['nodes'].items())
                   if v[2] and k != self.ci_context and v[1] not in OK_STATES]
            if bad:
                problems.append(('checks', f'required_check_not_success/{how(ci_checks_ok)}',
                                 f'required checks last served to CI for {sha}: {bad}; CI holds {ci_holds}'))
            if any((not v[2]) and v[1] not in OK_STATES and v[1] not in (None, 'PENDING', 'EXPECTED')
                   for v in sc['nodes'].values()):
                self.ctx.probe('put_with_failing_nonrequired_check')
        else:
            # CI was told that the head is now `sha` (listing) but has never been served the review decision or the
            # checks while `sha` was the head: what it holds describes the older commit sc['sha'].
            problems.append(('review', 'unrefreshed_new_head/not_approved',
                             f'CI holds review decision {sc["review"]} served when the head was {sc["sha"]}; it was '
                             f'later served the new head {sha} but never the review decision for it'))
            problems.append(('checks', 'unrefreshed_new_head/required_check_not_success',
                             f'CI holds the checks of the older commit {sc["sha"]} ({ci_holds}); it was later served '
                             f'the new head {sha} but never its checks'))
        b = held['batch'] if held is not None else None
        if b is None or not isinstance(b, self.Batch) or not b.is_created:
            problems.append(('batch', 'no_test_batch', f'pr.batch is {type(b).__name__}'))
        else:
            rec = self.batch.batches.get(b.id)
            if rec is None:
                problems.append(('batch', 'no_test_batch', f'pr.batch {b.id} is unknown to the batch service'))
            else:
                a = rec['attributes']
                served_t = gh.served_branch.get(base)
                if a.get('test') != '1':
                    problems.append(('batch', 'batch_not_a_test_batch', f'batch {b.id} attributes {a}'))
                if a.get('source_sha') != sha:
                    problems.append(('batch', 'batch_for_other_source',
                                     f'batch {b.id} tested source {a.get("source_sha")}, merged head is {sha}'))
                if a.get('target_sha') != served_t:
                    problems.append(('batch', 'batch_for_other_target',
                                     f'batch {b.id} ran against target {a.get("target_sha")}, target last served to CI '
                                     f'is {served_t}'))
                if not (rec['complete'] and rec['state'] == 'success'):
                    problems.append(('batch', 'batch_not_success',
                                     f'batch {b.id} is {rec["state"]} complete={rec["complete"]}'))
        if base is not None and gh.await_reobserve.get(base):
            problems.append((None, 'second_merge_without_reobserving_target',
                             f'CI was told a merge into {base} succeeded and has not looked at the branch since'))
        if refusal is not None:
            if problems:
                self.ctx.probe('refused_put_on_bad_served_state')
                self.log.add('oracle', 'refused_put_on_bad_served_state', number, problems[0][1])
            return
        # accepted: this is a merge.  World truth per aspect at this instant:
        world_bad = {
            'labels': sorted(set(p.labels) & DNM),
            'review': p.review if p.review != 'APPROVED' else None,
            'checks': [(c.name, c.state) for c in gh.contexts.get(sha, {}).values()
                       if c.required and c.name != self.ci_context and c.state not in OK_STATES],
            'batch': None if self.has_green_batch(p) else
            f'no successful test batch of {sha} against {gh.branches[base]} exists',
        }
        if gh.unacked_merge.get(base):
            self.ctx.probe('merge_after_unacked_merge')
        if any(q is not p and self.world_green(q) for q in gh.open_prs(base)):
            self.ctx.probe('two_prs_green_same_time')
        if any(world_bad.values()) and not problems:
            self.ctx.probe('merged_on_stale_but_served_state')
        # lost notification: the aspect has forbidden the merge since event c; after c CI was notified (a webhook
        # handler or the periodic update set github_changed, event w); the loop iteration that merges began after w;
        # and no refresh of the branch was even started between w and the PUT.  The original loop cannot do that: an
        # iteration that begins with github_changed set starts with a refresh.  (A refresh that started and failed, or
        # a notification that arrives while the merging iteration is already under way, is not judged.)
        m = self.mon.get(base)
        if m is not None and held is not None:
            for aspect in ('labels', 'review', 'checks'):
                c = self.bad_since.get((number, aspect))
                if not world_bad[aspect] or c is None or any(a == aspect for a, _, _ in problems):
                    continue
                ws = [w for w in m['notifies'] if c < w < held['it_first']]
                if ws and not any(ws[-1] < r < held['put_seq'] for r in m['refresh_starts']):
                    problems.append((None, f'notified_change_ignored/{aspect}',
                                     f'{aspect} = {world_bad[aspect]} in the world; CI was notified after that change '
                                     f'and merged from a later update-loop iteration without starting a refresh'))
        real = []
        for aspect, sig, detail in problems:
            if aspect is None or world_bad[aspect]:
                real.append((sig, detail + (f'; in the world: {aspect} = {world_bad[aspect]}' if aspect else '')))
            else:
                self.ctx.probe('lucky_merge:' + sig.split('/')[0])
        if real:
            self.log.add('oracle', 'violation', number, sha, tuple(x[0] for x in real))
            raise self.violate(f'C30/merged/{real[0][0]}',
                               f'CI merged PR {number} at {sha} into {base}: ' + ' | '.join(x[1] for x in real))

    # -- actors ----------------------------------------------------------------------------------
    def _new_head(self, p, s):
        sha = self.new_sha('h')
        if s.chance(0.02):
            self.broken_heads.add(sha)
        return sha

    async def checks_actor(self, p, sha):
        s = self.ctx.stream(f'checks:pr{p.number}')
        gh = self.gh
        def bulk():
            for i in range(self.n_bulk):
                gh.set_ctx(sha, 'CheckRun' if i % 3 == 0 else 'StatusContext', f'bulk{i:02d}', 'SUCCESS', i % 2 == 0)
        if self.bulk_first:
            bulk()
        for name, typename, required in self.ext_checks:
            gh.set_ctx(sha, typename, name, 'PENDING' if typename == 'StatusContext' else None, required)
        if not self.bulk_first:
            bulk()
        self.touch(p)
        for name, typename, required in self.ext_checks:
            rounds = 1 + (1 if s.chance(0.1) else 0)
            for r in range(rounds):
                await asyncio.sleep(s.draw(13) * 25.0)
                k = s.weighted([12, 1, 1])
                if typename == 'StatusContext':
                    state = ('SUCCESS', 'FAILURE', 'ERROR')[k]
                else:
                    state = ('SUCCESS', 'FAILURE', 'TIMED_OUT')[k]
                gh.set_ctx(sha, typename, name, state, required)
                self.touch(p)
                self.log.add('checks', 'report', p.number, sha, name, state)
                if k and not required:
                    self.ctx.probe('nonrequired_check_failed')
                if r + 1 < rounds:
                    await asyncio.sleep(s.draw(8) * 25.0)
                    gh.set_ctx(sha, typename, name, 'PENDING' if typename == 'StatusContext' else None, required)
                    self.touch(p)
                    self.log.add('checks', 'rerun', p.number, sha, name)

    async def pr_actor(self, number, base):
        s = self.ctx.stream(f'dev:pr{number}')
        gh = self.gh
        await asyncio.sleep(s.draw(4) * 60.0)
        author = AUTHORS[number % len(AUTHORS)] if s.weighted([6, 1]) == 0 else 'outsider'
        body = ('fix things', None, 'please review #assign services', '#assign services #assign compiler')[s.weighted([5, 1, 1, 1])]
        labels = ([], ['WIP'], ['stacked PR'], ['prio:high'], ['do-not-test'])[s.weighted([10, 1, 1, 1, 1])]
        head = self._new_head(None, s)
        p = self.fakes.GhPR(number, f'pr {number}', body, author, f'feature-{number}', head, base, labels,
                            None if self.no_review_rule else 'REVIEW_REQUIRED')
        gh.prs[number] = p
        self.log.add('dev', 'open', number, base, head, author, tuple(labels))
        self.touch(p)
        self.spawn('checks', lambda: self.checks_actor(p, head))
        self.webhook('pull_request', self.pr_event(p, 'opened'))
        n_actions = s.rint(1, self.max_actions)
        early_review = s.weighted([2, 1]) == 0
        for i in range(n_actions):
            if i == 0 and early_review:
                # a reviewer who approves soon after the PR is opened
                await asyncio.sleep(s.draw(8) * 15.0)
                k = 0
            else:
                gap = s.draw(16) * 45.0
                if self.p_hot and s.chance(self.p_hot):
                    # act right after CI has been served this PR's review decision and checks (possibly while that
                    # refresh of the branch is still in flight), at the latest when the gap is over
                    fut = self.loop.create_future()
                    self.served_waiters.setdefault(number, []).append(fut)
                    try:
                        await asyncio.wait_for(fut, timeout=gap + 1.0)
                        self.ctx.probe('hot_action')
                        await asyncio.sleep(s.draw(9) * 0.25)
                    except asyncio.TimeoutError:
                        pass
                else:
                    await asyncio.sleep(gap)
                k = s.weighted([5, 3, 2, 2, 1, 1, 1, 1, 1, 1])
            if p.state != 'open':
                return
            green = self.world_green(p)
            if k == 0:
                if not self.no_review_rule:
                    p.review = 'APPROVED'
                self.log.add('dev', 'approve', number)
                self.webhook('pull_request_review', self.pr_event(p, 'submitted'))
            elif k == 1:
                old = p.head
                ss = f'{self.fakes.REPO_SS}:{base}'
                if any(r['attributes'].get('pr') == str(number) and r['attributes'].get('source_sha') == old
                       for r in self.batch.running_tests(ss)):
                    self.ctx.probe('push_to_pr_during_build')
                if green:
                    self.ctx.probe('push_to_pr_after_green')
                p.head = self._new_head(p, s)
                if self.dismiss_stale and p.review == 'APPROVED':
                    p.review = 'REVIEW_REQUIRED'
                self.log.add('dev', 'push', number, old, p.head)
                nh = p.head
                self.spawn('checks', lambda nh=nh: self.checks_actor(p, nh))
                self.webhook('pull_request', self.pr_event(p, 'synchronize'))
            elif k == 2:
                cand = [lb for lb in ('WIP', 'stacked PR') if lb not in p.labels]
                if cand:
                    lb = s.pick(cand)
                    p.labels.append(lb)
                    if green:
                        self.ctx.probe('label_added_after_green')
                    self.log.add('dev', 'label', number, lb)
                    self.webhook('pull_request', self.pr_event(p, 'labeled'))
            elif k == 3:
                if p.labels:
                    lb = s.pick(p.labels)
                    p.labels.remove(lb)
                    self.log.add('dev', 'unlabel', number, lb)
                    self.webhook('pull_request', self.pr_event(p, 'unlabeled'))
            elif k in (4, 5):
                if not self.no_review_rule:
                    if green:
                        self.ctx.probe('approval_revoked_after_green')
                    p.review = 'CHANGES_REQUESTED' if k == 4 else 'REVIEW_REQUIRED'
                self.log.add('dev', 'request_changes' if k == 4 else 'dismiss_review', number)
                self.webhook('pull_request_review', self.pr_event(p, 'submitted' if k == 4 else 'dismissed'))
            elif k == 6:
                cand = [lb for lb in ('prio:high', 'do-not-test', 'bug') if lb not in p.labels]
                if cand:
                    lb = s.pick(cand)
                    p.labels.append(lb)
                    self.log.add('dev', 'label', number, lb)
                    self.webhook('pull_request', self.pr_event(p, 'labeled'))
            elif k == 7:
                wb = self.wb_by_branch[base]
                cpr = wb.prs.get(number)
                if cpr is not None:
                    self.ctx.probe('retry_requested')
                    self.log.add('dev', 'retry', number)
                    self.spawn('retry', lambda cpr=cpr, wb=wb: self.C.retry_pr(
                        wb, cpr, _Request(self.app), {'username': 'dev'}))
            elif k == 8:
                self.db.authorized_shas.add(p.head)
                self.log.add('dev', 'authorize_sha', number, p.head)
            else:
                p.state = 'closed'
                self.log.add('dev', 'close', number)
                self.webhook('pull_request', self.pr_event(p, 'closed'))
                return
            self.touch(p)      # no await since the action: the bookkeeping precedes the webhook's delivery

    async def outage_actor(self):
        s = self.ctx.stream('dev:outages')
        for _ in range(s.draw(3)):
            await asyncio.sleep(s.draw(40) * 60.0)
            self.start_outage('incident')

    async def target_actor(self, base):
        s = self.ctx.stream(f'dev:target:{base}')
        for _ in range(s.draw(3)):
            await asyncio.sleep(s.draw(24) * 60.0)
            old = self.gh.branches[base]
            new = self.new_sha('t')
            self.before_target_moves(base, old, new, 'dev_push')
            self.gh.branches[base] = new
            self.webhook('push', self.push_event(base))

    # -- main ------------------------------------------------------------------------------------
    async def main(self, loop):
        G, C = self.G, self.C
        self.loop = loop
        self.wake = loop.create_future()
        self.ci_context = G.GITHUB_STATUS_CONTEXT
        for b in self.branches:
            self.gh.branches[b] = self.new_sha('t')
        bc = self.BatchClient('ci', self.fakes.BATCH_URL, self.batch, {})
        self.app = {C.AppKeys.DB: self.db, C.AppKeys.BATCH_CLIENT: bc, C.AppKeys.GH_CLIENT: self.gh,
                    C.AppKeys.FROZEN_MERGE_DEPLOY: False}
        repo = G.Repo(self.fakes.OWNER, self.fakes.REPO_NAME)
        self.wbs = [G.WatchedBranch(i, G.FQBranch(repo, b), bool(self.deployable0 and i == 0), True, [])
                    for i, b in enumerate(self.branches)]
        self.wb_by_branch = {wb.branch.name: wb for wb in self.wbs}
        C.watched_branches = self.wbs
        for wb in self.wbs:
            self.instrument(wb)
        self.log.add('world', 'config', tuple(self.branches), tuple(self.n_prs[b] for b in self.branches),
                     tuple(self.ext_checks), int(self.dismiss_stale), int(self.ci_ctx_required),
                     int(self.deployable0), int(self.no_review_rule), self.n_bulk, int(self.bulk_first),
                     self.gh_slow, self.p_outage, self.p_hot,
                     (self.p_gh_err, self.p_drop, self.p_dup, self.p_delay, self.p_batch_err, self.p_ack_lost,
                      self.p_git_fail, self.p_conflict))

        async def boot():
            await asyncio.sleep(self.boot_delay)
            self.log.add('ci', 'boot')
            await C.update_loop(self.app)

        actors = []
        for bi, b in enumerate(self.branches):
            for i in range(self.n_prs[b]):
                actors.append(asyncio.ensure_future(self.pr_actor(10 * (bi + 1) + i, b)))
            actors.append(asyncio.ensure_future(self.target_actor(b)))
        if self.p_outage:
            actors.append(asyncio.ensure_future(self.outage_actor()))
        update_task = asyncio.ensure_future(self._guard('update_loop', boot))
        all_actors = asyncio.gather(*actors)
        try:
            await asyncio.wait([all_actors, self.wake], return_when=asyncio.FIRST_COMPLETED)
            if all_actors.done():
                all_actors.result()
            if not self.wake.done():
                self.healing = True
                self.log.add('world', 'heal')
                await asyncio.wait([self.wake], timeout=3000.0)
        finally:
            self.stopping = True
            pend = [t for t in [update_task, all_actors] + self.tasks if not t.done()]
            for t in pend:
                t.cancel()
            if pend:
                await asyncio.gather(*pend, return_exceptions=True)
        if self.harness_error is not None:
            raise self.harness_error
        if self.violation is not None:
            raise self.violation
        # end-of-run observations (no assertion: liveness is not part of the property text)
        for p in self.gh.prs.values():
            if p.state == 'merged':
                self.ctx.probe('pr_merged')
            elif self.world_green(p):
                self.ctx.probe('end_green_unmerged')
        self.log.add('world', 'end', tuple((n, p.state) for n, p in sorted(self.gh.prs.items())),
                     tuple(sorted(self.gh.branches.items())))


class _Patches:
    _MISSING = object()

    def __init__(self):
        self.saved = []

    def set(self, obj, name, value):
        old = obj.__dict__.get(name, self._MISSING) if hasattr(obj, '__dict__') else getattr(obj, name, self._MISSING)
        self.saved.append((obj, name, old))
        setattr(obj, name, value)

    def restore(self):
        for obj, name, old in reversed(self.saved):
            if old is self._MISSING:
                try:
                    delattr(obj, name)
                except AttributeError:
                    pass
            else:
                setattr(obj, name, old)
        self.saved = []


def run(ctx):
    from worlds.ci import fakes
    fakes.install_modules()
    import ci.build as B
    import ci.ci as C
    import ci.github as G
    from hailtop.batch_client.aioclient import Batch, BatchClient
    from hailtop.utils.process import CalledProcessError

    w = World(ctx, G, C, fakes, Batch, BatchClient, CalledProcessError)
    pt = _Patches()
    shim_log = _Log(w)

    class MergeFailureBatch(G.MergeFailureBatch):
        def __init__(self, exception, attributes):
            super().__init__(exception, attributes)
            w.on_ci_exception('start_build', exception)

    async def get_session(request):
        return {}

    try:
        pt.set(G, 'check_shell', w.check_shell)
        pt.set(G, 'check_shell_output', w.check_shell_output)
        pt.set(G, 'open', w.checkout.open)
        pt.set(B, 'open', w.checkout.open)
        pt.set(G, 'repos_lock', asyncio.Lock())
        pt.set(G, 'log', shim_log)
        pt.set(C, 'log', shim_log)
        pt.set(B, 'log', shim_log)
        pt.set(G, 'MergeFailureBatch', MergeFailureBatch)
        pt.set(C, 'watched_branches', [])
        pt.set(C.aiohttp_session, 'get_session', get_session)
        pt.set(secrets, 'token_hex', lambda n=32: w.token(2 * n))
        pt.set(secrets, 'token_urlsafe', lambda n=32: w.token(n))
        pt.set(secrets, 'choice', w.pick_seq)
        pt.set(random, 'choice', w.pick_seq)
        _res, outcome = simulate(ctx, w.main, max_steps=1_500_000)
    finally:
        pt.restore()
    if outcome != 'done':
        raise RuntimeError(f'unexpected outcome {outcome}')
    ctx.extra['start_build'] = 'real'
    ctx.extra['checkouts'] = w.n_builds


def nontrivial(r):
    return r['probes'].get('merge_put', 0) >= 1 and r['n_events'] >= 20
