"""Simulated surroundings of the CI service (cisim world, property C30).

* fake third-party modules registered before `ci` is imported: `gidgethub` (exception classes, Router, Event),
  `jinja2` (Template.render returns the source unchanged);
* SimGitHub  -- the world's ground truth about branches / pull requests / reviews / labels / checks and the
  gidgethub calls ci.github makes (getitem, getiter, post incl. GraphQL, put merge).  It records what it most
  recently *served to CI* per pull request and per branch: the C30 oracle is evaluated on that;
* SimBatchService -- an in-memory batch service behind the *real* hailtop BatchClient/Batch (it is the client's
  HTTP session): list with the attribute queries CI sends, create-fast, status, cancel, delete, jobs; batches
  complete at seeded times and call CI back;
* SimDB -- the two tiny tables github.py reads (authorized_shas, invalidated_batches), other statements are
  accepted and ignored;
* process seam: check_shell / check_shell_output (git clone/fetch/merge) and the checkout fixture (`open`).

Nothing in here decides the property: the oracle lives in worlds/ci/merge.py.
"""
import asyncio
import io
import json
import re
import sys

OWNER = 'sim-org'
REPO_NAME = 'simrepo'
REPO_SS = f'{OWNER}/{REPO_NAME}'
BATCH_URL = 'http://batch.sim'

GLOBAL_CONFIG = {
    'cloud': 'gcp', 'docker_prefix': 'docker.sim', 'docker_root_image': 'ubuntu:22.04', 'domain': 'hail.sim',
    'kubernetes_server_url': 'https://k8s.sim', 'default_namespace': 'default', 'gcp_project': 'sim-project',
    'gcp_region': 'us-central1', 'gcp_zone': 'us-central1-a', 'batch_gcp_regions': '["us-central1"]',
    'batch_logs_storage_uri': 'gs://sim-batch', 'internal_ip': '10.0.0.1', 'ip': '10.0.0.2',
    'organization_domain': 'hail.sim',
}


# ---------------------------------------------------------------------------------------------
# fake third-party modules
# ---------------------------------------------------------------------------------------------

class GitHubException(Exception):
    pass


class ValidationFailure(GitHubException):
    pass


class HTTPException(GitHubException):
    def __init__(self, status_code, *args):
        self.status_code = status_code
        super().__init__(*(args or (f'http {status_code}',)))


class RedirectionException(HTTPException):
    pass


class BadRequest(HTTPException):
    pass


class BadRequestUnknownError(BadRequest):
    pass


class RateLimitExceeded(BadRequest):
    pass


class InvalidField(BadRequest):
    pass


class GitHubBroken(HTTPException):
    pass


class _GitHubAPI:
    """placeholder for gidgethub.aiohttp.GitHubAPI (the CI app gets a SimGitHub instead)."""


class _Router:
    def __init__(self, *other):
        self._routes = {}

    def register(self, event_type, **kw):
        def deco(f):
            self._routes.setdefault(event_type, []).append(f)
            return f
        return deco

    async def dispatch(self, event, *args, **kwargs):
        for f in list(self._routes.get(event.event, [])):
            await f(event, *args, **kwargs)


class Event:
    def __init__(self, data, *, event, delivery_id):
        self.data = data
        self.event = event
        self.delivery_id = delivery_id


class _Template:
    def __init__(self, source, **kw):
        self.source = source

    def render(self, **kw):
        return self.source


def install_modules():
    """register functional fakes and preset the deployment config; must run before `import ci.*`."""
    from simkit import shim
    shim.install()
    g = sys.modules.get('ci.github')
    if g is not None and not getattr(g.gidgethub, '__sim_fake__', False):
        raise RuntimeError('ci.github was imported before the cisim fakes were registered')
    if g is None:
        m = shim.fake_module('gidgethub', GitHubException=GitHubException, ValidationFailure=ValidationFailure,
                             HTTPException=HTTPException, RedirectionException=RedirectionException,
                             BadRequest=BadRequest, BadRequestUnknownError=BadRequestUnknownError,
                             RateLimitExceeded=RateLimitExceeded, InvalidField=InvalidField, GitHubBroken=GitHubBroken)
        assert m.__sim_fake__
        shim.fake_module('gidgethub.aiohttp', GitHubAPI=_GitHubAPI)
        shim.fake_module('gidgethub.routing', Router=_Router)
        shim.fake_module('gidgethub.sansio', Event=Event)
        # permissive module (web_common touches jinja2.BaseLoader etc. at import); only Template is functional
        j = shim.StubModule('jinja2')
        j.__path__ = []
        j.__sim_fake__ = True
        j.Template = _Template
        j.StrictUndefined = object()
        sys.modules['jinja2'] = j
    import gear.cloud_config as cc
    if cc.global_config is None:
        cc.global_config = dict(GLOBAL_CONFIG)
    else:
        for k, v in GLOBAL_CONFIG.items():
            cc.global_config.setdefault(k, v)


# ---------------------------------------------------------------------------------------------
# SimGitHub
# ---------------------------------------------------------------------------------------------

class Ctx:
    """one entry of a commit's statusCheckRollup."""
    __slots__ = ('typename', 'name', 'state', 'required')

    def __init__(self, typename, name, state, required):
        self.typename = typename  # 'StatusContext' | 'CheckRun'
        self.name = name
        self.state = state        # StatusState, or CheckConclusionState / None while the run is in progress
        self.required = required

    def node(self):
        if self.typename == 'StatusContext':
            return {'__typename': 'StatusContext', 'context': self.name, 'state': self.state,
                    'isRequired': self.required}
        return {'__typename': 'CheckRun', 'name': self.name, 'conclusion': self.state, 'isRequired': self.required}


class GhPR:
    __slots__ = ('number', 'title', 'body', 'author', 'ref', 'head', 'base', 'labels', 'review', 'state',
                 'assignees', 'merged_sha')

    def __init__(self, number, title, body, author, ref, head, base, labels, review):
        self.number = number
        self.title = title
        self.body = body
        self.author = author
        self.ref = ref
        self.head = head
        self.base = base
        self.labels = list(labels)
        self.review = review      # None | REVIEW_REQUIRED | APPROVED | CHANGES_REQUESTED
        self.state = 'open'       # open | closed | merged
        self.assignees = []
        self.merged_sha = None


OK_STATES = ('SUCCESS', 'NEUTRAL')
PAGE = 10


class SimGitHub:
    def __init__(self, w):
        self.w = w
        self.ctx = w.ctx
        self.log = w.ctx.log
        self.branches = {}
        self.prs = {}
        self.contexts = {}        # sha -> {name: Ctx} (insertion ordered)
        self.ci_posted = {}       # sha -> last state CI posted for its own context
        # what CI has most recently been served
        self.served_branch = {}   # branch -> sha
        self.served_pr = {}       # number -> {'head', 'labels', 'listed'}
        self.served_chk = {}      # number -> {'sha', 'review', 'nodes': {name: (typename, state, required)}, 'mixed'}
        self.pending_chk = {}     # number -> the same, pages of an unfinished query series
        self.await_reobserve = {}  # branch -> CI was told a merge succeeded and has not looked at the branch since
        self.unacked_merge = {}   # branch -> a merge was applied but CI got an error for it
        self.merge_epoch = {}
        self.lat = w.ctx.stream('lat:github')
        self.f_err = w.ctx.stream('fault:net.github_error')
        self.f_delay = w.ctx.stream('fault:net.delay')
        self.f_ack = w.ctx.stream('fault:net.github_ack_lost')

    # -- seams -----------------------------------------------------------------------------------
    async def _leg(self):
        w = self.w
        d = self.lat.ticks(6) * w.gh_slow     # per-run GitHub speed: a refresh of a branch takes ms .. tens of seconds
        if w.p_delay and not w.healing and self.f_delay.chance(w.p_delay):
            self.ctx.fault('net.delay')
            d += self.f_delay.rint(1, 40) * 0.5
        await asyncio.sleep(d)

    def _maybe_fail(self, what):
        w = self.w
        if not w.healing and w.outage_until.get(what, 0.0) > self.ctx.loop.time():
            # partial GitHub incident: this endpoint class answers 503 for a while, the others work
            self.ctx.probe('github_outage_hit')
            self.log.add('github', 'outage', what)
            raise GitHubBroken(503, 'sim: service unavailable')
        if w.p_gh_err and not w.healing and self.f_err.chance(w.p_gh_err):
            self.ctx.fault('net.github_error')
            k = self.f_err.draw(3)
            self.log.add('github', 'error', what, k)
            if k == 0:
                raise GitHubBroken(502, 'sim: bad gateway')
            if k == 1:
                import aiohttp
                raise aiohttp.ClientConnectionError('sim: connection reset')
            raise asyncio.TimeoutError()

    # -- world-side mutation ---------------------------------------------------------------------
    def open_prs(self, base):
        return [p for p in self.prs.values() if p.state == 'open' and p.base == base]

    def set_ctx(self, sha, typename, name, state, required):
        self.contexts.setdefault(sha, {})[name] = Ctx(typename, name, state, required)

    def required_ok(self, sha, exclude=()):
        """world truth: every required check reported on sha (except `exclude`) succeeded."""
        return all(c.state in OK_STATES for c in self.contexts.get(sha, {}).values()
                   if c.required and c.name not in exclude)

    # -- API used by ci.github -------------------------------------------------------------------
    async def getitem(self, url, **kw):
        m = re.fullmatch(r'/repos/([^/]+/[^/]+)/git/refs/heads/(.+)', url)
        if not m or m.group(1) != REPO_SS:
            raise self.w.escape(f'getitem {url}')
        name = m.group(2)
        await self._leg()
        self._maybe_fail('get_ref')
        if name not in self.branches:
            raise BadRequest(404, 'Not Found')
        sha = self.branches[name]
        epoch = self.merge_epoch.get(name, 0)
        await self._leg()
        self.served_branch[name] = sha
        if self.merge_epoch.get(name, 0) == epoch:
            self.await_reobserve[name] = False
            self.unacked_merge[name] = False
        self.log.add('github', 'serve_ref', name, sha)
        return {'ref': f'refs/heads/{name}', 'object': {'sha': sha, 'type': 'commit'}}

    def _pr_json(self, p):
        repo = {'name': REPO_NAME, 'owner': {'login': OWNER}}
        return {
            'number': p.number, 'title': p.title, 'body': p.body, 'state': 'open',
            'user': {'login': p.author},
            'assignees': [{'login': a} for a in p.assignees],
            'requested_reviewers': [],
            'labels': [{'name': lb} for lb in p.labels],
            'head': {'sha': p.head, 'ref': p.ref, 'repo': repo},
            'base': {'sha': self.branches[p.base], 'ref': p.base, 'repo': repo},
        }

    async def getiter(self, url, **kw):
        m = re.fullmatch(r'/repos/([^/]+/[^/]+)/pulls\?state=open&base=(.+)', url)
        if not m or m.group(1) != REPO_SS:
            raise self.w.escape(f'getiter {url}')
        base = m.group(2)
        await self._leg()
        self._maybe_fail('list_pulls')
        items = [self._pr_json(p) for p in sorted(self.open_prs(base), key=lambda p: p.number)]
        await self._leg()
        listed = set()
        for it in items:
            n = it['number']
            listed.add(n)
            self.served_pr[n] = {'head': it['head']['sha'], 'labels': tuple(lb['name'] for lb in it['labels']),
                                 'listed': True}
        for n, p in self.prs.items():
            if p.base == base and n not in listed and n in self.served_pr:
                self.served_pr[n]['listed'] = False
        self.log.add('github', 'serve_pulls', base,
                     tuple((it['number'], it['head']['sha'], tuple(lb['name'] for lb in it['labels'])) for it in items))
        for it in items:
            yield it

    async def post(self, url, data=None, **kw):
        if url == '/graphql':
            return await self._graphql(data['query'])
        m = re.fullmatch(r'/repos/([^/]+/[^/]+)/statuses/(\w+)', url)
        if m:
            return await self._post_status(m.group(2), data)
        m = re.fullmatch(r'/repos/([^/]+/[^/]+)/issues/(\d+)/assignees', url)
        if m:
            await self._leg()
            self._maybe_fail('post_assignees')
            p = self.prs.get(int(m.group(2)))
            if p is not None:
                for a in sorted(data.get('assignees', [])):
                    if a not in p.assignees:
                        p.assignees.append(a)
                if data.get('assignees'):
                    self.log.add('github', 'assignees', p.number, tuple(p.assignees))
            await self._leg()
            return {}
        raise self.w.escape(f'post {url}')

    async def _post_status(self, sha, data):
        await self._leg()
        self._maybe_fail('post_status')
        state = data['state']
        self.set_ctx(sha, 'StatusContext', data['context'], state.upper(), self.w.ci_ctx_required)
        self.ci_posted[sha] = state
        self.log.add('github', 'ci_status', sha, state)
        await self._leg()
        return {'state': state}

    async def _graphql(self, query):
        mo = re.search(r'owner:\s*"([^"]+)"', query)
        mn = re.search(r'name:\s*"([^"]+)"', query)
        mp = re.search(r'pullRequest\s*\(number:\s*(\d+)\)', query)
        if not (mo and mn and mp) or (mo.group(1), mn.group(1)) != (OWNER, REPO_NAME):
            raise self.w.escape('graphql query not understood')
        for needle in ('reviewDecision', 'commits (last: 1)', 'statusCheckRollup', 'isRequired', 'hasNextPage'):
            if needle not in query:
                raise self.w.escape(f'graphql query lacks {needle}')
        mc = re.search(r'contexts\s*\(first:\s*(\d+)(?:,\s*after:\s*"([^"]*)")?\)', query)
        if not mc:
            raise self.w.escape('graphql contexts clause not understood')
        first = int(mc.group(1))
        cursor = mc.group(2)
        number = int(mp.group(1))
        await self._leg()
        self._maybe_fail('graphql')
        p = self.prs.get(number)
        if p is None:
            raise BadRequest(404, 'Not Found')
        head = p.head
        review = p.review
        ctxs = list(self.contexts.get(head, {}).values())
        if not ctxs:
            rollup = None
            nodes = []
        else:
            start = int(cursor) if cursor else 0
            page = ctxs[start:start + first]
            nodes = [c.node() for c in page]
            rollup = {'contexts': {'nodes': nodes,
                                   'pageInfo': {'endCursor': str(start + len(page)),
                                                'hasNextPage': start + len(page) < len(ctxs)}}}
            if rollup['contexts']['pageInfo']['hasNextPage']:
                self.ctx.probe('graphql_paged')
        await self._leg()
        # an answer counts as served to CI once its last page has been delivered: a query series that breaks off
        # between pages leaves the previously served answer in place (CI discards partial results, legitimately)
        snap = self.pending_chk.get(number)
        if cursor is None or snap is None:
            snap = self.pending_chk[number] = {'sha': head, 'review': review, 'nodes': {}, 'mixed': False}
        elif snap['sha'] != head:
            snap['mixed'] = True
        for nd in nodes:
            if nd['__typename'] == 'StatusContext':
                snap['nodes'][nd['context']] = ('StatusContext', nd['state'], nd['isRequired'])
            else:
                snap['nodes'][nd['name']] = ('CheckRun', nd['conclusion'], nd['isRequired'])
                if nd['conclusion'] is None and nd['isRequired']:
                    self.ctx.probe('checkrun_null_conclusion_served')
        last = rollup is None or not rollup['contexts']['pageInfo']['hasNextPage']
        if last:
            self.served_chk[number] = self.pending_chk.pop(number)
        self.log.add('github', 'serve_checks', number, head, review or '-', int(last),
                     tuple((k, v[1] or '-', int(v[2])) for k, v in sorted(snap['nodes'].items())))
        if last:
            self.w.checks_served(number)
        return {'data': {'repository': {'pullRequest': {
            'reviewDecision': review,
            'commits': {'nodes': [{'commit': {'statusCheckRollup': rollup}}]}}}}}

    async def put(self, url, data=None, **kw):
        m = re.fullmatch(r'/repos/([^/]+/[^/]+)/pulls/(\d+)/merge', url)
        if not m or m.group(1) != REPO_SS:
            raise self.w.escape(f'put {url}')
        number = int(m.group(2))
        sha = (data or {}).get('sha')
        self.ctx.probe('merge_put')
        self.log.add('ci', 'merge_put', number, sha)
        # what CI held when it decided to merge: no await separates is_mergeable() from this point, whereas
        # ci.ci.retry_pr may reset pr.batch (outside the update lock) while the request is in flight
        held = self.w.ci_decision_state(number)
        await self._leg()
        self._maybe_fail('merge')
        p = self.prs.get(number)
        refusal = None
        if p is None:
            refusal = (404, 'not_found')
        elif p.state != 'open':
            refusal = (405, 'closed')
        elif sha != p.head:
            refusal = (409, 'stale_head')
        elif self.w.conflict(p.head, self.branches[p.base]):
            refusal = (405, 'conflict')
        # the monitor: every merge PUT that reaches GitHub
        self.w.on_merge_put(number, sha, refusal, held)
        if refusal is not None:
            self.ctx.probe('merge_refused_' + refusal[1])
            self.log.add('github', 'merge_refused', number, refusal[1])
            await self._leg()
            raise BadRequest(refusal[0], f'sim: {refusal[1]}')
        base = p.base
        old = self.branches[base]
        new = self.w.new_sha('m')
        self.w.before_target_moves(base, old, new, 'ci_merge')
        self.branches[base] = new
        p.state = 'merged'
        p.merged_sha = new
        self.merge_epoch[base] = self.merge_epoch.get(base, 0) + 1
        self.ctx.probe('merge_accepted')
        self.log.add('github', 'merged', number, sha, base, old, new)
        self.w.webhook('pull_request', self.w.pr_event(p, 'closed'))
        self.w.webhook('push', self.w.push_event(base))
        w = self.w
        if w.p_ack_lost and not w.healing and self.f_ack.chance(w.p_ack_lost):
            self.ctx.fault('net.github_ack_lost')
            self.unacked_merge[base] = True
            self.log.add('github', 'merge_ack_lost', number)
            raise GitHubBroken(502, 'sim: bad gateway (merge was applied)')
        self.await_reobserve[base] = True
        self.w.after_merge(base)
        await self._leg()
        return {'sha': new, 'merged': True, 'message': 'Pull Request successfully merged'}


# ---------------------------------------------------------------------------------------------
# SimBatchService: the HTTP session of the real BatchClient
# ---------------------------------------------------------------------------------------------

class _Resp:
    def __init__(self, body):
        self._body = body
        self.headers = {}
        self.status = 200

    async def json(self):
        return self._body

    async def text(self):
        return json.dumps(self._body)


class SimBatchService:
    def __init__(self, w):
        self.w = w
        self.ctx = w.ctx
        self.log = w.ctx.log
        self.batches = {}
        self.next_id = 1
        self.lat = w.ctx.stream('lat:batch')
        self.s = w.ctx.stream('batch')
        self.f_err = w.ctx.stream('fault:net.batch_error')
        self.f_delay = w.ctx.stream('fault:net.delay')

    # -- seams -----------------------------------------------------------------------------------
    async def _leg(self):
        d = self.lat.ticks(6)
        w = self.w
        if w.p_delay and not w.healing and self.f_delay.chance(w.p_delay):
            self.ctx.fault('net.delay')
            d += self.f_delay.rint(1, 40) * 0.5
        await asyncio.sleep(d)

    def _error(self, method, url, status=503, msg='sim: batch unavailable'):
        import aiohttp
        from multidict import CIMultiDict, CIMultiDictProxy
        from yarl import URL
        from hailtop import httpx
        ri = aiohttp.RequestInfo(URL(url), method, CIMultiDictProxy(CIMultiDict()), URL(url))
        return httpx.ClientResponseError(ri, (), status=status, message=msg, body=msg)

    def _maybe_fail(self, method, url, what):
        w = self.w
        if w.p_batch_err and not w.healing and self.f_err.chance(w.p_batch_err):
            self.ctx.fault('net.batch_error')
            self.log.add('batch', 'error', what)
            raise self._error(method, url)

    # -- server state ----------------------------------------------------------------------------
    def _status(self, r):
        done = r['complete']
        n = r['n_jobs']
        return {
            'id': r['id'], 'user': 'ci', 'billing_project': r['billing_project'], 'token': r['token'],
            'state': r['state'], 'complete': done, 'closed': True,
            'n_jobs': n, 'n_completed': n if done else 0,
            'n_succeeded': n if r['state'] == 'success' else 0,
            'n_failed': 1 if r['state'] == 'failure' else 0,
            'n_cancelled': n if r['state'] == 'cancelled' else 0,
            'attributes': dict(r['attributes']),
            'time_created': '2023-11-14T22:13:20Z', 'time_closed': '2023-11-14T22:13:20Z',
            'time_completed': '2023-11-14T23:13:20Z' if done else None,
            'duration': None, 'msec_mcpu': 0, 'cost': '$0.0000', 'cost_breakdown': [],
        }

    def _query(self, q):
        recs = sorted(self.batches.values(), key=lambda r: -r['id'])
        for term in (q or '').split():
            neg = term.startswith('!')
            t = term[1:] if neg else term
            if '=' in t:
                k, v = t.split('=', 1)
                pred = (lambda r, k=k, v=v: r['attributes'].get(k) == v)
            elif t.startswith('user:'):
                pred = (lambda r, u=t[5:]: u == 'ci')
            elif t == 'complete':
                pred = (lambda r: r['complete'])
            elif t == 'open':
                pred = (lambda r: False)
            elif t in ('running', 'success', 'failure', 'cancelled'):
                pred = (lambda r, t=t: r['state'] == t)
            else:
                raise self.w.escape(f'batch query term {term!r}')
            recs = [r for r in recs if bool(pred(r)) != neg]
        return recs

    def _finish(self, bid, state):
        r = self.batches.get(bid)
        if r is None or r['complete']:
            return
        r['state'] = state
        r['complete'] = True
        self.log.add('batch', 'complete', bid, state)
        if r.get('callback'):
            self.w.batch_callback(self._status(r))

    def running_tests(self, target_branch):
        return [r for r in self.batches.values()
                if not r['complete'] and r['attributes'].get('test') == '1'
                and r['attributes'].get('target_branch') == target_branch]

    # -- HTTP surface ----------------------------------------------------------------------------
    def _path(self, url):
        if not url.startswith(BATCH_URL):
            raise self.w.escape(f'batch url {url}')
        return url[len(BATCH_URL):]

    async def get(self, url, params=None, headers=None, **kw):
        path = self._path(url)
        await self._leg()
        self._maybe_fail('GET', url, 'get')
        if path == '/api/v1alpha/batches':
            body = {'batches': [self._status(r) for r in self._query((params or {}).get('q'))]}
        else:
            m = re.fullmatch(r'/api/v1alpha/batches/(\d+)', path)
            mj = re.fullmatch(r'/api/v1alpha/batches/(\d+)/job-groups/0/jobs', path)
            if m:
                r = self.batches.get(int(m.group(1)))
                if r is None:
                    raise self._error('GET', url, 404, 'sim: no such batch')
                body = self._status(r)
            elif mj:
                r = self.batches.get(int(mj.group(1)))
                if r is None:
                    raise self._error('GET', url, 404, 'sim: no such batch')
                st = {'success': 'Success', 'failure': 'Failed', 'cancelled': 'Cancelled'}.get(r['state'], 'Running')
                body = {'jobs': [{'batch_id': r['id'], 'job_id': 1, 'name': 'unit_tests', 'state': st,
                                  'exit_code': 1 if st == 'Failed' else 0, 'user': 'ci',
                                  'billing_project': r['billing_project']}]}
            else:
                raise self.w.escape(f'batch GET {path}')
        await self._leg()
        return _Resp(body)

    async def post(self, url, data=None, json=None, headers=None, **kw):  # pylint: disable=redefined-outer-name
        path = self._path(url)
        if path != '/api/v1alpha/batches/create-fast':
            raise self.w.escape(f'batch POST {path}')
        await self._leg()
        self._maybe_fail('POST', url, 'create')
        raw = getattr(data, '_value', data)
        doc = _json_loads(raw)
        spec = doc['batch']
        if spec['n_jobs'] != len(doc['bunch']):
            raise self._error('POST', url, 400, 'sim: wrong number of jobs')
        for r in self.batches.values():
            if r['token'] == spec['token']:
                return _Resp({'id': r['id'], 'start_job_group_id': 1, 'start_job_id': 1})
        bid = self.next_id
        self.next_id += 1
        attrs = dict(spec.get('attributes') or {})
        r = {'id': bid, 'token': spec['token'], 'billing_project': spec['billing_project'], 'attributes': attrs,
             'callback': spec.get('callback'), 'n_jobs': spec['n_jobs'], 'state': 'running', 'complete': False}
        self.batches[bid] = r
        # seeded fate: 0 = quick success
        dur = 10.0 + self.s.draw(61) * 30.0
        outcome = 'success' if self.s.weighted([8, 1]) == 0 else 'failure'
        kind = 'test' if attrs.get('test') == '1' else ('deploy' if attrs.get('deploy') == '1' else 'other')
        self.log.add('batch', 'created', bid, kind, attrs.get('pr', '-'), attrs.get('source_sha', attrs.get('sha', '-')),
                     attrs.get('target_sha', '-'), dur, outcome)
        self.ctx.loop.call_later(dur, self._finish, bid, outcome)
        self.w.on_batch_created(r)
        w = self.w
        if w.p_batch_err and not w.healing and self.f_err.chance(w.p_batch_err / 2):
            self.ctx.fault('net.batch_error')
            self.ctx.probe('batch_create_ack_lost')
            self.log.add('batch', 'error', 'create_ack_lost', bid)
            raise self._error('POST', url)
        await self._leg()
        return _Resp({'id': bid, 'start_job_group_id': 1, 'start_job_id': 1})

    async def patch(self, url, headers=None, **kw):
        path = self._path(url)
        m = re.fullmatch(r'/api/v1alpha/batches/(\d+)/job-groups/0/cancel', path)
        if not m:
            raise self.w.escape(f'batch PATCH {path}')
        await self._leg()
        self._maybe_fail('PATCH', url, 'cancel')
        bid = int(m.group(1))
        self.log.add('batch', 'cancel', bid)
        self._finish(bid, 'cancelled')
        await self._leg()
        return _Resp({})

    async def delete(self, url, headers=None, **kw):
        path = self._path(url)
        m = re.fullmatch(r'/api/v1alpha/batches/(\d+)', path)
        if not m:
            raise self.w.escape(f'batch DELETE {path}')
        await self._leg()
        self._maybe_fail('DELETE', url, 'delete')
        self.log.add('batch', 'delete', int(m.group(1)))
        self._finish(int(m.group(1)), 'cancelled')
        self.batches.pop(int(m.group(1)), None)
        await self._leg()
        return _Resp({})

    async def close(self):
        pass


def _json_loads(raw):
    if isinstance(raw, (bytes, bytearray, memoryview)):
        raw = bytes(raw).decode()
    return json.loads(raw)


# ---------------------------------------------------------------------------------------------
# DB
# ---------------------------------------------------------------------------------------------

class SimDB:
    """authorized_shas and invalidated_batches are modelled; writes to the namespace/bookkeeping tables are accepted."""
    _IGNORED = ('active_namespaces', 'deployed_services', 'retried_tests', 'alerted_failed_shas')

    def __init__(self, w):
        self.w = w
        self.lat = w.ctx.stream('lat:db')
        self.authorized_shas = set()
        self.invalidated_batches = set()

    async def _leg(self):
        await asyncio.sleep(self.lat.ticks(2))

    @staticmethod
    def _one(args):
        if isinstance(args, (tuple, list)):
            return args[0]
        return args

    async def _select(self, sql, args):
        await self._leg()
        s = ' '.join(sql.split())
        if 'authorized_shas' in s and s.upper().startswith('SELECT'):
            v = self._one(args)
            return {'sha': v} if v in self.authorized_shas else None
        if 'invalidated_batches' in s and s.upper().startswith('SELECT'):
            v = self._one(args)
            return {'batch_id': v} if v in self.invalidated_batches else None
        if 'alerted_failed_shas' in s:
            return None
        raise self.w.escape(f'db select {s}')

    async def select_and_fetchone(self, sql, args=None, **kw):
        return await self._select(sql, args)

    async def execute_and_fetchone(self, sql, args=None, **kw):
        return await self._select(sql, args)

    async def execute_insertone(self, sql, args=None, **kw):
        await self._leg()
        s = ' '.join(sql.split())
        if 'INSERT INTO authorized_shas' in s:
            self.authorized_shas.add(self._one(args))
        elif 'INSERT INTO invalidated_batches' in s:
            self.invalidated_batches.add(self._one(args))
            self.w.ctx.log.add('db', 'invalidate_batch', self._one(args))
        elif not any(t in s for t in self._IGNORED):
            raise self.w.escape(f'db insert {s}')
        return 0

    async def execute_many(self, sql, args_list=None, **kw):
        await self._leg()
        s = ' '.join(sql.split())
        if not any(t in s for t in self._IGNORED):
            raise self.w.escape(f'db execute_many {s}')
        return 0

    async def just_execute(self, sql, args=None, **kw):
        await self._leg()
        s = ' '.join(sql.split())
        if not any(t in s for t in self._IGNORED):
            raise self.w.escape(f'db just_execute {s}')


# ---------------------------------------------------------------------------------------------
# checkout fixture and process seam
# ---------------------------------------------------------------------------------------------

BUILD_YAML = """\
steps:
  - kind: createNamespace
    name: default_ns
    namespaceName: default
  - kind: runImage
    name: unit_tests
    image: docker.sim/ci-test:sim
    script: |
      set -ex
      {{ code.checkout_script }}
      make test
    dependsOn:
      - default_ns
  - kind: deploy
    name: deploy_simsvc
    namespace:
      valueFrom: default_ns.name
    config: sim/deployment.yaml
    wait:
      - kind: Service
        name: simsvc
        for: alive
    dependsOn:
      - default_ns
      - unit_tests
"""

TEST_BUILD_YAML = """\
steps:
  - kind: createNamespace
    name: default_ns
    namespaceName: default
  - kind: deploy
    name: deploy_hello
    namespace:
      valueFrom: default_ns.name
    config: ci/test/resources/deployment.yaml
    wait:
      - kind: Service
        name: hello
        for: alive
    dependsOn:
      - default_ns
"""

BROKEN_BUILD_YAML = """\
steps:
  - kind: noSuchStepKind
    name: oops
"""

DEPLOYMENT_YAML = 'apiVersion: v1\nkind: Service\nmetadata:\n  name: simsvc\n'


class Checkout:
    """the directory `repos/<owner>/<repo>` after the (simulated) checkout script ran."""

    def __init__(self, w):
        self.w = w
        self.head = None     # (target sha, source sha or None, merge sha)
        self.broken = False

    def open(self, path, mode='r', encoding=None, **kw):
        if 'r' not in mode or not path.startswith(f'repos/{REPO_SS}/'):
            raise self.w.escape(f'open {path} {mode}')
        if self.head is None:
            raise FileNotFoundError(path)
        rel = path[len(f'repos/{REPO_SS}/'):]
        if rel == 'build.yaml':
            return io.StringIO(BROKEN_BUILD_YAML if self.broken else BUILD_YAML)
        if rel == 'ci/test/resources/build.yaml':
            return io.StringIO(TEST_BUILD_YAML)
        if rel.endswith('deployment.yaml'):
            return io.StringIO(DEPLOYMENT_YAML)
        raise FileNotFoundError(path)
