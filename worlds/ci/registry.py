from checks_common import DST

ENGINE = {
    'name': 'cisim', 'path': 'worlds/ci/', 'serves_properties': ['C30'],
    'kind_free_text': 'the real CI merge logic (ci.github, ci.build, ci.ci drivers, hailtop batch client) against a '
                      'simulated GitHub, batch service, database and git, driven by seeded developers, check reporters, '
                      'webhook loss/duplication/delay and transient API failures on a virtual-time event loop',
}

CHECKS = {
    'C30': {
        'level': 'exploration',
        'engine': 'cisim',
        'technique': DST + ': seeded histories of pushes, reviews, label changes, status reports, batch completions and '
                           'target-branch moves against the real ci.github; a monitor at every merge PUT compares the merge '
                           'with the state GitHub most recently served to CI and with the batch service',
        'design_ref': 'DESIGN.md section 6 (C30), section 5.5',
        'level_text': 'Seeded exploration of event/notification interleavings around the real WatchedBranch/PR update, heal '
                      'and merge code, including the real _start_build; every merge CI performs is checked against the '
                      'last state CI was served (approval, labels, required checks of the merged head, test batch of that '
                      'head against the last observed target, one merge per target observation). Samples histories; not a proof.',
        'level_note': 'Trusts the SimGitHub/SimBatchService models (no branch protection; merge refused only for stale sha, '
                      'conflict, closed PR); <= 2 branches x 4 PRs, <= 8 developer actions per PR; liveness not asserted.',
        'scenarios': [{'module': 'worlds.ci.merge', 'quick': 10000, 'thorough': 70000, 'wall_cap': {'quick': 240.0, 'thorough': 1500.0}}],
        'expected_probes': ['merge_accepted', 'merge_refused_stale_head', 'push_to_pr_during_build',
                            'target_moved_during_build', 'label_added_after_green', 'approval_revoked_after_green',
                            'stale_batch_notification', 'merge_conflict', 'two_prs_green_same_time', 'graphql_paged',
                            'github_outage_hit', 'hot_action'],
    },
}
