"""C21 -- the retry helpers of hailtop.utils retry exactly the transient failures, with the documented back-off.

Real code (imported from the repository at run time): retry_transient_errors,
retry_transient_errors_with_debug_string, retry_transient_errors_with_delayed_warnings (and through them
is_transient_error, is_rate_limit_error, is_limited_retries_error, is_delayed_warning_error, delay_ms_for_try),
sleep_before_try, delay_ms_for_try directly, and -- lightly -- retry_all_errors / retry_all_errors_n_times.

A run: 1..3 sequential calls of a helper around a *scripted* async callable that takes a seeded number of ticks,
raises the next exception of a seeded finite script (0..12 failures, 0..20 thorough) and finally returns a
sentinel.  Every exception is built from a labelled family that the harness constructs itself from the lists
documented in utils.py:
  transient    aiohttp / hailtop.httpx ClientResponseError with status 408, 500, 502, 503, 504; ServerTimeoutError;
               ServerDisconnectedError; asyncio.TimeoutError; socket.timeout; OSError (and ConnectionResetError,
               ConnectionRefusedError, BrokenPipeError, aiohttp.ClientOSError, aiohttp.ClientConnectorError) with
               an errno of the retryable list; TransientError; ClientPayloadError("Response payload is not
               completed"); any of these as __cause__ (depth 1..2, `raise X from Y`) of a plain exception
  rate_limit   aiohttp / httpx 429; httpx 403 whose body contains 'rateLimitExceeded'; any of these as __cause__
               (depth 1..2) of a plain exception -- both are also on is_transient_error's list, so the chain rule
               applies to them
  limited      ConnectionResetError() / ConnectionRefusedError() without a retryable errno; httpx 400 with one of
               the two known bodies; a plain exception raised from one of the bare connection errors
  permanent    400/401/403/404 responses, ValueError, KeyError, OSError(ENOENT), PermissionError, a plain exception
               raised from a ValueError, a plain exception that merely has a transient __context__ (no `from`),
               ClientPayloadError with another message
  cancelled    asyncio.CancelledError raised by the callable (BaseException: must pass through)
Response documents: every classification that reads the response *text* (403 + 'rateLimitExceeded' in the body for
is_transient_error / is_rate_limit_error; 400 + one of the two known messages in the body for
is_limited_retries_error), alone and as __cause__, is also driven with documents of seeded shape (the call's 'body<k>'
stream; 0 = the short canonical body): Google's JSON error document (the message twice, then domain / reason), a
newer-style document with debug details first, the OAuth token endpoint's error / error_description, each padded so
that the deciding text starts at about 90, 239 (ends at 256), 248 (across 256), 300, 700, 1016, 1100, 2500, 4088,
4200, 9000 or 70000 characters and is followed by 0, 400 or 5000 more.  The exception is built by the real
hailtop.httpx.ClientResponseError constructor with `body=` as hailtop.httpx.ClientSession.request does, so whatever
that constructor keeps of the text is what the classifiers see.  Families 'docs' / 'docs_permanent' add: 503 / 500 /
429 with long documents (status decides), and -- permanent -- documents of the same shapes without the deciding text
(403 other reason, 400 other message, 400 other grant error) or with it under a status the lists do not pair it with
(400 / 401 + rateLimitExceeded, 403 + user-project message, 404 + invalid-grant message).
The jitter the repository draws with random.randrange is taken from the run's 'jitter' stream (module function
patched for the duration of the run and restored in a finally), so the run stays a function of the seed.  A
canceller may cancel the retrying task during a back-off sleep.

Reference model (consumes the labels, never the repository's classifiers): walk the script with tries = number of
failures so far; permanent / cancelled => that very exception object is raised and the callable has been invoked
exactly `tries` times; transient / rate_limit => another attempt follows; limited => another attempt follows iff
tries <= 5, otherwise it is raised; after the script the sentinel is returned.  Back-off: the virtual time
between failure number n and the next invocation lies in [min(c//2, 60000), min(c, 60000)] ms with
c = 1000 * 2**min(n, 30) (2 us tolerance for the loop's 2**-20 s grid).  retry_all_errors retries every Exception;
retry_all_errors_n_times(m) raises the m-th failure.  delay_ms_for_try / sleep_before_try are also probed
directly with seeded (tries, base, max).  After an outer cancellation no further attempt may start.

sync_retry_transient_errors is covered too: for the duration of the run the name `time` inside
hailtop.utils.utils is a proxy whose sleep() records the requested delay (everything else passes through to the
simulated clock); the blocking helper runs to completion inside one loop step around a scripted synchronous
callable and every requested sleep is checked against the same window.  It has no limited-retry tier: a limited
error among the first five failures may be retried or raised ("at most five retries"), later ones must be raised.

Not covered here: gear.database.retry_transient_mysql_errors (pymysql is an import stub in this sandbox; C27's
world drives it through the fake driver) and retry_response_returning_functions.

Signature classes: C21/not_retried/<label>/<kind> (chains collapse to .../chained_cause),
C21/retried/<permanent|limited_after_five|cancelled>, C21/wrong_exception, C21/wrong_result,
C21/delay_too_short|delay_too_long|delay_above_maximum/<retry|delay_ms_for_try|sleep_before_try>,
C21/attempt_after_cancellation, C21/retry_all/....

Sensitivity (scratch copy of hail/python under /tmp/x via HAIL_REPO_ROOT, deleted afterwards; 4000 seeds per
mutant of hailtop/utils/utils.py, every one caught; the unchanged tree is green):
  R1  503 removed from RETRYABLE_HTTP_STATUS_CODES        not_retried/transient/aiohttp_503, httpx_503, chained_cause
  R2  limited retries `tries <= 6`                         retried/limited_after_five
  R3  permanent errors retried (`raise` -> `pass`)         retried/permanent, retried/limited_after_five
  R4  delay without min(..., max)                          delay_above_maximum/retry, /delay_ms_for_try, /sleep_before_try
  R5  EPIPE removed from RETRYABLE_ERRNOS                  not_retried/transient/broken_pipe, oserror_EPIPE, chained_cause
  R6  __cause__ not followed in is_transient_error         not_retried/transient/chained_cause
  R7  403 rateLimitExceeded not recognised                 not_retried/rate_limit/httpx_403_rate_limit
  R8  full jitter (randrange(ceiling + 1))                 delay_too_short/*
  R9  limited retries `tries <= 4`                         not_retried/limited_within_five/*
  R10 CancelledError caught and retried                    retried/cancelled
  R11 delay_ms_for_try(tries - 1)                          delay_too_short/retry
  R12 __cause__ not followed in is_limited_retries_error   not_retried/limited_within_five/chained_cause
  R13 TransientError not transient                         not_retried/transient/transient_error
  R14 multiplier capped at 2**3                            delay_too_short/*
  R15 gives up with a different exception object           wrong_exception
  R16 bare ConnectionResetError made transient             retried/limited_after_five
  R17 429 not retried                                      not_retried/rate_limit/aiohttp_429, httpx_429
  R18 ServerDisconnectedError not transient                not_retried/transient/server_disconnected
  R19 DEFAULT_MAX_DELAY_MS = 61_000                        delay_above_maximum/retry
  R20 retry_all_errors_n_times `tries > max_errors`        retry_all/retried/beyond_max_errors
Independently seeded changes (tools/run_seeded.py <name> C21, quick tier), all exit 1:
  C21-1 cap applied before the jitter                      delay_too_short/retry, /delay_ms_for_try, /sleep_before_try
  C21-2 is_transient_error follows __context__             retried/permanent, sync/retried/permanent
  C21-3 hailtop.httpx branch removed from is_transient_error   not_retried/rate_limit/chained_cause,
        sync/not_retried/rate_limit/httpx_403_rate_limit, sync/not_retried/rate_limit/chained_cause
        (missed by the first version of this scenario, which had neither chained rate-limit errors nor the sync helper)
  C21-4 hailtop.httpx.ClientResponseError keeps only the first 256 characters of the body
        not_retried/rate_limit/httpx_403_rate_limit, not_retried/limited_within_five/httpx_400_user_project,
        .../httpx_400_invalid_grant, .../chained_cause and the sync/ variants (missed while every body was a short
        hand-written string)
"""
import asyncio
import errno
import functools
import socket

from worlds.common import simulate

NAME = 'prims.retry'
RULE = ('1..3 sequential retry calls; scripted callable raising 0..12 (thorough 0..20) exceptions drawn from labelled '
        'families (transient, rate-limit, limited-retry, permanent, chained, CancelledError) then returning; error '
        'responses whose class depends on the response text carry documents of seeded length (deciding text at offset '
        '~0..70000, 0..5000 characters after it) built through the real hailtop.httpx.ClientResponseError; attempt '
        'durations 0..4 ticks; jitter drawn from the run\'s stream; 0..1 cancellation of the retrying task')
COMPONENTS = {
    'hailtop.utils.utils.retry_transient_errors': 'real',
    'hailtop.utils.utils.retry_transient_errors_with_debug_string': 'real',
    'hailtop.utils.utils.retry_transient_errors_with_delayed_warnings': 'real',
    'hailtop.utils.utils.is_transient_error / is_rate_limit_error / is_limited_retries_error': 'real',
    'hailtop.utils.utils.delay_ms_for_try / sleep_before_try': 'real',
    'hailtop.utils.utils.retry_all_errors / retry_all_errors_n_times': 'real',
    'hailtop.utils.utils.sync_retry_transient_errors / sync_sleep_before_try': 'real',
    'time.sleep as seen by hailtop.utils.utils': 'simulated: records the requested delay (blocking helper only)',
    'hailtop.httpx.ClientResponseError, aiohttp exception classes': 'real',
    'random.randrange (jitter)': 'simulated: draws from the run\'s choice stream',
    'asyncio event loop / clock (asyncio.sleep, time_msecs)': 'simulated (SimLoop, virtual time)',
    'failing operation': 'simulator actor (scripted callable)',
    'botocore, requests, urllib3, aiodocker exception classes': 'import stubs (never instantiated)',
}
ASSUMPTIONS = ['the labelled exception families are a faithful reading of the lists documented in hailtop/utils/utils.py',
               'asyncio.sleep semantics are those of CPython 3.12 on the simulated loop (a sleep of d seconds ends at '
               'the first 2**-20 s grid point >= now + d)']

RETRYABLE_ERRNOS = ('EADDRNOTAVAIL', 'ETIMEDOUT', 'ECONNREFUSED', 'EHOSTUNREACH', 'ECONNRESET', 'ENETUNREACH', 'EPIPE')
TRANSIENT_STATUS = (408, 500, 502, 503, 504)
PERMANENT_STATUS = (400, 401, 403, 404)
KNOWN_400_BODIES = ('User project specified in the request is invalid.', 'Invalid grant: account not found')
MAX_DELAY_MS = 60_000
TOL = 2e-6


class Wrapped(Exception):
    """a plain exception used as the outer link of a `raise ... from ...` chain."""


# -- response documents for the classifications that read the response text ----------------------------------------
# Offsets (characters from the start of the body) at which the deciding text starts; 0 = the short canonical body.
# The values sit before, across and after the lengths at which an error body is plausibly clipped (256, 1 Ki, 4 Ki,
# 64 Ki); a target below a template's fixed preamble means "as early as the template allows".
MARKER_OFFSETS = (0, 90, 248, 239, 300, 700, 1016, 1100, 2500, 4088, 4200, 9000, 70000)
MARKER_OFFSET_WEIGHTS = (4,) + (1,) * (len(MARKER_OFFSETS) - 1)
TAIL_LENGTHS = (0, 400, 5000)       # characters of further document after the deciding text
TAIL_WEIGHTS = (3, 1, 1)
RATE_LIMIT_REASON = 'rateLimitExceeded'

_FILL = {
    'quota': "Quota exceeded for quota metric 'Queries' and limit 'Queries per minute per user' of service "
             "'storage.googleapis.com' for consumer 'project_number:1234567890'. The project exceeded the rate limit for "
             "creating and deleting buckets or for object mutations on a single object name. ",
    'debug': "at com.google.cloud.storage.spi.v1.HttpStorageRpc.translate(HttpStorageRpc.java:233) "
             "at com.google.cloud.storage.StorageImpl.lambda$get$5(StorageImpl.java:256) ",
    'html': '<p>The server encountered a temporary error and could not complete your request.</p>'
            '<p>Please try again in 30 seconds.</p>',
}


def _filler(n, unit):
    return (unit * (n // len(unit) + 1))[:n] if n > 0 else ''


def _error_document(template, status, marker, shape):
    """Response text of a failed request, in the shapes the services send: Google's JSON error document repeats the
    human-readable message before the machine-readable reason, newer API front ends put debug details first, the
    OAuth token endpoint answers with error / error_description.  `marker` is the text that decides the
    classification (None: a document of the same shape without it); shape = (index into MARKER_OFFSETS, index into
    TAIL_LENGTHS) or None for the short canonical body."""
    off = MARKER_OFFSETS[shape[0]] if shape else 0
    tail = TAIL_LENGTHS[shape[1]] if shape else 0
    canonical = off == 0 and tail == 0
    if template == 'google_reason':
        reason = marker or 'forbidden'
        if canonical:
            return '{"error": {"errors": [{"reason": "%s"}]}}' % reason
        a = '{\n "error": {\n  "code": %d,\n  "message": "' % status
        b = '",\n  "errors": [\n   {\n    "message": "'
        c = '",\n    "domain": "usageLimits",\n    "reason": "'
        n = max(0, off - len(a) - len(b) - len(c))
        msg1, msg2 = _filler(n - n // 2, _FILL['quota']), _filler(n // 2, _FILL['quota'])
        doc = a + msg1 + b + msg2 + c
        pos = len(doc)
        doc += reason + '"\n   }\n  ]'
        if tail:
            doc += ',\n  "details": [\n   {\n    "@type": "type.googleapis.com/google.rpc.DebugInfo",\n    "detail": "' + \
                   _filler(tail, _FILL['debug']) + '"\n   }\n  ]'
        doc += ',\n  "status": "PERMISSION_DENIED"\n }\n}\n'
    elif template == 'google_message':
        message = marker or 'Invalid argument.'
        if canonical:
            return '{"message": "%s"}' % message
        a = '{\n "error": {\n  "code": %d,\n  "status": "INVALID_ARGUMENT",\n  "details": [\n   {\n    "@type": ' \
            '"type.googleapis.com/google.rpc.DebugInfo",\n    "detail": "' % status
        b = '"\n   }\n  ],\n  "message": "'
        doc = a + _filler(max(0, off - len(a) - len(b)), _FILL['debug']) + b
        pos = len(doc)
        doc += message + '",\n  "errors": [\n   {\n    "message": "' + message + '",\n    "domain": "global",\n' \
               '    "reason": "invalid"'
        if tail:
            doc += ',\n    "extendedHelp": "' + _filler(tail, _FILL['quota']) + '"'
        doc += '\n   }\n  ]\n }\n}\n'
    elif template == 'oauth':
        message = marker or 'Invalid JWT Signature.'
        if canonical:
            return message
        a = '{\n  "error_uri": "https://developers.google.com/identity/protocols/oauth2/service-account#error-codes'
        b = '",\n  "error": "invalid_grant",\n  "error_description": "'
        doc = a + _filler(max(0, off - len(a) - len(b)), '?hint=' + _FILL['debug'].replace(' ', '+')) + b
        pos = len(doc)
        doc += message + '"'
        if tail:
            doc += ',\n  "trace": "' + _filler(tail, _FILL['debug']) + '"'
        doc += '\n}\n'
    else:
        assert template == 'html' and marker is None
        if canonical:
            return 'oops'
        doc = '<html><head><title>Error %d</title></head><body>' % status + _filler(off + tail, _FILL['html']) + \
              '</body></html>'
        pos = None
    if marker is not None:
        assert doc.count(marker) >= 1 and doc.index(marker) == pos and pos >= off, (template, shape, pos)
    return doc


def _families():
    """label -> [(kind, constructor)]; constructors build a fresh exception object each time."""
    import aiohttp
    from aiohttp.client_reqrep import ConnectionKey, RequestInfo
    from multidict import CIMultiDict, CIMultiDictProxy
    from yarl import URL

    import hailtop.httpx as hx
    from hailtop.utils.utils import TransientError

    url = URL('http://sim.invalid/op')
    ri = RequestInfo(url, 'GET', CIMultiDictProxy(CIMultiDict()), url)
    ck_kwargs = {f: None for f in ConnectionKey._fields}
    ck_kwargs.update(host='sim.invalid', port=80, is_ssl=False, ssl=True)
    ck = ConnectionKey(**ck_kwargs)

    def aio(status):
        return lambda: aiohttp.ClientResponseError(ri, (), status=status, message=f'status {status}')

    def httpx(status, body=''):
        return lambda: hx.ClientResponseError(ri, (), body=body, status=status, message=f'status {status}')

    def httpx_doc(status, template, marker):
        """an error response whose classification depends on (or must not be changed by) the response *text*: the
        constructor takes a shape (marker offset, tail length) drawn by the caller, builds a realistic document and
        hands it to the real hailtop.httpx.ClientResponseError constructor exactly as ClientSession.request does
        (`body=` keyword); the classifiers then read whatever that constructor stored."""
        def make(shape=None):
            body = _error_document(template, status, marker, shape)
            return hx.ClientResponseError(ri, (), body=body, status=status, message=f'status {status}')
        make.shaped = True
        return make

    def oserr(cls, name):
        return lambda: cls(getattr(errno, name), name)

    def chain(outer, inner_ctor, depth=1):
        def make(shape=None):
            e = inner_ctor(shape) if getattr(inner_ctor, 'shaped', False) else inner_ctor()
            for _ in range(depth):
                try:
                    raise outer('wrapped') from e
                except outer as w:  # pylint: disable=catching-non-exception
                    e = w
            return e
        make.shaped = getattr(inner_ctor, 'shaped', False)
        return make

    def context_only(inner_ctor):
        def make():
            try:
                try:
                    raise inner_ctor()
                except Exception:  # pylint: disable=broad-except
                    raise Wrapped('raised while handling, without from')  # pylint: disable=raise-missing-from
            except Wrapped as w:
                assert w.__cause__ is None and w.__context__ is not None
                return w
        return make

    transient = []
    for s in TRANSIENT_STATUS:
        transient.append((f'aiohttp_{s}', aio(s)))
        transient.append((f'httpx_{s}', httpx(s, 'oops')))
    transient += [
        ('server_timeout', aiohttp.ServerTimeoutError),
        ('server_disconnected', aiohttp.ServerDisconnectedError),
        ('asyncio_timeout', asyncio.TimeoutError),
        ('socket_timeout', socket.timeout),
        ('transient_error', lambda: TransientError('try again')),
        ('payload_not_completed', lambda: aiohttp.ClientPayloadError('Response payload is not completed')),
        ('conn_reset_errno', oserr(ConnectionResetError, 'ECONNRESET')),
        ('conn_refused_errno', oserr(ConnectionRefusedError, 'ECONNREFUSED')),
        ('broken_pipe', oserr(BrokenPipeError, 'EPIPE')),
        ('client_os_error_reset', oserr(aiohttp.ClientOSError, 'ECONNRESET')),
        ('client_connector_error', lambda: aiohttp.ClientConnectorError(ck, OSError(errno.ECONNREFUSED, 'refused'))),
    ]
    for name in RETRYABLE_ERRNOS:
        transient.append((f'oserror_{name}', oserr(OSError, name)))
    base = list(transient)
    chained = []
    for i, (k, c) in enumerate(base):
        chained.append((f'chain1_{k}', chain(Wrapped if i % 2 else RuntimeError, c, 1)))
        if i % 3 == 0:
            chained.append((f'chain2_{k}', chain(Wrapped, c, 2)))
    rate = [('aiohttp_429', aio(429)), ('httpx_429', httpx(429, 'slow down')),
            ('httpx_403_rate_limit', httpx_doc(403, 'google_reason', RATE_LIMIT_REASON))]
    chained_rate = []
    for k, c in rate:
        chained_rate.append((f'chain1_{k}', chain(Wrapped, c, 1)))
        chained_rate.append((f'chain2_{k}', chain(RuntimeError, c, 2)))
    bare_reset = ConnectionResetError
    bare_refused = ConnectionRefusedError
    limited = [('conn_reset_bare', bare_reset), ('conn_refused_bare', bare_refused),
               ('httpx_400_user_project', httpx_doc(400, 'google_message', KNOWN_400_BODIES[0])),
               ('httpx_400_invalid_grant', httpx_doc(400, 'oauth', KNOWN_400_BODIES[1])),
               ('chain1_conn_reset_bare', chain(Wrapped, bare_reset, 1)),
               ('chain1_conn_refused_bare', chain(RuntimeError, bare_refused, 1))]
    permanent = []
    for s in PERMANENT_STATUS:
        permanent.append((f'aiohttp_{s}', aio(s)))
        permanent.append((f'httpx_{s}', httpx(s, 'no')))
    permanent += [
        ('value_error', lambda: ValueError('bad')),
        ('key_error', lambda: KeyError('k')),
        ('oserror_ENOENT', oserr(OSError, 'ENOENT')),
        ('file_not_found', oserr(FileNotFoundError, 'ENOENT')),
        ('permission_error', oserr(PermissionError, 'EACCES')),
        ('plain_exception', lambda: Exception('plain')),
        ('chain1_value_error', chain(Wrapped, lambda: ValueError('inner'), 1)),
        ('context_only_transient', context_only(lambda: TransientError('only context'))),
        ('context_only_timeout', context_only(asyncio.TimeoutError)),
        ('payload_other_message', lambda: aiohttp.ClientPayloadError('Not enough data to satisfy content length')),
    ]
    # Families of their own (entries carry their label), so that the older families keep their composition.
    # docs: retried responses whose document has a seeded shape -- classified by status alone (whatever the document
    # says or however long it is must not matter) or by the document (limited-retry 400s as __cause__).
    docs = [
        ('httpx_503_long_body', httpx_doc(503, 'html', None), 'transient'),
        ('httpx_500_rate_limit_text', httpx_doc(500, 'google_reason', RATE_LIMIT_REASON), 'transient'),
        ('httpx_429_long_body', httpx_doc(429, 'google_reason', None), 'rate_limit'),
        ('httpx_403_rate_limit', httpx_doc(403, 'google_reason', RATE_LIMIT_REASON), 'rate_limit'),
        ('httpx_400_user_project', httpx_doc(400, 'google_message', KNOWN_400_BODIES[0]), 'limited'),
        ('httpx_400_invalid_grant', httpx_doc(400, 'oauth', KNOWN_400_BODIES[1]), 'limited'),
        ('chain1_httpx_400_user_project', chain(Wrapped, httpx_doc(400, 'google_message', KNOWN_400_BODIES[0]), 1),
         'limited'),
        ('chain1_httpx_400_invalid_grant', chain(RuntimeError, httpx_doc(400, 'oauth', KNOWN_400_BODIES[1]), 1),
         'limited'),
    ]
    # docs_permanent: documents of the same shapes and lengths as the retried ones, without the deciding text or
    # with the deciding text under a status the lists do not pair it with
    docs_permanent = [
        ('httpx_403_other_reason', httpx_doc(403, 'google_reason', None), 'permanent'),
        ('httpx_400_other_message', httpx_doc(400, 'google_message', None), 'permanent'),
        ('httpx_400_other_grant_error', httpx_doc(400, 'oauth', None), 'permanent'),
        ('httpx_400_rate_limit_text', httpx_doc(400, 'google_reason', RATE_LIMIT_REASON), 'permanent'),
        ('httpx_401_rate_limit_text', httpx_doc(401, 'google_reason', RATE_LIMIT_REASON), 'permanent'),
        ('httpx_403_user_project_text', httpx_doc(403, 'google_message', KNOWN_400_BODIES[0]), 'permanent'),
        ('httpx_404_invalid_grant_text', httpx_doc(404, 'oauth', KNOWN_400_BODIES[1]), 'permanent'),
        ('chain1_httpx_403_other_reason', chain(Wrapped, httpx_doc(403, 'google_reason', None), 1), 'permanent'),
    ]
    return {'transient': transient, 'chained': chained, 'rate_limit': rate, 'chained_rate': chained_rate,
            'limited': limited, 'permanent': permanent, 'docs': docs, 'docs_permanent': docs_permanent}


_FAMS = None


def _bounds_ms(n, base=1000, mx=MAX_DELAY_MS):
    c = base * (1 << min(n, 30))
    return min(c // 2, mx), min(c, mx)


def run(ctx):
    from simkit import shim
    shim.install()
    import random as _random

    from hailtop.utils import utils as U

    global _FAMS  # constructors only (no per-run state); built once per worker process
    if _FAMS is None:
        _FAMS = _families()
    fams = _FAMS
    log = ctx.log
    thorough = ctx.tier == 'thorough'
    max_len = 20 if thorough else 12
    cfg = ctx.stream('cfg')
    n_calls = 1 + cfg.weighted([4, 3, 2])
    with_cancel = cfg.chance(0.12)
    found = []
    st = {'cur': None, 'closed': False}
    js = ctx.stream('jitter')

    def flag(oracle, signature, detail):
        found.append((signature, oracle, detail))
        log.add('oracle', 'violation', signature)

    def now():
        return ctx.loop.time()

    # -- the repository's jitter source -> the run's stream ---------------------------------------
    def _k(n):
        if n <= 1:
            return 0
        mode = js.weighted([6, 1, 1])
        if mode == 1:
            return 0
        if mode == 2:
            return n - 1
        return js.draw(n)

    def sim_randrange(start, stop=None, step=1):
        lo, hi = (0, start) if stop is None else (start, stop)
        n = (hi - lo + step - 1) // step
        if n <= 0:
            raise ValueError('empty range for randrange()')
        return lo + step * _k(n)

    def sim_random():
        return js.flt()

    def sim_uniform(a, b):
        return a + (b - a) * js.flt()

    def sim_randint(a, b):
        return sim_randrange(a, b + 1)

    saved = {k: getattr(_random, k) for k in ('randrange', 'random', 'uniform', 'randint')}

    # -- the blocking helper's time.sleep -> recorded requests ------------------------------------------
    import time as real_time  # what `time` names inside utils.py

    class _TimeProxy:
        """stands in for the `time` module inside hailtop.utils.utils for the duration of the run."""

        def __getattr__(self, attr):
            return getattr(real_time, attr)

        @staticmethod
        def sleep(seconds):
            cur = st.get('sync_sleeps')
            if cur is None:
                raise RuntimeError(f'time.sleep({seconds}) outside a sync retry call')
            cur[1].append(seconds)
            log.add(cur[0], 'sync_sleep', int(round(seconds * 1000)))

    # -- one retry call ------------------------------------------------------------------------------
    def draw_script(s, helper, bs):
        """-> (script, shapes): script[i] = (label, kind, constructor); shapes[i] = None or the (marker offset class,
        tail class) of the response document of failure i (drawn from the call's 'body' stream bs; 0, 0 = the short
        canonical body)."""
        length = s.draw(max_len + 1)
        script = []
        shapes = []
        for _ in range(length):
            fam = ('transient', 'chained', 'rate_limit', 'limited', 'permanent', 'cancelled', 'chained_rate', 'docs',
                   'docs_permanent')[s.weighted([20, 8, 4, 8, 2, 2 if helper != 'all' else 0, 4, 2, 1])]
            if fam == 'cancelled':
                script.append(('cancelled', 'cancelled_error', asyncio.CancelledError))
                shapes.append(None)
                continue
            picked = s.pick(fams[fam])
            kind, ctor = picked[0], picked[1]
            # a plain exception is labelled by its cause: the documented lists are applied along __cause__
            label = picked[2] if len(picked) > 2 else {'chained': 'transient', 'chained_rate': 'rate_limit'}.get(fam, fam)
            shape = None
            if getattr(ctor, 'shaped', False):
                shape = (bs.weighted(MARKER_OFFSET_WEIGHTS), bs.weighted(TAIL_WEIGHTS))
                if shape == (0, 0):
                    shape = None
                else:
                    ctor = functools.partial(ctor, shape)
            script.append((label, kind, ctor))
            shapes.append(shape)
        return script, shapes

    def expected(script, helper, max_errors, n_att_obs):
        """-> (n_invocations, index of the raised failure or None)."""
        for i, (label, _kind, _c) in enumerate(script):
            tries = i + 1
            if label == 'cancelled':
                return tries, i
            if helper == 'sync' and label == 'limited' and tries <= 5:
                # the sync helper has no limited-retry tier; "at most five retries" allows giving up at once
                if n_att_obs == tries:
                    ctx.probe('sync_limited_raised_early')
                    return tries, i
                continue
            if helper == 'all':
                continue
            if helper == 'all_n':
                if tries >= max_errors:
                    return tries, i
                continue
            if label == 'permanent':
                return tries, i
            if label == 'limited' and tries > 5:
                return tries, i
        return len(script) + 1, None

    async def one_call(k):
        s = ctx.stream(f'call{k}')
        helper = ('plain', 'debug', 'delayed', 'all_n', 'all', 'sync')[s.weighted([6, 2, 2, 1, 1, 2])]
        max_errors = s.rint(1, 8)
        warn_delay = s.pick([0, 1500, 10_000_000])
        script, shapes = draw_script(s, helper, ctx.stream(f'body{k}'))
        durs = [s.ticks(4) for _ in range(len(script) + 1)]
        sentinel = ('result', k)
        rec = {'attempts': [], 'fails': [], 'exc_objs': [], 'cancel': None, 'sleeps': [], 'mark': 0, 'shapes': shapes}
        name = f'r{k}'
        args_seen = []

        async def op(a, b=None):
            args_seen.append((a, b))
            i = len(rec['attempts'])
            rec['attempts'].append((log.add(name, 'attempt', i + 1), now()))
            if rec['fails']:
                check_delay(name, len(rec['fails']), rec['fails'][-1][1], now())
            if i > len(script):
                flag('model', 'C21/attempt_after_success', f'{name}: attempt {i + 1} after the operation had returned')
                return sentinel
            await asyncio.sleep(durs[min(i, len(durs) - 1)])
            if i < len(script):
                label, kind, ctor = script[i]
                e = ctor()
                rec['exc_objs'].append(e)
                rec['fails'].append((log.add(name, 'fail', i + 1, label, kind, *(shapes[i] or ())), now()))
                ctx.fault(f'op.{label}')
                raise e
            log.add(name, 'op_returns')
            return sentinel

        def sync_op(a, b=None):
            args_seen.append((a, b))
            i = len(rec['attempts'])
            rec['attempts'].append((log.add(name, 'attempt', i + 1), now()))
            if rec['fails']:
                req = rec['sleeps'][rec['mark']:]
                rec['mark'] = len(rec['sleeps'])
                check_delay(name, len(rec['fails']), 0.0, sum(req), what='sync_retry')
            if i > len(script):
                flag('model', 'C21/attempt_after_success', f'{name}: attempt {i + 1} after the operation had returned')
                return sentinel
            if i < len(script):
                label, kind, ctor = script[i]
                e = ctor()
                rec['exc_objs'].append(e)
                rec['fails'].append((log.add(name, 'fail', i + 1, label, kind, *(shapes[i] or ())), now()))
                ctx.fault(f'op.{label}')
                raise e
            log.add(name, 'op_returns')
            return sentinel

        log.add(name, 'invoke', helper, len(script), max_errors if helper == 'all_n' else 0)
        if helper == 'sync':
            # blocking helper: it runs to completion inside this step; its time.sleep requests are recorded
            ctx.probe('sync_helper')
            st['sync_sleeps'] = (name, rec['sleeps'])
            result = None
            try:
                result = U.sync_retry_transient_errors(sync_op, 'x', b=k)
                outcome, outcome_exc = 'returned', None
            except asyncio.CancelledError as e:
                outcome, outcome_exc = 'cancelled', e
            except Exception as e:  # pylint: disable=broad-except
                outcome, outcome_exc = 'raised', e
            finally:
                st['sync_sleeps'] = None
            n_att = len(rec['attempts'])
            n_exp, raised_idx = expected(script, helper, max_errors, n_att)
            judge(name, helper, script, rec, args_seen, sentinel, k, n_att, n_exp, raised_idx, outcome, outcome_exc,
                  result)
            return
        if helper == 'plain':
            coro = U.retry_transient_errors(op, 'x', b=k)
        elif helper == 'debug':
            ctx.probe('debug_string_helper')
            coro = U.retry_transient_errors_with_debug_string(f'debug {k}', warn_delay, op, 'x', b=k)
        elif helper == 'delayed':
            ctx.probe('delayed_warnings_helper')
            coro = U.retry_transient_errors_with_delayed_warnings(warn_delay, op, 'x', b=k)
        elif helper == 'all_n':
            ctx.probe('retry_all_errors_n_times')
            coro = U.retry_all_errors_n_times(max_errors, 'msg' if s.draw(2) else None, 3)(op, 'x', b=k)
        else:
            ctx.probe('retry_all_errors')
            coro = U.retry_all_errors('msg' if s.draw(2) else None, 3)(op, 'x', b=k)
        task = asyncio.create_task(coro, name=name)
        st['cur'] = (task, rec, name)
        st['call_ev'].set()
        await asyncio.wait([task], timeout=3600.0 * 24)
        st['call_ev'].clear()
        st['cur'] = None
        if not task.done():
            flag('liveness', 'C21/call_never_returned', f'{name} ({helper}) still running after a simulated day')
            task.cancel()
            return
        n_att = len(rec['attempts'])
        n_exp, raised_idx = expected(script, helper, max_errors, n_att)
        pfx = 'C21' if helper in ('plain', 'debug', 'delayed') else 'C21/retry_all'
        if rec['cancel'] is not None:
            if any(a != ('x', k) for a in args_seen):
                flag('model', 'C21/arguments_not_passed_through', f'{name}: {args_seen[:3]}')
                return
            # outer cancellation: must end cancelled, nothing may start afterwards
            late = [a for a in rec['attempts'] if a[0] > rec['cancel'][0]]
            if late:
                flag('cancel', f'{pfx}/attempt_after_cancellation', f'{name}: {len(late)} attempt(s) after the cancel')
            elif not task.cancelled():
                # the operation may have completed in the very step of the cancel; only then is a result legal
                if not (n_att == n_exp and task.exception() is None):
                    flag('cancel', f'{pfx}/cancellation_swallowed', f'{name}: cancelled task ended with '
                         f'{"a result" if task.exception() is None else repr(task.exception())}')
            log.add(name, 'outcome', 'cancelled' if task.cancelled() else 'completed')
            return
        if task.cancelled():
            outcome_exc = rec['exc_objs'][-1] if rec['exc_objs'] and isinstance(rec['exc_objs'][-1],
                                                                                  asyncio.CancelledError) else '??'
            outcome = 'cancelled'
        elif task.exception() is not None:
            outcome_exc = task.exception()
            outcome = 'raised'
        else:
            outcome_exc = None
            outcome = 'returned'
        judge(name, helper, script, rec, args_seen, sentinel, k, n_att, n_exp, raised_idx, outcome, outcome_exc,
              task.result() if outcome == 'returned' else None)

    def judge(name, helper, script, rec, args_seen, sentinel, k, n_att, n_exp, raised_idx, outcome, outcome_exc, result):
        """compare one finished (not externally cancelled) call with the reference policy."""
        log.add(name, 'outcome', outcome, n_att)
        if any(a != ('x', k) for a in args_seen):
            flag('model', 'C21/arguments_not_passed_through', f'{name}: {args_seen[:3]}')
            return
        pfx = {'plain': 'C21', 'debug': 'C21', 'delayed': 'C21', 'sync': 'C21/sync'}.get(helper, 'C21/retry_all')

        def cls_of(i, retried):
            # stable classes: the exact kind matters for "not retried" (one classifier rule per kind); what is
            # wrongly retried has one cause per label.  Chains collapse into one class per label.
            label, kind, _ = script[i]
            if helper in ('all', 'all_n'):
                return 'beyond_max_errors' if retried else 'before_max_errors'
            if label == 'limited':
                label = 'limited_within_five' if i + 1 <= 5 else 'limited_after_five'
            if retried:
                return label
            return f'{label}/chained_cause' if kind.startswith('chain') else f'{label}/{kind}'

        def doc_note(i):
            shape = rec['shapes'][i] if i < len(rec['shapes']) else None
            if shape is None:
                return ''
            return (f'; response document with the deciding text at offset >= {MARKER_OFFSETS[shape[0]]}, followed by '
                    f'>= {TAIL_LENGTHS[shape[1]]} more characters')

        if n_att < n_exp:
            # stopped early: the failure of the last attempt was not retried although the model says so
            i = n_att - 1
            if 0 <= i < len(script):
                flag('model', f'{pfx}/not_retried/{cls_of(i, False)}',
                     f'{name} ({helper}): failure {i + 1} ({script[i][1]}{doc_note(i)}) ended the call with {outcome}; '
                     f'the policy retries it')
            else:
                flag('model', f'{pfx}/wrong_attempt_count', f'{name}: {n_att} attempts, expected {n_exp}')
            return
        if n_att > n_exp:
            i = n_exp - 1
            if raised_idx is not None:
                flag('model', f'{pfx}/retried/{cls_of(i, True)}',
                     f'{name} ({helper}): failure {i + 1} ({script[i][1]}{doc_note(i)}) was retried; the policy raises '
                     f'it at once')
            else:
                flag('model', f'{pfx}/wrong_attempt_count', f'{name}: {n_att} attempts, expected {n_exp}')
            return
        if raised_idx is None:
            if outcome != 'returned' or result != sentinel:
                flag('model', f'{pfx}/wrong_result', f'{name}: expected the sentinel, got {outcome} {outcome_exc!r}')
                return
            if script:
                ctx.probe('success_after_retries')
            if len(script) >= 10:
                ctx.probe('long_sequence')
        else:
            want = rec['exc_objs'][raised_idx]
            label, kind, _ = script[raised_idx]
            if label == 'cancelled':
                ctx.probe('cancelled_error_from_callable')
                if outcome != 'cancelled':
                    flag('model', f'{pfx}/wrong_exception', f'{name}: CancelledError from the operation became {outcome}')
                    return
            elif outcome != 'raised' or outcome_exc is not want:
                flag('model', f'{pfx}/wrong_exception',
                     f'{name}: expected {want!r} (failure {raised_idx + 1}, {kind}) got {outcome} {outcome_exc!r}')
                return
            if label == 'permanent':
                ctx.probe('permanent_raised_first_try' if raised_idx == 0 else 'permanent_after_retries')
                if rec['shapes'][raised_idx] is not None:
                    ctx.probe('permanent_long_document_raised')
                if kind.startswith('context_only'):
                    ctx.probe('context_only_not_retried')
            if label == 'limited' and raised_idx >= 5:
                ctx.probe('limited_sixth_failure_raised' if raised_idx == 5 else 'limited_later_failure_raised')
        if helper in ('plain', 'debug', 'delayed', 'sync'):
            for i, (label, kind, _) in enumerate(script[:n_att - 1]):
                shape = rec['shapes'][i]
                if shape is not None and label in ('rate_limit', 'limited') and '_long_body' not in kind:
                    # retried because of a text that starts at a seeded offset of a long response document
                    off = MARKER_OFFSETS[shape[0]]
                    ctx.probe('decided_by_text_past_4096' if off > 4096 else 'decided_by_text_past_1024' if off > 1024
                              else 'decided_by_text_past_256' if off > 256 else 'decided_by_text_across_256'
                              if off > 239 else 'decided_by_text_before_256')
                    if shape[1]:
                        ctx.probe('decided_by_text_before_long_tail')
                if label == 'limited':
                    ctx.probe('limited_within_five_retried')
                elif label == 'rate_limit':
                    ctx.probe('chained_rate_limit_retried' if kind.startswith('chain') else 'rate_limit_retried')
                elif kind.startswith('chain'):
                    ctx.probe('chained_cause_transient')
                elif kind in ('conn_reset_errno', 'conn_refused_errno') and i + 1 > 5:
                    ctx.probe('transient_and_limited_after_five')

    def check_delay(name, n, t_fail, t_next, base=1000, mx=MAX_DELAY_MS, what='retry'):
        lo, hi = _bounds_ms(n, base, mx)
        el = t_next - t_fail
        if hi < base * (1 << min(n, 30)):
            ctx.probe('delay_capped')
            if lo == hi:
                ctx.probe('delay_pinned_to_max')
        if el < lo / 1000.0 - TOL:
            flag('delay', f'C21/delay_too_short/{what}',
                 f'{name}: waited {el * 1000:.3f} ms after failure {n}; documented range [{lo}, {hi}] ms')
        elif el > mx / 1000.0 + TOL:
            flag('delay', f'C21/delay_above_maximum/{what}',
                 f'{name}: waited {el * 1000:.3f} ms after failure {n}; the maximum is {mx} ms')
        elif el > hi / 1000.0 + TOL:
            flag('delay', f'C21/delay_too_long/{what}',
                 f'{name}: waited {el * 1000:.3f} ms after failure {n}; documented range [{lo}, {hi}] ms')

    async def direct_probes():
        """delay_ms_for_try / sleep_before_try with seeded arguments."""
        s = ctx.stream('direct')
        for _ in range(s.draw(4)):
            tries = s.pick([1, 2, 3, 5, 6, 7, 10, 29, 30, 31, 40, 100])
            base = s.pick([1000, 1, 7, 250, 3000])
            mx = s.pick([MAX_DELAY_MS, 1, 500, 5000, 10 ** 9])
            lo, hi = _bounds_ms(tries, base, mx)
            if s.draw(2) == 0:
                d = U.delay_ms_for_try(tries, base, mx)
                log.add('direct', 'delay_ms_for_try', tries, base, mx, d)
                if not (isinstance(d, int) and lo <= d <= hi):
                    cls = 'delay_above_maximum' if isinstance(d, int) and d > mx else (
                        'delay_too_short' if isinstance(d, int) and d < lo else 'delay_too_long')
                    flag('delay', f'C21/{cls}/delay_ms_for_try',
                         f'delay_ms_for_try({tries}, {base}, {mx}) = {d!r}; documented range [{lo}, {hi}]')
            else:
                if hi > 10 ** 7:
                    continue
                t0 = now()
                await U.sleep_before_try(tries, base, mx)
                log.add('direct', 'sleep_before_try', tries, base, mx)
                check_delay('direct', tries, t0, now(), base, mx, what='sleep_before_try')
            ctx.probe('direct_delay_probe')

    async def canceller():
        s = ctx.stream('cancel')
        await st['call_ev'].wait()
        # aim at the back-off sleeps: they dominate virtual time
        await asyncio.sleep(s.pick([0.3, 0.0, 0.9, 2.5, 7.0, 40.0, 200.0]) + s.ticks(8))
        cur = st['cur']
        if cur is None:
            log.add('canceller', 'idle')
            return
        task, rec, name = cur
        if task.done():
            return
        in_backoff = len(rec['fails']) == len(rec['attempts']) and rec['fails']
        ctx.fault('task.cancel')
        ctx.probe('outer_cancel_during_backoff' if in_backoff else 'outer_cancel_during_attempt')
        rec['cancel'] = (log.add('canceller', 'cancel', name, 'backoff' if in_backoff else 'attempt'), now())
        task.cancel()

    async def main(loop):
        st['call_ev'] = asyncio.Event()
        ct = asyncio.create_task(canceller(), name='canceller') if with_cancel else None
        for k in range(n_calls):
            await asyncio.sleep(cfg.ticks(3))
            await one_call(k)
            if found:
                break
        if not found:
            await direct_probes()
        if ct is not None:
            ct.cancel()
            await asyncio.wait([ct])
            if not ct.cancelled() and ct.exception() is not None:
                raise ct.exception()

    for k2, f in (('randrange', sim_randrange), ('random', sim_random), ('uniform', sim_uniform),
                  ('randint', sim_randint)):
        setattr(_random, k2, f)
    U.time = _TimeProxy()
    try:
        _res, outcome = simulate(ctx, main, max_steps=400_000)
    finally:
        U.time = real_time
        for k2, f in saved.items():
            setattr(_random, k2, f)
        st['closed'] = True
    if found:
        sig, oracle, detail = found[0]
        ctx.violation('C21', oracle, sig, detail)
    if outcome != 'done':
        raise RuntimeError(f'unexpected outcome {outcome}')


def nontrivial(r):
    return r['n_events'] >= 5 and (bool(r['faults']) or bool(r['probes']))
