"""Registry fragment of the asyncprims world (C40's entry and the engine entry live in /verif/checks.py)."""
from checks_common import DST

ENGINE = None  # 'asyncprims' is declared in checks.py

CHECKS = {
    'C16': {
        'level': 'exploration',
        'engine': 'asyncprims',
        'technique': DST + ': (1) seeded job schedules (think/hold times on a 1/1024 s grid, so arrivals, releases and '
                           'wake-ups collide in one loop iteration) against the real FIFOWeightedSemaphore on a '
                           'virtual-time asyncio loop; safety and arrival-order oracles at every acquire return, '
                           'head-of-line liveness at every instant the loop runs out of work; (2) the semaphore in its '
                           'place of use: the real batch worker (worker.py re-executed per run: Worker, DockerJob, '
                           'JVMJob, Container, JVM, JVM pools) receives seeded create / delete requests while its '
                           'operating-system seam (file system, shell commands, crun processes, the JVM side of the '
                           'entryway socket, image pulls, cloud storage, driver end-points) is simulated with seeded '
                           'durations and injected failures; the jobs\' entries into and exits from their '
                           '`async with worker.cpu_sem(...)` body are observed and judged against the capacity, the '
                           'arrival order and worker.cpu_sem.value at every loop step',
        'design_ref': 'DESIGN.md section 6 (C16), section 5.2',
        'level_text': 'Seeded exploration of acquire/hold/release interleavings of the real worker CPU semaphore, used '
                      'through `async with sem(weight)` as the worker does. Sum of held weights is checked at every '
                      'event, return order against invocation order (with a reference FIFO model deciding only whether '
                      'an acquire has already been granted), and the earliest pending acquire must not fit into the '
                      'free capacity whenever the loop is idle and at quiescence. A second scenario explores the '
                      'callers: 2-8 docker and JVM jobs with core requests that fit the worker one by one but not '
                      'together run through the real Worker.create_job / run_job / delete_job, DockerJob.run and '
                      'JVMJob.run with their cleanup and error handlers (job deleted before it starts, while it '
                      'waits for the semaphore, while its container or JVM executes, during cleanup, twice; container '
                      'time-outs, user errors, JVM deaths and reconnects, failing shell commands, uploads and driver '
                      'calls); the cores held by the jobs inside their semaphore block never exceed CORES*1000 mcpu, '
                      'cpu_sem.value stays within [0, capacity] after every loop step, equals capacity minus the '
                      'held cores whenever the loop is idle, and is back at capacity with an empty queue whenever no '
                      'job holds or awaits cores. Samples schedules; not a proof.',
        'level_note': 'Trusts CPython asyncio Event/Task semantics on the custom loop and FIFO ready callbacks; '
                      'capacity <= 12 (16 thorough), <= 6 (8) jobs x <= 3 (4) rounds; no cancellation of waiters '
                      '(outside the quantifier). Worker scenario: worker.py runs for real down to its calls of os / '
                      'shutil / open / tempfile, check_shell*, asyncio.create_subprocess_exec, '
                      'asyncio.open_unix_connection, Image._pull_image, RouterAsyncFS, the cloud worker API, '
                      'ResourceUsageMonitor and the driver HTTP session, which are stand-ins (no docker, crun, JVM, '
                      'network namespaces or cloud are really exercised); aiodocker / aiorwlock / async_timeout are '
                      'fakes; Worker.run (web server, activation, idle shutdown) and worker shutdown are not run; '
                      'the entry into the semaphore block is recognised by the assignment of job.start_time; CORES in '
                      '{1, 2, 4, 8}, <= 8 (10) jobs, <= 2 deletes per job.',
        'scenarios': [{'module': 'worlds.prims.fifosem', 'quick': 150000, 'thorough': 1000000},
                      # the semaphore in its place of use: the worker's job lifecycle (callers of acquire / release)
                      # (~18 ms CPU per run: ~25 s on 16 idle cores; the wall cap only matters on a loaded machine)
                      {'module': 'worlds.worker.cpusem', 'quick': 20000, 'thorough': 160000,
                       'seed_offset': 16_000_000, 'wall_cap': {'quick': 900.0, 'thorough': 3600.0}}],
        'expected_probes': ['waiter_queued', 'waiter_queued_behind_head', 'fastpath_overtakes_granted_waiter',
                            'multi_grant_release', 'exit_by_exception',
                            'job_waited_for_cpu_sem', 'arrival_fits_but_queues_behind_head',
                            'delete_waiting_for_cpu_sem', 'delete_in_body_running', 'delete_twice',
                            'deleted_job_enters_body_after_waiting', 'jvm_final_state_cancelled',
                            'jvm_cancel_request_received', 'jvm_final_state_failed', 'docker_final_state_succeeded',
                            'jvm_run_raised_IncompleteJVMCleanupError', 'docker_run_raised_CalledProcessError'],
    },
    'C24': {
        'level': 'exploration',
        'engine': 'asyncprims',
        'technique': DST + ': seeded arrival times of concurrent entrants on a virtual clock (2^-20 s grid, dyadic '
                           'window lengths, integer epoch: the limiter\'s float arithmetic is exact) against the real '
                           'RateLimiter -- 1 to 3 limiter instances with rate limits of their own alive in one '
                           'process, used concurrently and judged separately --, bodies that raise, cancellation of entries (task.cancel) waiting or in their '
                           'body, event-loop stalls that make sleeps overshoot (loop.stall); sliding-window count '
                           'oracle at every admission, blocked-implies-window-full oracle at every instant before the '
                           'clock advances',
        'design_ref': 'DESIGN.md section 6 (C24), section 5.2',
        'level_text': 'Seeded exploration of arrival patterns (simultaneous bursts, arrivals around the expiry instant, '
                      'idle windows) of up to 8 concurrent tasks entering the real rate limiter under a controlled '
                      'clock. Every admission is checked against the half-open window (t - window, t] on exact loop '
                      'times; at every simulated instant a suspended entrant implies a full trailing window, so late '
                      'admission, lost wake-ups and spinning are violations. Half of the runs keep two or three limiters '
                      'with different counts and windows alive and interleave their entries; each instance is checked '
                      'against its own admissions only, so state shared between instances shows as over-admission or as '
                      'a blocked entrant. Samples schedules; not a proof.',
        'level_note': 'Trusts CPython asyncio sleep/Task semantics on the custom loop; window lengths are multiples of '
                      '1/1024 s (float rounding for other lengths is not explored); <= 3 limiters, count <= 5, <= 8 actors x '
                      '<= 6 entries, <= 3 loop stalls of <= 2 windows per run. The limiter module is re-executed at the '
                      'start of every run so that no state of the class or module survives from one run to the next.',
        'scenarios': [{'module': 'worlds.prims.ratelimit', 'quick': 100000, 'thorough': 700000}],
        'expected_probes': ['limiter_blocked', 'several_blocked', 'admitted_at_exact_expiry',
                            'later_arrival_admitted_first', 'window_full_at_admission', 'body_raised',
                            'cancel_blocked_in_aenter', 'cancel_in_body', 'stall_while_entrant_blocked',
                            'sleep_overshoots', 'several_limiters', 'limiters_with_different_windows',
                            'admission_while_other_limiter_full', 'admission_while_other_limiter_blocks',
                            'other_limiters_entry_outlives_this_window'],
    },
    'C26': {
        'level': 'exploration',
        'engine': 'asyncprims',
        'technique': DST + ': seeded concurrent lookups, load durations and failures, per-lookup cancellation at '
                           'seeded instants (task.cancel) and clock advances around the lifetime against the real '
                           'TimeLimitedMaxSizeCache on a virtual-time asyncio loop; atomic capacity probe passes, '
                           'freshness, single-flight and failure-isolation oracles over the recorded history',
        'design_ref': 'DESIGN.md section 6 (C26), section 5.2',
        'level_text': 'Seeded exploration of interleavings of concurrent lookups of few keys, load completions and '
                      'failures, cancellation of individual lookups (before they run, while they wait for their own or '
                      'somebody else\'s load, in the instant the load completes) and expiry instants, on the real cache '
                      'with the real sortedcontainers. Capacity is decided by atomic probe passes over all keys at '
                      'seeded instants and at the end, freshness by the age of every value a lookup did not load '
                      'itself, single-flight by overlap of load intervals per key, isolation by the outcome of every '
                      'lookup. Samples schedules; not a proof.',
        'level_note': 'Trusts CPython asyncio Task/Future cancellation semantics on the custom loop; prometheus is a '
                      'no-op fake whose time(metric, fut) awaits fut like the real one; num_slots <= 4, <= 6 keys, '
                      '<= 8 actors x <= 7 lookups, lifetimes are even multiples of 1/1024 s.',
        'scenarios': [{'module': 'worlds.prims.tlcache', 'quick': 60000, 'thorough': 450000}],
        'expected_probes': ['hit', 'joined_inflight_load', 'load_failed', 'joined_load_failed', 'eviction',
                            'expired_entry_reloaded', 'probe_pass_full', 'cancel_first_looker',
                            'cancel_first_looker_with_joiners', 'cancel_joiner', 'hit_one_tick_before_expiry'],
    },
}
