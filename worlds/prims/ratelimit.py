"""C24 -- hailtop.utils.rate_limiter.RateLimiter under seeded arrival patterns and a controlled clock.

Real code: RateLimiter / RateLimit, imported from the repository at run time and used as the cloud
sessions use it: `async with limiter: ...`.  The limiter reads `time.time()` (simulated: integer epoch
+ loop time) and sleeps with `asyncio.sleep` (simulated timer).
Actors: K entrant actors doing seeded sequences of think / `async with limiter` / short body.  Per actor a
pace (bursty, about one window, about two windows) decides the think times, so some runs hammer the
limiter with simultaneous arrivals and some let whole windows expire.  Every entry runs in a task of its
own; its body ends normally, raises (p=1/6), or the entry is cancelled (fault task.cancel, p=0.12, by a
timer 0..max(8, window) ticks after the invoke: while it is suspended in `__aenter__` or inside the body).
An admitted entry whose body fails or is cancelled was still admitted and counts; an entry cancelled while
it waits was never admitted and simply leaves.
Fault loop.stall: a staller actor (stream `fault:loop.stall`, 0..3 times per run) makes simulated time
jump forward by 1..2*window ticks inside one callback (a synchronous hog of the event loop); every timer
due in the skipped span -- in particular the limiter's own sleep -- fires late, at the new now.  The kernel
has no public API for that; the scenario advances `loop._now` (on the tick grid).  The oracles use the loop's
real admission instants; an entrant cannot be admitted while the loop is stalled, and the "as soon as
possible" oracle is evaluated only at idle instants, i.e. after the late timers have run.

Exactness: the loop clock lives on a 2^-20 s grid, the window is a multiple of 1/1024 s, the epoch is an
integer < 2^31, so epoch + t, now - window, the remaining-time subtraction and the timer deadline are all
exactly representable doubles (ulp at 1.7e9 is 2^-22 s) -- nothing is rounded anywhere; the oracles use
integer 2^-20 s ticks of the loop clock.

Oracles (from the harness' own invoke / admission events; `_items` is never read):
* rate: for every admission at t the number of admissions in the half-open window (t - window, t] is
  <= count (exact, tolerance 0);
* as soon as possible: at every instant at which the loop has nothing left to run before the clock
  advances (loop.idle_hooks; all wake-ups due at that instant have run) an entrant suspended inside
  `__aenter__` implies that the trailing window (now - window, now] holds `count` admissions (admissions
  that left the window less than 2 ticks ~ 1.9 us ago still count, a tolerance that exact arithmetic never
  needs).  Because every clock advance is preceded by such an instant this is "admitted no later than the
  first instant at which the window has room".  Who gets in first is not asserted.  A limiter that spins
  at one instant without admitting (step cap of 6000 callbacks reached; healthy runs need < 800) is judged
  by the same condition at that instant, without tolerance (the instant is an exact grid point).
* every entrant is admitted eventually (bounded by the run's horizon).

Sensitivity (mutants of hail/python/hailtop/utils/rate_limiter.py in a scratch copy, HAIL_REPO_ROOT; quick budget):
* expiry test `<` instead of `<=`                         -> caught  C24/asap/blocked_with_room_in_window (spins at the expiry instant)
* append before the length check (`<=`), ghost entries    -> caught  C24/asap/blocked_with_room_in_window
* `len(self._items) <= self._count` (admits count+1)      -> caught  C24/rate/more_than_count_in_window
* expiry against `now - window/2`                         -> caught  C24/rate/more_than_count_in_window
* sleeps a whole window instead of the remaining time     -> caught  C24/asap/blocked_with_room_in_window
* never expires (`while` loop removed)                    -> caught  C24/asap/blocked_with_room_in_window (negative sleep: spins)
* `while` -> `if` in the expiry loop                      -> not caught: behaviour-equivalent (the deque never holds more
                                                             than `count` items and one pop is enough to admit)
Seeded changes of the coordinator (tools/run_seeded.py <name> C24, quick):
* C24-1 after the sleep take over the oldest slot unchecked   -> caught  C24/rate/more_than_count_in_window
* C24-2 `now` read once, `now += delay` after the sleep       -> caught  C24/rate/more_than_count_in_window and
                                                                 C24/asap/blocked_with_room_in_window (needs loop.stall:
                                                                 the sleep overshoots, the stale clock stamps too early /
                                                                 sleeps again although the window has room)
* C24-3 `__aexit__` pops the newest stamp when the body raised -> caught  C24/rate/more_than_count_in_window (needs a body that
                                                                 raises or is cancelled and another entry within the window)
"""
import asyncio

from simkit.core import Violation
from worlds.common import simulate

NAME = 'prims.ratelimit'
RULE = ('count 1..5, window 1..24 (thorough 1..64) ticks of 1/1024 s, integer epoch offset, 1..6 (8) entrant actors x '
        '1..4 (6) entries each in a task of its own, per-actor pace: think 0..3 ticks / 0..window / 0..2*window, body '
        '0..4 ticks ending normally or by exception (p=1/6), per-entry cancellation (p=0.12) after 0..max(8,window) '
        'ticks, 0..3 loop stalls of 1..2*window ticks at seeded instants')
COMPONENTS = {
    'hailtop.utils.rate_limiter.RateLimiter': 'real',
    'hailtop.utils.rate_limiter.RateLimit': 'real',
    'time.time / asyncio.sleep': 'simulated clock and timers (SimLoop, 2^-20 s grid, integer epoch)',
    'entrant actors, canceller timers, staller (advances the loop clock)': 'simulator actors',
}
ASSUMPTIONS = ['asyncio.sleep/Task semantics are those of CPython 3.12 running on the simulated loop',
               'window lengths are multiples of 1/1024 s and the epoch is an integer, so the limiter\'s float '
               'arithmetic is exact; float rounding for other window lengths is not explored']

class BodyError(Exception):
    pass


TPS = 1 << 20          # oracle ticks per second (the loop's grid)
ASAP_TOL_TICKS = 2     # ~1.9 us


def _timer_due_now(loop):
    now = loop.time()
    return any((not h._cancelled) and h._when <= now for h in loop._scheduled)  # pylint: disable=protected-access


def run(ctx):
    from simkit import shim
    shim.install()
    from hailtop.utils.rate_limiter import RateLimit, RateLimiter

    wide = ctx.tier == 'thorough'
    cfg = ctx.stream('cfg')
    count = cfg.rint(1, 5)
    window_g = cfg.rint(1, 64 if wide else 24)       # in 1/1024 s
    n_tasks = cfg.rint(1, 8 if wide else 6)
    max_entries = 6 if wide else 4
    epoch = 1_700_000_000.0 + cfg.draw(86_400 * 30)
    window_s = window_g / 1024
    W = window_g * 1024                              # window in 2^-20 s ticks
    log = ctx.log
    st = {'adm': [], 'blocked': {}, 'violation': None, 'n_inv': 0, 'loop': None}

    def fail(oracle, signature, detail):
        v = Violation('C24', oracle, signature, detail)
        if st['violation'] is None:
            st['violation'] = v
            log.add('oracle', 'violation', signature)
        raise st['violation']

    def now_ticks(loop):
        x = loop.time() * TPS
        t = int(round(x))
        assert t == x, ('loop time off the grid', loop.time())
        return t

    def in_window(t, tol=0):
        """admissions a with t - W - tol < a <= t."""
        n = 0
        for a in reversed(st['adm']):
            if a <= t - W - tol:
                break
            n += 1
        return n

    def check_blocked(loop, where):
        if st['violation'] is not None:
            raise st['violation']
        if not st['blocked']:
            return
        if where == 'idle' and _timer_due_now(loop):
            return  # this instant is not over yet
        t = now_ticks(loop)
        n = in_window(t, ASAP_TOL_TICKS)
        if len(st['blocked']) >= 2:
            ctx.probe('several_blocked')
        if n < count:
            who = sorted(st['blocked'])
            log.add('oracle', 'blocked_with_room', who, n, count, where)
            fail('asap', 'C24/asap/blocked_with_room_in_window',
                 f'{where} at t={t / TPS:.6f}: {who} suspended in __aenter__ while only {n} of {count} admissions lie in '
                 f'the trailing window of {window_s} s')

    async def main(loop):
        st['loop'] = loop
        limiter = RateLimiter(RateLimit(count, window_s))

        def stop_on_violation():
            if st['violation'] is not None:
                raise st['violation']

        loop.step_hooks.append(stop_on_violation)
        loop.idle_hooks.append(lambda: check_blocked(loop, 'idle'))

        def admitted(me, inv):
            t = now_ticks(loop)
            waited = loop.steps != inv['step']
            st['blocked'].pop(me, None)
            st['adm'].append(t)
            n = in_window(t)
            log.add(me, 'admitted', n, 'waited' if waited else 'at_once')
            if n > count:
                first = st['adm'][-n]
                fail('rate', 'C24/rate/more_than_count_in_window',
                     f'admission at t={t / TPS:.6f} is number {n} in ({(t - W) / TPS:.6f}, {t / TPS:.6f}] '
                     f'(oldest at {first / TPS:.6f}); count={count} window={window_s} s')
            if n == count:
                ctx.probe('window_full_at_admission')
            if waited:
                ctx.probe('limiter_blocked')
                if len(st['adm']) > count and st['adm'][-count - 1] + W == t:
                    ctx.probe('admitted_at_exact_expiry')
                if inv['overtaken']:
                    ctx.probe('later_arrival_admitted_first')
            for other in st['blocked'].values():
                if other['id'] < inv['id']:
                    other['overtaken'] = True

        async def entry(me, inv, hold, raises):
            # one `async with limiter:` in a task of its own, so that it can be cancelled alone
            st['n_inv'] += 1
            inv['id'] = st['n_inv']
            inv['step'] = loop.steps
            inv['phase'] = 'aenter'
            log.add(me, 'enter_invoke')
            st['blocked'][me] = inv
            try:
                async with limiter:
                    inv['phase'] = 'body'
                    admitted(me, inv)
                    await asyncio.sleep(hold)
                    if raises:
                        ctx.probe('body_raised')
                        log.add(me, 'body_raises')
                        raise BodyError()
                inv['phase'] = 'done'
            except BodyError:
                inv['phase'] = 'done'
            except asyncio.CancelledError:
                if not inv['cancelled']:
                    raise RuntimeError(f'{me}: CancelledError although nobody cancelled this entry') from None
                # an entry cancelled while it waits in __aenter__ was never admitted and leaves; one cancelled in
                # its body was admitted and counts
                st['blocked'].pop(me, None)
                log.add(me, 'cancelled_in', inv['phase'])
                inv['phase'] = 'done'

        def do_cancel(me, inv, sub):
            if sub.done():
                return
            inv['cancelled'] = True
            ctx.fault('task.cancel')
            ctx.probe({'new': 'cancel_before_start', 'aenter': 'cancel_blocked_in_aenter',
                       'body': 'cancel_in_body'}.get(inv['phase'], 'cancel_other'))
            log.add('canceller', 'cancel', me, inv['phase'])
            sub.cancel()

        async def entrant(i):
            s = ctx.stream(f'task{i}')
            c = ctx.stream(f'cancel:{i}')
            me = f'e{i}'
            n_entries = s.rint(1, max_entries)
            pace = s.draw(3)
            think_max = (3, window_g, 2 * window_g)[pace]
            for _ in range(n_entries):
                await asyncio.sleep(s.ticks(think_max))
                hold = s.ticks(4)
                raises = s.draw(6) == 5
                inv = {'id': None, 'step': None, 'overtaken': False, 'cancelled': False, 'phase': 'new'}
                sub = asyncio.create_task(entry(me, inv, hold, raises), name=me)
                if c.chance(0.12):
                    loop.call_later(c.ticks(max(8, window_g)), do_cancel, me, inv, sub)
                await asyncio.wait({sub})
                if not sub.cancelled() and sub.exception() is not None:
                    raise sub.exception()

        async def staller():
            # fault loop.stall: something hogs the event loop; simulated time jumps forward by a seeded number of
            # 1/1024 s ticks inside one callback, every timer due in the skipped span fires late (at the new now)
            s = ctx.stream('fault:loop.stall')
            for _ in range(s.weighted([3, 2, 1, 1])):
                await asyncio.sleep(s.ticks(2 * window_g))
                jump_g = s.rint(1, 2 * window_g)
                t0 = now_ticks(loop)
                loop._now = loop.quantize(loop._now + jump_g / 1024)  # pylint: disable=protected-access
                t1 = now_ticks(loop)
                assert t1 - t0 == jump_g * 1024
                ctx.fault('loop.stall')
                log.add('staller', 'stall', jump_g)
                if st['blocked']:
                    ctx.probe('stall_while_entrant_blocked')
                    if len(st['adm']) >= count and st['adm'][-count] + W < t1:
                        # the sleep of a blocked entrant ends inside the skipped span: it wakes later than asked
                        ctx.probe('sleep_overshoots')

        tasks = [asyncio.create_task(entrant(i), name=f'a{i}') for i in range(n_tasks)]
        tasks.append(asyncio.create_task(staller(), name='staller'))
        horizon = (n_tasks * max_entries + 2) * (3 * window_s + 1.0)
        done, pending = await asyncio.wait(tasks, timeout=horizon)
        if st['violation'] is not None:
            raise st['violation']
        for t in done:
            if t.exception() is not None:
                raise t.exception()
        if pending:
            check_blocked(loop, 'horizon')
            raise RuntimeError(f'entrants never finished: {sorted(t.get_name() for t in pending)}')
        log.add('oracle', 'all_admitted', len(st['adm']))

    _res, outcome = simulate(ctx, main, max_steps=6_000, epoch=epoch)
    if outcome == 'cap':
        # the loop ran 6000 callbacks (the largest healthy run needs ~700): somebody spins.  The spinner sits at one
        # exact instant of the grid, so no tolerance here.
        if st['violation'] is not None:
            raise st['violation']
        log.add('oracle', 'step_cap', sorted(st['blocked']))
        if st['blocked']:
            t = int(round(ctx.sim_time * TPS))
            n = in_window(t)
            if n < count:
                fail('asap', 'C24/asap/blocked_with_room_in_window',
                     f'spinning at t={t / TPS:.6f}: {sorted(st["blocked"])} never leave __aenter__ while only {n} of '
                     f'{count} admissions lie in the trailing window of {window_s} s')
        raise RuntimeError('step cap reached but no entrant is blocked with room in the window')
    if outcome != 'done':
        raise RuntimeError(f'unexpected outcome {outcome}')
    ctx.extra['admissions'] = len(st['adm'])


def nontrivial(r):
    return r['probes'].get('limiter_blocked', 0) > 0
