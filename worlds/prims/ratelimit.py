"""C24 -- hailtop.utils.rate_limiter.RateLimiter under seeded arrival patterns and a controlled clock.

Real code: RateLimiter / RateLimit, imported from the repository at run time and used as the cloud
sessions use it: `async with limiter: ...`.  The limiter reads `time.time()` (simulated: integer epoch
+ loop time) and sleeps with `asyncio.sleep` (simulated timer).
Limiters: 1 (the boring choice), 2 or 3 RateLimiter instances alive in the same process and loop, each with a
RateLimit (count 1..5, window) of its own drawn from a stream of its own (`limiter<j>`), as two rate-limited cloud
clients of one process have them.  Every actor has a home limiter and enters, per entry, its home limiter or a seeded
other one, so entries of different limiters interleave: one limiter is full while another admits, a short-window
limiter is entered after its own window has elapsed while a long-window one still holds recent admissions.  Every
instance is judged separately, by the oracles below, over its own admission history.
Run isolation: the module body of hailtop/utils/rate_limiter.py is re-executed in the module's namespace at the start
of every run (importlib.reload with the compiled code cached per worker), so class-level or module-level state of the
limiter cannot leak from one run of a worker process into the next; a run is a function of its choices and replays in
a fresh interpreter.  (Without it a limiter that keeps state on the class made sweeps irreproducible: found with the
seeded change C24-6.)
Actors: K entrant actors doing seeded sequences of think / `async with limiter` / short body.  Per actor a
pace (bursty, about one window, about two windows) decides the think times, so some runs hammer the
limiter with simultaneous arrivals and some let whole windows expire.  Every entry runs in a task of its
own; its body ends normally, raises (p=1/6), or the entry is cancelled (fault task.cancel, p=0.12, by a
timer 0..max(8, window) ticks after the invoke: while it is suspended in `__aenter__` or inside the body).
An admitted entry whose body fails or is cancelled was still admitted and counts; an entry cancelled while
it waits was never admitted and simply leaves.
Fault loop.stall: a staller actor (stream `fault:loop.stall`, 0..3 times per run) makes simulated time
jump forward by 1..2*window ticks inside one callback (a synchronous hog of the event loop); every timer
due in the skipped span -- in particular the limiter's own sleep -- fires late, at the new now.  The kernel
has no public API for that; the scenario advances `loop._now` (on the tick grid).  The oracles use the loop's
real admission instants; an entrant cannot be admitted while the loop is stalled, and the "as soon as
possible" oracle is evaluated only at idle instants, i.e. after the late timers have run.

Exactness: the loop clock lives on a 2^-20 s grid, the window is a multiple of 1/1024 s, the epoch is an
integer < 2^31, so epoch + t, now - window, the remaining-time subtraction and the timer deadline are all
exactly representable doubles (ulp at 1.7e9 is 2^-22 s) -- nothing is rounded anywhere; the oracles use
integer 2^-20 s ticks of the loop clock.

Oracles (from the harness' own invoke / admission events; `_items` is never read):
* rate: for every admission at t the number of admissions in the half-open window (t - window, t] is
  <= count (exact, tolerance 0);
* as soon as possible: at every instant at which the loop has nothing left to run before the clock
  advances (loop.idle_hooks; all wake-ups due at that instant have run) an entrant suspended inside
  `__aenter__` implies that the trailing window (now - window, now] holds `count` admissions (admissions
  that left the window less than 2 ticks ~ 1.9 us ago still count, a tolerance that exact arithmetic never
  needs).  Because every clock advance is preceded by such an instant this is "admitted no later than the
  first instant at which the window has room".  Who gets in first is not asserted.  A limiter that spins
  at one instant without admitting (step cap of 6000 callbacks reached; healthy runs need < 800) is judged
  by the same condition at that instant, without tolerance (the instant is an exact grid point).
* every entrant is admitted eventually (bounded by the run's horizon).

Sensitivity (mutants of hail/python/hailtop/utils/rate_limiter.py in a scratch copy, HAIL_REPO_ROOT; quick budget):
* expiry test `<` instead of `<=`                         -> caught  C24/asap/blocked_with_room_in_window (spins at the expiry instant)
* append before the length check (`<=`), ghost entries    -> caught  C24/asap/blocked_with_room_in_window
* `len(self._items) <= self._count` (admits count+1)      -> caught  C24/rate/more_than_count_in_window
* expiry against `now - window/2`                         -> caught  C24/rate/more_than_count_in_window
* sleeps a whole window instead of the remaining time     -> caught  C24/asap/blocked_with_room_in_window
* never expires (`while` loop removed)                    -> caught  C24/asap/blocked_with_room_in_window (negative sleep: spins)
* `while` -> `if` in the expiry loop                      -> not caught: behaviour-equivalent (the deque never holds more
                                                             than `count` items and one pop is enough to admit)
Seeded changes of the coordinator (tools/run_seeded.py <name> C24, quick):
* C24-1 after the sleep take over the oldest slot unchecked   -> caught  C24/rate/more_than_count_in_window
* C24-2 `now` read once, `now += delay` after the sleep       -> caught  C24/rate/more_than_count_in_window and
                                                                 C24/asap/blocked_with_room_in_window (needs loop.stall:
                                                                 the sleep overshoots, the stale clock stamps too early /
                                                                 sleeps again although the window has room)
* C24-3 `__aexit__` pops the newest stamp when the body raised -> caught  C24/rate/more_than_count_in_window (needs a body that
                                                                 raises or is cancelled and another entry within the window)
* C24-6 the stamp deque is a class attribute (shared by all   -> caught  C24/asap/blocked_with_room_in_window (a limiter
        limiters of the process)                                 counts the other's stamps) and C24/rate/more_than_count_in_window
                                                                 (the short-window limiter sweeps the other's stamps away).
                                                                 Needs two limiters in one run.  The first version of this
                                                                 scenario had one limiter per run and no run isolation: the
                                                                 shared deque survived from run to run inside a worker, the
                                                                 violations it produced did not replay (harness error).
"""
import asyncio

from simkit.core import Violation
from worlds.common import simulate

NAME = 'prims.ratelimit'
RULE = ('1..3 limiter instances per run, each with count 1..5 and window 1..24 (thorough 1..64) ticks of 1/1024 s of its '
        'own, used concurrently (home limiter per actor, seeded other limiter per entry) and judged separately; '
        'integer epoch offset, 1..6 (8) entrant actors x '
        '1..4 (6) entries each in a task of its own, per-actor pace: think 0..3 ticks / 0..window / 0..2*window, body '
        '0..4 ticks ending normally or by exception (p=1/6), per-entry cancellation (p=0.12) after 0..max(8,window) '
        'ticks, 0..3 loop stalls of 1..2*window ticks at seeded instants')
COMPONENTS = {
    'hailtop.utils.rate_limiter.RateLimiter': 'real',
    'hailtop.utils.rate_limiter.RateLimit': 'real',
    'hailtop.utils.rate_limiter (module state)': 'real; module body re-executed at the start of every run (run isolation)',
    'time.time / asyncio.sleep': 'simulated clock and timers (SimLoop, 2^-20 s grid, integer epoch)',
    'entrant actors, canceller timers, staller (advances the loop clock)': 'simulator actors',
}
ASSUMPTIONS = ['asyncio.sleep/Task semantics are those of CPython 3.12 running on the simulated loop',
               'window lengths are multiples of 1/1024 s and the epoch is an integer, so the limiter\'s float '
               'arithmetic is exact; float rounding for other window lengths is not explored']

class BodyError(Exception):
    pass


TPS = 1 << 20          # oracle ticks per second (the loop's grid)
ASAP_TOL_TICKS = 2     # ~1.9 us


def _timer_due_now(loop):
    now = loop.time()
    return any((not h._cancelled) and h._when <= now for h in loop._scheduled)  # pylint: disable=protected-access


_CODE = {}


def _fresh_rate_limiter_module():
    """Re-executes the module body of the live tree's hailtop/utils/rate_limiter.py in the module's own namespace
    (what importlib.reload does, with the compiled code cached per worker process), so that every run gets new class
    objects: process-level state of the limiter (class attributes, module globals) cannot leak from one run of a worker
    into the next, and a run stays a function of its choices (replayable in a fresh interpreter)."""
    import hailtop.utils.rate_limiter as mod
    path = mod.__spec__.origin
    code = _CODE.get(path)
    if code is None:
        with open(path, 'rb') as f:
            code = _CODE[path] = compile(f.read(), path, 'exec')
    exec(code, mod.__dict__)  # pylint: disable=exec-used
    return mod


class _Lim:
    """harness-side record of one limiter instance: its parameters and its own admission history."""

    def __init__(self, idx, count, window_g):
        self.idx = idx
        self.count = count
        self.window_g = window_g              # in 1/1024 s
        self.window_s = window_g / 1024
        self.W = window_g * 1024              # window in 2^-20 s ticks
        self.adm = []
        self.blocked = {}
        self.limiter = None

    def in_window(self, t, tol=0):
        """admissions a of this limiter with t - W - tol < a <= t."""
        n = 0
        for a in reversed(self.adm):
            if a <= t - self.W - tol:
                break
            n += 1
        return n


def run(ctx):
    from simkit import shim
    shim.install()
    rl = _fresh_rate_limiter_module()
    RateLimit, RateLimiter = rl.RateLimit, rl.RateLimiter

    wide = ctx.tier == 'thorough'
    cfg = ctx.stream('cfg')
    count = cfg.rint(1, 5)
    max_window_g = 64 if wide else 24
    window_g = cfg.rint(1, max_window_g)             # in 1/1024 s
    n_tasks = cfg.rint(1, 8 if wide else 6)
    max_entries = 6 if wide else 4
    epoch = 1_700_000_000.0 + cfg.draw(86_400 * 30)
    # further limiter instances alive in the same process (two rate-limited cloud clients), each with a RateLimit of
    # its own; 0 = the single limiter
    n_lim = 1 + cfg.weighted([5, 3, 2])
    lims = [_Lim(0, count, window_g)]
    for j in range(1, n_lim):
        ls = ctx.stream(f'limiter{j}')
        lims.append(_Lim(j, ls.rint(1, 5), ls.rint(1, max_window_g)))
    big_g = max(L.window_g for L in lims)
    log = ctx.log
    st = {'violation': None, 'n_inv': 0, 'loop': None}
    if n_lim > 1:
        ctx.probe('several_limiters')
        if len({L.window_g for L in lims}) > 1:
            ctx.probe('limiters_with_different_windows')
        log.add('cfg', 'limiters', tuple((L.count, L.window_g) for L in lims))

    def fail(oracle, signature, detail):
        if n_lim > 1:
            detail += '; limiters alive in this process (count, window s): ' + \
                ', '.join(f'#{L.idx}=({L.count}, {L.window_s})' for L in lims)
        v = Violation('C24', oracle, signature, detail)
        if st['violation'] is None:
            st['violation'] = v
            log.add('oracle', 'violation', signature)
        raise st['violation']

    def now_ticks(loop):
        x = loop.time() * TPS
        t = int(round(x))
        assert t == x, ('loop time off the grid', loop.time())
        return t

    def check_blocked(loop, where):
        if st['violation'] is not None:
            raise st['violation']
        if not any(L.blocked for L in lims):
            return
        if where == 'idle' and _timer_due_now(loop):
            return  # this instant is not over yet
        t = now_ticks(loop)
        for L in lims:
            if not L.blocked:
                continue
            n = L.in_window(t, ASAP_TOL_TICKS)
            if len(L.blocked) >= 2:
                ctx.probe('several_blocked')
            if n < L.count:
                who = sorted(L.blocked)
                log.add('oracle', 'blocked_with_room', L.idx, who, n, L.count, where)
                fail('asap', 'C24/asap/blocked_with_room_in_window',
                     f'{where} at t={t / TPS:.6f}: {who} suspended in __aenter__ of limiter #{L.idx} while only {n} of '
                     f'{L.count} of its admissions lie in the trailing window of {L.window_s} s')

    async def main(loop):
        st['loop'] = loop
        for L in lims:
            L.limiter = RateLimiter(RateLimit(L.count, L.window_s))

        def stop_on_violation():
            if st['violation'] is not None:
                raise st['violation']

        loop.step_hooks.append(stop_on_violation)
        loop.idle_hooks.append(lambda: check_blocked(loop, 'idle'))

        def admitted(me, inv, L):
            t = now_ticks(loop)
            waited = loop.steps != inv['step']
            L.blocked.pop(me, None)
            L.adm.append(t)
            n = L.in_window(t)
            if n_lim > 1:
                log.add(me, 'admitted', n, 'waited' if waited else 'at_once', L.idx)
            else:
                log.add(me, 'admitted', n, 'waited' if waited else 'at_once')
            if n > L.count:
                first = L.adm[-n]
                fail('rate', 'C24/rate/more_than_count_in_window',
                     f'admission at t={t / TPS:.6f} is number {n} in ({(t - L.W) / TPS:.6f}, {t / TPS:.6f}] of limiter '
                     f'#{L.idx} (oldest at {first / TPS:.6f}); count={L.count} window={L.window_s} s')
            if n == L.count:
                ctx.probe('window_full_at_admission')
            if waited:
                ctx.probe('limiter_blocked')
                if len(L.adm) > L.count and L.adm[-L.count - 1] + L.W == t:
                    ctx.probe('admitted_at_exact_expiry')
                if inv['overtaken']:
                    ctx.probe('later_arrival_admitted_first')
            for other in L.blocked.values():
                if other['id'] < inv['id']:
                    other['overtaken'] = True
            for M in lims:
                if M is L:
                    continue
                if M.blocked:
                    ctx.probe('admission_while_other_limiter_blocks')
                m = M.in_window(t)
                if m >= M.count:
                    ctx.probe('admission_while_other_limiter_full')
                if m and M.W > L.W and any(t - M.W < a <= t - L.W for a in M.adm[-m:]):
                    # an admission of the other limiter that is older than this limiter's window and still inside
                    # that limiter's own window
                    ctx.probe('other_limiters_entry_outlives_this_window')

        async def entry(me, inv, hold, raises, L):
            # one `async with limiter:` in a task of its own, so that it can be cancelled alone
            limiter = L.limiter
            st['n_inv'] += 1
            inv['id'] = st['n_inv']
            inv['step'] = loop.steps
            inv['phase'] = 'aenter'
            if n_lim > 1:
                log.add(me, 'enter_invoke', L.idx)
            else:
                log.add(me, 'enter_invoke')
            L.blocked[me] = inv
            try:
                async with limiter:
                    inv['phase'] = 'body'
                    admitted(me, inv, L)
                    await asyncio.sleep(hold)
                    if raises:
                        ctx.probe('body_raised')
                        log.add(me, 'body_raises')
                        raise BodyError()
                inv['phase'] = 'done'
            except BodyError:
                inv['phase'] = 'done'
            except asyncio.CancelledError:
                if not inv['cancelled']:
                    raise RuntimeError(f'{me}: CancelledError although nobody cancelled this entry') from None
                # an entry cancelled while it waits in __aenter__ was never admitted and leaves; one cancelled in
                # its body was admitted and counts
                L.blocked.pop(me, None)
                log.add(me, 'cancelled_in', inv['phase'])
                inv['phase'] = 'done'

        def do_cancel(me, inv, sub):
            if sub.done():
                return
            inv['cancelled'] = True
            ctx.fault('task.cancel')
            ctx.probe({'new': 'cancel_before_start', 'aenter': 'cancel_blocked_in_aenter',
                       'body': 'cancel_in_body'}.get(inv['phase'], 'cancel_other'))
            log.add('canceller', 'cancel', me, inv['phase'])
            sub.cancel()

        async def entrant(i):
            s = ctx.stream(f'task{i}')
            c = ctx.stream(f'cancel:{i}')
            me = f'e{i}'
            n_entries = s.rint(1, max_entries)
            pace = s.draw(3)
            # with several limiters: a home limiter per actor, and per entry a seeded choice between the home limiter
            # (0) and any of them
            home = lims[s.draw(n_lim)] if n_lim > 1 else lims[0]
            for _ in range(n_entries):
                L = home
                if n_lim > 1 and s.draw(2):
                    L = lims[s.draw(n_lim)]
                think_max = (3, L.window_g, 2 * L.window_g)[pace]
                await asyncio.sleep(s.ticks(think_max))
                hold = s.ticks(4)
                raises = s.draw(6) == 5
                inv = {'id': None, 'step': None, 'overtaken': False, 'cancelled': False, 'phase': 'new'}
                sub = asyncio.create_task(entry(me, inv, hold, raises, L), name=me)
                if c.chance(0.12):
                    loop.call_later(c.ticks(max(8, L.window_g)), do_cancel, me, inv, sub)
                await asyncio.wait({sub})
                if not sub.cancelled() and sub.exception() is not None:
                    raise sub.exception()

        async def staller():
            # fault loop.stall: something hogs the event loop; simulated time jumps forward by a seeded number of
            # 1/1024 s ticks inside one callback, every timer due in the skipped span fires late (at the new now)
            s = ctx.stream('fault:loop.stall')
            for _ in range(s.weighted([3, 2, 1, 1])):
                await asyncio.sleep(s.ticks(2 * big_g))
                jump_g = s.rint(1, 2 * big_g)
                t0 = now_ticks(loop)
                loop._now = loop.quantize(loop._now + jump_g / 1024)  # pylint: disable=protected-access
                t1 = now_ticks(loop)
                assert t1 - t0 == jump_g * 1024
                ctx.fault('loop.stall')
                log.add('staller', 'stall', jump_g)
                for L in lims:
                    if L.blocked:
                        ctx.probe('stall_while_entrant_blocked')
                        if len(L.adm) >= L.count and L.adm[-L.count] + L.W < t1:
                            # the sleep of a blocked entrant ends inside the skipped span: it wakes later than asked
                            ctx.probe('sleep_overshoots')

        tasks = [asyncio.create_task(entrant(i), name=f'a{i}') for i in range(n_tasks)]
        tasks.append(asyncio.create_task(staller(), name='staller'))
        horizon = (n_tasks * max_entries + 2) * (3 * big_g / 1024 + 1.0)
        done, pending = await asyncio.wait(tasks, timeout=horizon)
        if st['violation'] is not None:
            raise st['violation']
        for t in done:
            if t.exception() is not None:
                raise t.exception()
        if pending:
            check_blocked(loop, 'horizon')
            raise RuntimeError(f'entrants never finished: {sorted(t.get_name() for t in pending)}')
        log.add('oracle', 'all_admitted', sum(len(L.adm) for L in lims))

    _res, outcome = simulate(ctx, main, max_steps=6_000, epoch=epoch)
    if outcome == 'cap':
        # the loop ran 6000 callbacks (the largest healthy run needs ~700): somebody spins.  The spinner sits at one
        # exact instant of the grid, so no tolerance here.
        if st['violation'] is not None:
            raise st['violation']
        log.add('oracle', 'step_cap', tuple(tuple(sorted(L.blocked)) for L in lims))
        t = int(round(ctx.sim_time * TPS))
        for L in lims:
            if L.blocked:
                n = L.in_window(t)
                if n < L.count:
                    fail('asap', 'C24/asap/blocked_with_room_in_window',
                         f'spinning at t={t / TPS:.6f}: {sorted(L.blocked)} never leave __aenter__ of limiter #{L.idx} '
                         f'while only {n} of {L.count} of its admissions lie in the trailing window of {L.window_s} s')
        raise RuntimeError('step cap reached but no entrant is blocked with room in the window')
    if outcome != 'done':
        raise RuntimeError(f'unexpected outcome {outcome}')
    ctx.extra['admissions'] = sum(len(L.adm) for L in lims)


def nontrivial(r):
    return r['probes'].get('limiter_blocked', 0) > 0
