"""C20 -- bounded-parallelism gather helpers of hailtop.utils under seeded completion orders, failures and cancellation.

Real code (imported from the repository at run time): bounded_gather, bounded_gather2,
bounded_gather2_return_exceptions, bounded_gather2_raise_exceptions, OnlineBoundedGather2 (call / wait /
__aexit__), WithoutSemaphore, PoolShutdownError.

A run: one asyncio.Semaphore(n), n in 1..4, used by 1..3 sequential *phases* (so that what an earlier call did to
the semaphore is visible to the next one).  A phase is one call of one of the helpers with 0..8 instrumented
thunks.  The caller either follows the repository's calling convention (it holds one permit of the semaphore
around the call, "held") or calls the helper on a fresh semaphore without holding it ("unheld", which is what
`bounded_gather` itself and hail/python/test/hailtop/test_aiogoogle.py do).  Thunks sleep a seeded number of
1/1024 s ticks, then return a token, raise ThunkError, raise CancelledError themselves, or run a *nested* call on
the same semaphore (bounded_gather2 / pool.call + pool.wait) and give their permit up while they wait, exactly as
the copier does.  A thunk may need extra ticks of clean-up after it has seen a CancelledError.  For
OnlineBoundedGather2 a body actor issues `pool.call`, `pool.wait(subset)` and may raise BodyError or swallow
PoolShutdownError.  A canceller actor cancels the task running the call ("outer cancel") or an individual
OnlineBoundedGather2 background task at seeded instants.

Oracles (the documented contract, DESIGN.md section 6 C20):
  bound         at every thunk start / resume: thunks that run (started, not ended, not parked in a nested call
                that gave its permit up) <= n.  Recorded when first seen and reported at the end of the run unless
                an outcome oracle fires first (the run stays meaningful after an excess).
  order/value   a call that returns, returns the thunks' tokens in submission order; return_exceptions returns
                (token, None) / (None, exc) in place for every thunk, with the very exception object.
  first         a call that raises (and was not cancelled from outside) raises the exception object of the first
                thunk failure by event order; failures at the same simulated instant are treated as tied and either
                is accepted (asyncio.gather reports the first child whose done-callback runs).
  cancel_on_error=True   when the call raises: nothing of the call is running when it returns, no thunk starts
                after the failure instant, and no thunk runs to a natural end at a later instant (it must have
                seen CancelledError).
  cancel_on_error=False  the remaining thunks all start, none sees a CancelledError, all end (documented:
                "the remaining partial functions continue to run with bounded parallelism"); they are NOT
                reported as left-over work.
  online        the `async with` block is left only when no thunk of the pool is running and none starts later;
                it raises the first exception (background failure or exception raised into the exit; ties at one
                instant accepted) and returns normally iff there was none; `call` strictly after a background
                failure raises PoolShutdownError and never raises it without a preceding failure; an individually
                cancelled (or self-cancelling) background task shuts nothing down: no other thunk sees a
                CancelledError without a cause.
  outer cancel  only the bound and liveness (every started thunk ends) -- the docstrings are silent.
  liveness      the call returns; after draining the loop no thunk is alive.

Signatures seen on the unchanged tree (genuine; each reproduced on a plain asyncio loop outside the simulator):
  C20/over_bound/caller_not_holding/<api>   WithoutSemaphore.__aenter__ releases a permit the caller never
        acquired: bounded_gather(parallelism=n) runs n+1 thunks at once; same for bounded_gather2 /
        OnlineBoundedGather2 called on a fresh Semaphore(n) by a caller that holds no permit.
  C20/over_bound/after_error   WithoutSemaphore.__aexit__ does not re-acquire when an exception (or a
        cancellation) passes through and the enclosing `async with sema` releases again: every failed call
        inflates the semaphore by one permit for whoever uses it next (next call, nested use).
  C20/cancel_on_error/remaining_work_not_cancelled, C20/cancel_on_error/returned_before_cancelled_thunks_finished
        the clean-up loop of bounded_gather2_raise_exceptions re-raises at the first failed task it meets, so tasks
        submitted after it are never cancelled and nothing is awaited.
  C20/online/exit_with_running_thunk/failure_path   _shutdown sets the done event right after requesting the
        cancellations, so __aexit__ returns while cancelled background tasks are still unwinding.
  C20/online/exit_hangs/task_cancelled_before_it_ran   a pool task cancelled before its first step never runs
        run_and_cleanup, stays in _pending, and __aexit__ waits forever.

Sensitivity.  Because the unchanged tree already fails, mutants were applied (HAIL_REPO_ROOT=/tmp/x, scratch copy,
deleted afterwards) to a *repaired* copy (bounded_gather holds a permit of its own semaphore; WithoutSemaphore
always re-acquires; cancel_on_error cancels every unfinished task and waits inside one WithoutSemaphore block;
__aexit__ waits for the tasks _shutdown cancelled; _pending clean-up in a done callback).  The repaired copy is
green on 45 000 seeds (quick and thorough bounds) with params {'allow_unheld': False}; each repair alone removes
exactly its own signature(s).  6000 seeds per mutant, all caught:
  M1  WithoutSemaphore releases twice                      C20/over_bound/plain
  M2  WithoutSemaphore never re-acquires                   C20/over_bound/plain, after_error
  M3  results in completion order                          C20/gather/result_not_in_submission_order
  M4  cancel_on_error does not cancel                      C20/cancel_on_error/remaining_work_not_cancelled
  M5  cancel_on_error cancels but does not wait            C20/cancel_on_error/returned_before_cancelled_thunks_finished
  M6  pool exit does not wait on the normal path           C20/online/exit_with_running_thunk/normal_path
  M7  background failure does not shut the pool down       C20/online/call_accepted_after_failure
  M8  an individually cancelled task shuts the pool down   C20/online/call_raised_shutdown_without_failure, C20/spurious_cancel/online
  M9  return_exceptions returns (None, None) for failures  C20/gather/return_exceptions_entry_wrong
  M10 raise the last failure instead of the first          C20/gather/raised_not_first_failure
  M11 pool exit raises the latest exception                C20/online/exit_exception_not_first
  M12 first thunk bypasses the semaphore                   C20/over_bound/plain
  M13 pool.call after shutdown silently accepted           C20/online/call_accepted_after_failure
  M14 bounded_gather ignores `parallelism`                 C20/over_bound/plain
M3, M6..M11, M13 were also applied to the unchanged tree and raise the same new signatures there.

Harness history: the first thorough sweep (1.2 M runs) raised C20/spurious_cancel/no_cancel_on_error 4 times -- an
oracle bug, not a defect: an outer cancel of the enclosing call arriving in the very loop iteration in which a leaf
of a nested call fails reaches the nested gather's children although the nested call itself still raises the
leaf's error.  causes_before()/post_drain() now follow the enclosing call chain; 1.5 M thorough runs on the
unchanged tree then show only the eight signatures above, 1.5 M on the repaired copy none.

params: {'allow_unheld': False} restricts bounded_gather2 / OnlineBoundedGather2 to callers that hold a permit (use
it once the helpers document that precondition); bounded_gather is always generated.
"""
import asyncio

from worlds.common import TICK, simulate

NAME = 'prims.gather'
RULE = ('semaphore bound 1..4; 1..3 sequential calls on it, each one of bounded_gather / bounded_gather2 / '
        'bounded_gather2_return_exceptions / bounded_gather2_raise_exceptions(cancel_on_error) / OnlineBoundedGather2 '
        'with 0..8 thunks (quick; 0..12 thorough) of 0..12 ticks that succeed, raise, self-cancel, need clean-up time '
        'after a cancellation or run a nested call on the same semaphore; caller holds a permit or not; 0..2 '
        'cancellations (outer call or individual pool task) at seeded instants')
COMPONENTS = {
    'hailtop.utils.utils.bounded_gather': 'real',
    'hailtop.utils.utils.bounded_gather2': 'real',
    'hailtop.utils.utils.bounded_gather2_return_exceptions': 'real',
    'hailtop.utils.utils.bounded_gather2_raise_exceptions': 'real',
    'hailtop.utils.utils.OnlineBoundedGather2': 'real',
    'hailtop.utils.utils.WithoutSemaphore': 'real',
    'asyncio.Semaphore / asyncio.gather / asyncio.wait': 'real (CPython 3.12) on the simulated loop',
    'asyncio event loop / clock': 'simulated (SimLoop, virtual time)',
    'thunks, pool body, caller, canceller': 'simulator actors',
}
ASSUMPTIONS = ['asyncio.Semaphore/gather/wait/Task semantics are those of CPython 3.12 running on the simulated loop',
               'ready callbacks run FIFO as documented for call_soon',
               'thunks re-raise CancelledError after their clean-up (they never swallow a cancellation)']

OK, RAISE, NESTED, SELFC = 0, 1, 2, 3


class ThunkError(Exception):
    pass


class BodyError(Exception):
    pass


class _Thunk:
    __slots__ = ('name', 'idx', 'kind', 'd', 'd2', 'cleanup', 'nested', 'value', 'start', 'end', 'outcome', 'exc',
                 'saw_cancel', 'indiv_cancel', 'task')

    def __init__(self, name, idx):
        self.name = name
        self.idx = idx
        self.kind = OK
        self.d = 0.0
        self.d2 = 0.0
        self.cleanup = 0.0
        self.nested = None
        self.value = ('v', name)
        self.start = None  # (seq, t)
        self.end = None
        self.outcome = None  # ok | raise | cancelled | selfcancel
        self.exc = None
        self.saw_cancel = None
        self.indiv_cancel = None  # (seq, t) of an individual cancel request
        self.task = None


class _Call:
    """one invocation of a helper (top level or nested)."""

    def __init__(self, name, family, n, level):
        self.name = name
        self.family = family  # bg | bg2 | bg2x | online
        self.n = n
        self.level = level
        self.re = False
        self.coe = False
        self.held = True
        self.thunks = []
        self.invoke = None
        self.ret = None  # (seq, t)
        self.outcome = None  # ok | raise | cancelled
        self.exc = None
        self.result = None
        self.alive_at_return = []
        self.failures = []  # thunks that ended with a non-cancellation exception, in event order
        self.body_exc = None  # (seq, t, exc)   online: exception raised into the exit by the body
        self.outer_cancel = None  # (seq, t) request by the canceller (top level only)
        self.tasks = []  # online: (thunk, task)
        self.parent_thunk = None
        self.parent_call = None

    def alive(self):
        return [th.name for th in self.thunks if th.start is not None and th.end is None]


class _Sx:
    """what the oracle knows about one semaphore."""

    def __init__(self, n):
        self.n = n
        self.running = 0
        self.max_running = 0
        self.error_exit = False  # some call / wait on this semaphore has been left by an exception
        self.unheld = None  # api label while a top-level call that does not hold a permit is in progress


def run(ctx):
    from simkit import shim
    shim.install()
    from hailtop.utils import utils as U

    log = ctx.log
    thorough = ctx.tier == 'thorough'
    allow_unheld = ctx.params.get('allow_unheld', True)
    max_thunks = 12 if thorough else 8
    cfg = ctx.stream('cfg')
    n = cfg.rint(1, 4)
    n_phases = 1 + cfg.weighted([5, 3, 1])
    n_cancel_actions = cfg.weighted([5, 3, 2])

    found = []  # (signature, oracle, detail)
    deferred = {}  # bound-oracle class -> detail
    harness = []
    st = {'closed': False, 'cur': None, 'last_start_t': -1.0, 'all_thunks': []}

    def now():
        return ctx.loop.time() if ctx.loop is not None else -1.0

    def flag(oracle, signature, detail):
        if not st['closed']:
            found.append((signature, oracle, detail))
            log.add('oracle', 'violation', signature)

    # ------------------------------------------------------------------------------------------
    # bound oracle
    # ------------------------------------------------------------------------------------------
    def enter_running(sx, who):
        sx.running += 1
        if sx.running > sx.max_running:
            sx.max_running = sx.running
        if sx.running == sx.n:
            ctx.probe('bound_saturated')
        if sx.running > sx.n:
            if sx.unheld is not None and sx.running <= sx.n + 1:
                cls = f'caller_not_holding/{sx.unheld}'
            elif sx.error_exit:
                cls = 'after_error'
            else:
                cls = 'plain'
            if cls not in deferred:
                deferred[cls] = f'{sx.running} thunks running under a semaphore of {sx.n} when {who} started/resumed'
                log.add('oracle', 'over_bound', cls, sx.running, sx.n)

    # ------------------------------------------------------------------------------------------
    # thunks
    # ------------------------------------------------------------------------------------------
    def draw_thunk(s, th, weights, leaf):
        th.d = s.ticks(12)
        w = list(weights)
        if leaf:
            w[NESTED] = 0
        th.kind = s.weighted(w)
        th.cleanup = s.weighted([6, 1, 1, 1]) * TICK
        if th.kind == NESTED:
            m = s.rint(1, 3)
            mode = s.weighted([3, 4, 3])  # raise / raise+cancel_on_error / return_exceptions
            th.nested = {'m': m, 'mode': mode}
            th.d2 = s.ticks(4)

    def make_thunk(call, th, sx, sema, pool, stream_prefix, weights):
        async def thunk():
            if st['closed']:
                return None
            th.start = (log.add(th.name, 'start'), now())
            st['last_start_t'] = th.start[1]
            enter_running(sx, th.name)
            outcome = None
            try:
                try:
                    await asyncio.sleep(th.d)
                    if th.kind == NESTED:
                        await nested(call, th, sx, sema, pool, stream_prefix, weights)
                        await asyncio.sleep(th.d2)
                    if th.kind == RAISE:
                        th.exc = ThunkError(th.name)
                        outcome = 'raise'
                        ctx.fault('thunk.error')
                        raise th.exc
                    if th.kind == SELFC:
                        th.exc = asyncio.CancelledError()
                        outcome = 'selfcancel'
                        ctx.probe('thunk_raises_cancelled_error_itself')
                        raise th.exc
                    outcome = 'ok'
                    return th.value
                except asyncio.CancelledError as e:
                    if outcome != 'selfcancel' and not st['closed']:
                        outcome = 'cancelled'
                        th.exc = e
                        if th.saw_cancel is None:
                            th.saw_cancel = (log.add(th.name, 'cancel_seen'), now())
                        if th.cleanup:
                            ctx.probe('thunk_cleanup_after_cancel')
                            await asyncio.sleep(th.cleanup)
                    raise
                except Exception as e:  # pylint: disable=broad-except
                    if outcome is None:
                        # came out of a nested call (a leaf's ThunkError or PoolShutdownError)
                        outcome = 'raise'
                        th.exc = e
                    raise
            finally:
                if not st['closed']:
                    sx.running -= 1
                    th.outcome = outcome
                    th.end = (log.add(th.name, 'end', str(outcome)), now())
                    if outcome == 'raise':
                        if call.alive():
                            ctx.probe('failure_while_others_running')
                        if call.failures and call.failures[-1].end[1] == th.end[1]:
                            ctx.probe('simultaneous_failures')
                        call.failures.append(th)
        return thunk

    async def nested(call, th, sx, sema, pool, stream_prefix, weights):
        """the thunk holds a permit; it starts sub-work on the same semaphore and parks without its permit."""
        ctx.probe('nested_call')
        s = ctx.stream(f'{stream_prefix}.{th.idx}n')
        m = th.nested['m']
        if call.family == 'online':
            tasks = []
            for j in range(m):
                leaf = _Thunk(f'{th.name}.{j}', len(call.thunks))
                draw_thunk(s, leaf, weights, leaf=True)
                t = pool_call(call, leaf, sx, sema, pool, stream_prefix, weights, th.name)
                tasks.append(t)
            log.add(th.name, 'pool_wait', len(tasks))
            sx.running -= 1
            try:
                await pool.wait(tasks)
            except BaseException:
                sx.error_exit = True
                raise
            finally:
                if not st['closed']:
                    log.add(th.name, 'pool_wait_done')
                    enter_running(sx, th.name)
            return
        inner = _Call(f'{th.name}.g', 'bg2', sx.n, call.level + 1)
        mode = th.nested['mode']
        inner.coe = mode == 1
        inner.re = mode == 2
        inner.parent_thunk = th
        inner.parent_call = call
        lw = list(weights)
        if not inner.re:
            lw[SELFC] = 0  # asyncio.gather would hand the CancelledError to the parent thunk: undocumented territory
        for j in range(m):
            leaf = _Thunk(f'{th.name}.{j}', j)
            draw_thunk(s, leaf, lw, leaf=True)
            inner.thunks.append(leaf)
        if sx.error_exit:
            ctx.probe('sema_reused_after_error')
        sx.running -= 1
        try:
            await gather_call(inner, sx, sema, stream_prefix, weights)
        finally:
            if not st['closed']:
                enter_running(sx, th.name)

    # ------------------------------------------------------------------------------------------
    # gather family
    # ------------------------------------------------------------------------------------------
    calls = []

    async def gather_call(call, sx, sema, stream_prefix, weights):
        calls.append(call)
        pfs = [make_thunk(call, th, sx, sema, None, stream_prefix, weights) for th in call.thunks]
        st['all_thunks'].extend(call.thunks)
        call.invoke = (log.add(call.name, 'invoke', call.family, call.n, len(pfs), int(call.re), int(call.coe),
                               int(call.held)), now())
        try:
            if call.family == 'bg':
                res = await U.bounded_gather(*pfs, parallelism=call.n, return_exceptions=call.re,
                                             cancel_on_error=call.coe)
            elif call.family == 'bg2':
                res = await U.bounded_gather2(sema, *pfs, return_exceptions=call.re, cancel_on_error=call.coe)
            elif call.re:
                res = await U.bounded_gather2_return_exceptions(sema, *pfs)
            else:
                res = await U.bounded_gather2_raise_exceptions(sema, *pfs, cancel_on_error=call.coe)
        except BaseException as e:  # pylint: disable=broad-except
            if st['closed']:
                raise
            sx.error_exit = True
            call.exc = e
            call.outcome = 'cancelled' if isinstance(e, asyncio.CancelledError) else 'raise'
            call.ret = (log.add(call.name, 'raised', type(e).__name__), now())
            call.alive_at_return = call.alive()
            at_return(call)
            raise
        call.outcome = 'ok'
        call.result = res
        call.ret = (log.add(call.name, 'returned', len(res)), now())
        call.alive_at_return = call.alive()
        at_return(call)
        return res

    def first_tied(cands):
        """cands: [(seq, t, exc)] -> the exception objects tied for first (same instant as the earliest)."""
        cands = sorted(cands, key=lambda c: c[0])
        t0 = cands[0][1]
        return [c[2] for c in cands if c[1] == t0]

    def at_return(call):
        fam = 'online' if call.family == 'online' else 'gather'
        if call.outcome == 'cancelled':
            if call.level == 0 and call.outer_cancel is None:
                flag('first', f'C20/{fam}/raised_cancelled_error_without_cancellation',
                     f'{call.name} raised CancelledError although nobody cancelled it')
            return
        if call.family == 'online':
            return  # judged after the drain (online_post)
        if call.outcome == 'ok':
            if call.failures and not call.re:
                flag('first', 'C20/gather/returned_despite_failure',
                     f'{call.name} returned although {call.failures[0].name} raised')
                return
            if call.alive_at_return or any(th.end is None for th in call.thunks):
                flag('return', 'C20/gather/returned_before_thunks_finished',
                     f'{call.name} returned while {call.alive_at_return} running / some thunk never ran')
                return
            res = call.result
            if not isinstance(res, list) or len(res) != len(call.thunks):
                flag('order', 'C20/gather/result_shape', f'{call.name}: {len(call.thunks)} thunks, result {res!r}')
                return
            for th, r in zip(call.thunks, res):
                if call.re:
                    if th.outcome == 'ok':
                        good = isinstance(r, tuple) and len(r) == 2 and r[0] == th.value and r[1] is None
                    else:
                        good = isinstance(r, tuple) and len(r) == 2 and r[0] is None and r[1] is th.exc
                    if not good:
                        flag('return_exceptions', 'C20/gather/return_exceptions_entry_wrong',
                             f'{call.name}[{th.idx}] ({th.outcome}) -> {r!r}')
                        return
                    if th.outcome != 'ok':
                        ctx.probe('return_exceptions_with_failure')
                elif r != th.value:
                    flag('order', 'C20/gather/result_not_in_submission_order',
                         f'{call.name}[{th.idx}] expected {th.value!r} got {r!r}')
                    return
            if len(call.thunks) >= 2:
                ends = [th.end[0] for th in call.thunks]
                if ends != sorted(ends):
                    ctx.probe('completion_order_differs_from_submission')
            return
        # raised a non-cancellation exception
        if call.re:
            flag('return_exceptions', 'C20/gather/return_exceptions_raised',
                 f'{call.name} (return_exceptions) raised {call.exc!r}')
            return
        if not call.failures:
            flag('first', 'C20/gather/raised_without_failure', f'{call.name} raised {call.exc!r}; no thunk failed')
            return
        tied = first_tied([(th.end[0], th.end[1], th.exc) for th in call.failures])
        if not any(call.exc is e for e in tied):
            later = any(call.exc is th.exc for th in call.failures)
            cls = 'raised_not_first_failure' if later else 'raised_unknown_exception'
            flag('first', f'C20/gather/{cls}',
                 f'{call.name} raised {call.exc!r}; first failure was {call.failures[0].name}')

    def causes_before(call, t):
        """is there a documented reason for a thunk of this call to see a cancellation at time t?"""
        if call.outer_cancel is not None and call.outer_cancel[1] <= t:
            return True
        if call.outcome == 'cancelled':
            return True
        if call.parent_thunk is not None and call.parent_thunk.saw_cancel is not None:
            return True
        if call.parent_call is not None and causes_before(call.parent_call, t):
            # a cancellation of the enclosing call travels through the parent thunk's task into this call's
            # gather; if a leaf failed in the same loop iteration this call still raises the leaf's error, not
            # CancelledError, so its own outcome does not show the cause
            return True
        if call.family == 'online':
            if any(th.end[1] <= t for th in call.failures):
                return True
            if call.body_exc is not None and call.body_exc[1] <= t:
                return True
            return False
        return call.coe and any(th.end[1] <= t for th in call.failures)

    def post_drain(call):
        fam = 'online' if call.family == 'online' else 'gather'
        stuck = call.alive()
        if stuck:
            flag('liveness', f'C20/{fam}/thunk_never_finished', f'{call.name}: {stuck} still alive after the drain')
            return
        if call.outcome is None:
            return  # reported as call_never_returned
        for th in call.thunks:
            if th.saw_cancel is not None and th.indiv_cancel is None and not causes_before(call, th.saw_cancel[1]):
                how = 'online' if call.family == 'online' else ('cancel_on_error' if call.coe else 'no_cancel_on_error')
                flag('cancel', f'C20/spurious_cancel/{how}',
                     f'{th.name} saw CancelledError although nothing was cancelled and nothing failed before')
                return
        outer = call.outer_cancel is not None or call.outcome == 'cancelled'
        if not outer and call.parent_call is not None and causes_before(call.parent_call, call.ret[1]):
            outer = True  # the enclosing call had a reason to cancel the parent thunk while this call was in progress
        if outer:
            return
        if call.family == 'online':
            online_post(call)
            return
        if call.outcome != 'raise' or call.re or not call.failures:
            return
        t_f = min(th.end[1] for th in call.failures)
        if call.coe:
            not_cancelled = [th.name for th in call.thunks if th.start is not None and (
                th.start[1] > t_f or (th.outcome in ('ok', 'raise') and th.saw_cancel is None and th.end[1] > t_f))]
            if any(th.saw_cancel is not None for th in call.thunks):
                ctx.probe('cancel_on_error_cancelled_running')
            if any(th.start is None for th in call.thunks):
                ctx.probe('cancel_on_error_never_started_thunk')
            if not_cancelled:
                flag('cancel_on_error', 'C20/cancel_on_error/remaining_work_not_cancelled',
                     f'{call.name} raised at t={call.ret[1]:.4f} (first failure t={t_f:.4f}) but {not_cancelled} '
                     f'started or ran to a natural end later')
            elif call.alive_at_return:
                flag('cancel_on_error', 'C20/cancel_on_error/returned_before_cancelled_thunks_finished',
                     f'{call.name} raised while {call.alive_at_return} were still running')
        else:
            # (a remaining thunk that sees a CancelledError is reported by the spurious-cancel check above)
            never = [th.name for th in call.thunks if th.start is None]
            if never:
                flag('no_cancel', 'C20/no_cancel_on_error/remaining_thunk_never_ran', f'{call.name}: {never}')
            elif any(th.end[1] > call.ret[1] for th in call.thunks):
                ctx.probe('no_cancel_on_error_rest_continued')

    # ------------------------------------------------------------------------------------------
    # online family
    # ------------------------------------------------------------------------------------------
    def pool_call(call, th, sx, sema, pool, stream_prefix, weights, who):
        """pool.call with the PoolShutdownError oracle; raises PoolShutdownError through."""
        t = now()
        strictly_before = [f for f in call.failures if f.end[1] < t]
        any_upto = [f for f in call.failures if f.end[1] <= t]
        try:
            task = pool.call(make_thunk(call, th, sx, sema, pool, stream_prefix, weights))
        except U.PoolShutdownError:
            log.add(who, 'call_shutdown', th.name)
            ctx.probe('pool_shutdown')
            body_or_outer = call.body_exc is not None or call.outer_cancel is not None
            if not any_upto and not body_or_outer:
                flag('online', 'C20/online/call_raised_shutdown_without_failure',
                     f'{who}: pool.call raised PoolShutdownError at t={t:.4f}; no background task had failed')
            raise
        th.task = task
        call.thunks.append(th)
        st['all_thunks'].append(th)
        call.tasks.append((th, task))
        log.add(who, 'call_ok', th.name)
        if strictly_before:
            flag('online', 'C20/online/call_accepted_after_failure',
                 f'{who}: pool.call accepted {th.name} at t={t:.4f} although {strictly_before[0].name} had failed at '
                 f't={strictly_before[0].end[1]:.4f}')
        elif any_upto:
            ctx.probe('call_same_instant_as_failure')
        return task

    async def online_call(call, sx, sema, stream_prefix, weights, n_thunks):
        calls.append(call)
        bs = ctx.stream(f'{stream_prefix}.body')
        call.invoke = (log.add(call.name, 'invoke', 'online', call.n, n_thunks, int(call.held)), now())
        in_exit = False
        try:
            async with U.OnlineBoundedGather2(sema) as pool:
                try:
                    for i in range(n_thunks):
                        await asyncio.sleep(bs.ticks(4))
                        act = bs.weighted([12, 3, 1])
                        if act == 2:
                            e = BodyError(call.name)
                            call.body_exc = (log.add(call.name, 'body_raise'), now(), e)
                            ctx.fault('body.error')
                            raise e
                        th = _Thunk(f'{call.name}.t{i}', i)
                        draw_thunk(ctx.stream(f'{stream_prefix}.t{i}'), th, weights, leaf=False)
                        try:
                            pool_call(call, th, sx, sema, pool, stream_prefix, weights, call.name)
                        except U.PoolShutdownError as e:
                            if bs.draw(2) == 0:
                                call.body_exc = (log.add(call.name, 'body_propagates_shutdown'), now(), e)
                                raise
                            ctx.probe('body_swallows_shutdown')
                            break
                        if act == 1 and call.tasks:
                            k = bs.draw(len(call.tasks))
                            subset = [t for _, t in call.tasks[k:]]
                            log.add(call.name, 'pool_wait', len(subset))
                            ctx.probe('body_pool_wait')
                            try:
                                await pool.wait(subset)
                            except BaseException:
                                sx.error_exit = True
                                raise
                            log.add(call.name, 'pool_wait_done')
                    await asyncio.sleep(bs.ticks(4))
                except asyncio.CancelledError as e:
                    if not st['closed'] and call.body_exc is None:
                        call.body_exc = (log.add(call.name, 'body_cancelled'), now(), e)
                    raise
                finally:
                    in_exit = True
                    if not st['closed']:
                        log.add(call.name, 'exit_begin')
        except BaseException as e:  # pylint: disable=broad-except
            if st['closed']:
                raise
            assert in_exit
            sx.error_exit = True
            call.exc = e
            call.outcome = 'cancelled' if isinstance(e, asyncio.CancelledError) else 'raise'
            call.ret = (log.add(call.name, 'exit_raised', type(e).__name__), now())
            call.alive_at_return = call.alive()
            at_return(call)
            raise
        call.outcome = 'ok'
        call.ret = (log.add(call.name, 'exit_returned'), now())
        call.alive_at_return = call.alive()

    def online_post(call):
        cands = [(th.end[0], th.end[1], th.exc) for th in call.failures if th.end[0] < call.ret[0]]
        if call.body_exc is not None:
            cands.append(call.body_exc)
        path = 'failure_path' if cands else 'normal_path'
        late = [th.name for th in call.thunks if th.start is not None and th.start[0] > call.ret[0]]
        if call.alive_at_return or late:
            flag('online', f'C20/online/exit_with_running_thunk/{path}',
                 f'{call.name}: `async with` left at t={call.ret[1]:.4f} while {call.alive_at_return} running, '
                 f'{late} started later')
            return
        if not cands:
            if call.outcome != 'ok':
                flag('online', 'C20/online/exit_raised_without_failure', f'{call.name} raised {call.exc!r}')
            return
        if call.outcome == 'ok':
            flag('online', 'C20/online/exit_swallowed_failure',
                 f'{call.name} left normally although {len(cands)} exception(s) occurred')
            return
        tied = first_tied(cands)
        if not any(call.exc is e for e in tied):
            flag('online', 'C20/online/exit_exception_not_first',
                 f'{call.name} raised {call.exc!r}; the first exception was {sorted(cands, key=lambda c: c[0])[0][2]!r}')

    # ------------------------------------------------------------------------------------------
    # actors
    # ------------------------------------------------------------------------------------------
    async def drain(call_task):
        """virtual time is free: wait until nothing is alive and nothing has started for a second."""
        for _ in range(200):
            await asyncio.sleep(1.0)
            alive = any(th.start is not None and th.end is None for th in st['all_thunks'])
            if not alive and call_task.done() and now() - st['last_start_t'] >= 1.0:
                return True
        return False

    async def caller(main_sema, main_sx):
        for k in range(n_phases):
            ps = ctx.stream(f'ph{k}')
            await asyncio.sleep(ps.ticks(4))
            fam = ('bg2', 'online', 'bg2x', 'bg')[ps.weighted([5, 5, 2, 2])]
            mode = ps.weighted([3, 4, 3])
            held = not ps.chance(0.25)
            n_thunks = ps.rint(0, max_thunks)
            w_raise = (0, 1, 3)[ps.weighted([2, 3, 2])]
            weights = [8, w_raise, 2 if fam != 'bg' else 0, 0]
            if not allow_unheld:
                held = True  # bounded_gather2 / the pool are only called the way the repository's fs code does
            call = _Call(f'c{k}', fam, n, 0)
            call.coe = mode == 1
            call.re = mode == 2
            if fam == 'bg':
                held = False
                sx = _Sx(n)
                sema = None
            else:
                sx, sema = main_sx, main_sema
                if sx.error_exit:
                    ctx.probe('sema_reused_after_error')
            call.held = held
            if fam == 'online' or call.re:
                weights[SELFC] = 1
            if n_thunks == 0:
                ctx.probe('zero_thunks')
            if fam != 'online':
                for i in range(n_thunks):
                    th = _Thunk(f'c{k}.t{i}', i)
                    draw_thunk(ctx.stream(f'ph{k}.t{i}'), th, weights, leaf=False)
                    call.thunks.append(th)

            async def the_call():
                if fam == 'online':
                    return await online_call(call, sx, sema, f'ph{k}', weights, n_thunks)
                return await gather_call(call, sx, sema, f'ph{k}', weights)

            async def do_call():
                if held:
                    async with sema:
                        return await the_call()
                ctx.probe('unheld_call')
                sx.unheld = {'bg': 'bounded_gather', 'online': 'online'}.get(fam, 'bounded_gather2')
                try:
                    return await the_call()
                finally:
                    sx.unheld = None

            task = asyncio.create_task(do_call(), name=f'call{k}')
            st['cur'] = (call, task)
            st['call_ev'].set()
            await asyncio.wait([task], timeout=300.0)
            st['call_ev'].clear()
            if not task.done():
                unstarted = [th.name for th in call.thunks if th.indiv_cancel is not None and th.start is None]
                if fam == 'online' and unstarted:
                    flag('liveness', 'C20/online/exit_hangs/task_cancelled_before_it_ran',
                         f'{call.name}: __aexit__ did not return within 300 s after {unstarted} had been cancelled '
                         f'before running; alive={call.alive()}')
                else:
                    flag('liveness', 'C20/call_never_returned', f'{call.name} ({fam}) did not return within 300 s; '
                         f'alive={call.alive()}')
                call.outer_cancel = (log.add('caller', 'give_up', call.name), now())
                task.cancel()
                return
            st['cur'] = None
            if not task.cancelled():
                e = task.exception()
                if e is not None and not isinstance(e, (ThunkError, BodyError, U.PoolShutdownError,
                                                        asyncio.CancelledError)):
                    harness.append(e)
                    return
            if not await drain(task):
                # something is alive forever: post_drain reports it
                pass
            for c in list(calls):
                post_drain(c)
            del calls[:]
            if found or harness:
                return

    async def canceller():
        s = ctx.stream('cancel')
        for _ in range(n_cancel_actions):
            await st['call_ev'].wait()  # the next call that is in progress
            await asyncio.sleep(s.ticks(24))
            r = s.draw(4)
            cur = st['cur']
            if cur is None:
                log.add('canceller', 'idle')
                continue
            call, task = cur
            live = [(th, t) for th, t in call.tasks if not t.done()]
            if call.family == 'online' and r > 0 and live:
                th, t = live[s.draw(len(live))]
                state = 'running' if th.start is not None else 'waiting_for_permit'
                ctx.fault('task.cancel')
                ctx.probe(f'individual_cancel_{state}')
                if th.indiv_cancel is None:
                    th.indiv_cancel = (log.add('canceller', 'cancel_task', th.name, state), now())
                t.cancel()
            elif r == 0 and not task.done() and call.invoke is not None and call.ret is None:
                ctx.fault('task.cancel')
                ctx.probe('outer_cancel')
                if call.alive():
                    ctx.probe('outer_cancel_with_running_thunks')
                if call.outer_cancel is None:
                    call.outer_cancel = (log.add('canceller', 'cancel_call', call.name), now())
                task.cancel()
            else:
                log.add('canceller', 'skip')

    async def main(loop):
        sema = asyncio.Semaphore(n)
        sx = _Sx(n)
        st['call_ev'] = asyncio.Event()
        ct = asyncio.create_task(canceller(), name='canceller')
        cl = asyncio.create_task(caller(sema, sx), name='caller')
        await asyncio.wait([cl])
        ct.cancel()
        await asyncio.wait([ct])
        for t in (cl, ct):
            if not t.cancelled() and t.exception() is not None:
                raise t.exception()
        ctx.extra['max_running_frac'] = sx.max_running / n

    try:
        _res, outcome = simulate(ctx, main, max_steps=400_000)
    finally:
        st['closed'] = True
    if harness:
        raise RuntimeError(f'unexpected exception out of a helper: {harness[0]!r}') from harness[0]
    if found:
        sig, oracle, detail = found[0]
        ctx.violation('C20', oracle, sig, detail)
    if outcome != 'done':
        raise RuntimeError(f'unexpected outcome {outcome}')
    for cls in ('plain', 'after_error'):
        if cls in deferred:
            ctx.violation('C20', 'bound', f'C20/over_bound/{cls}', deferred[cls])
    for cls in sorted(deferred):
        ctx.violation('C20', 'bound', f'C20/over_bound/{cls}', deferred[cls])


def nontrivial(r):
    return r['n_events'] >= 8 and (bool(r['faults']) or bool(r['probes']))
