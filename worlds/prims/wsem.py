"""C40 -- hailtop.aiotools.weighted_semaphore.WeightedSemaphore under seeded schedules and cancellation.

Real code: WeightedSemaphore, _AcquireManager (imported from the repository at run time).
Actors: K holder tasks doing seeded sequences of `async with sem.acquire_manager(w)` with seeded
hold times, exiting the block normally or by exception; a canceller that cancels chosen tasks at
seeded instants (fault kind task.cancel) -- including while they wait and in the very loop
iteration in which they are granted.
Oracle: sum of weights between acquire-return and release <= capacity at every event; after every
task has finished or been cancelled a fresh acquire(capacity) completes without blocking; no task
stays blocked in acquire at quiescence while its weight fits into the free capacity.
"""
import asyncio

from worlds.common import TICK, passes_through_repo, simulate

NAME = 'prims.wsem'
RULE = ('capacity 1..12, 1..8 tasks x 1..3 acquire/hold/release rounds, weights mostly from a per-run palette of 1..3 '
        'values <= capacity (so equal-weight waiters queue), seeded hold and think times on a 1/1024 s grid, '
        '0..6 task cancellations at seeded instants')
COMPONENTS = {
    'hailtop.aiotools.weighted_semaphore.WeightedSemaphore': 'real',
    'hailtop.aiotools.weighted_semaphore._AcquireManager': 'real',
    'asyncio event loop / clock': 'simulated (SimLoop, virtual time)',
    'holder tasks, canceller': 'simulator actors',
}
ASSUMPTIONS = ['asyncio.Event/Task semantics are those of CPython 3.12 running on the simulated loop',
               'ready callbacks run FIFO as documented for call_soon']


class BodyError(Exception):
    pass


def run(ctx):
    from simkit import shim
    shim.install()
    from hailtop.aiotools.weighted_semaphore import WeightedSemaphore

    cfg = ctx.stream('cfg')
    cap = cfg.rint(1, 12)
    n_tasks = cfg.rint(1, 8)
    n_cancels = cfg.draw(7)
    # weight palette: a few distinct weights per run so that equal-weight waiters queue up behind each other
    palette = sorted({cfg.rint(1, cap) for _ in range(cfg.rint(1, 3))})
    log = ctx.log
    st = {'held': 0, 'waiting': {}, 'cancel_hit_waiter': False, 'cancel_hit_granted': False, 'max_held': 0}

    async def main(loop):
        sem = WeightedSemaphore(cap)
        orig_acquire = sem.acquire

        def entered(me, n):
            st['waiting'].pop(me, None)
            st['held'] += n
            st['max_held'] = max(st['max_held'], st['held'])
            log.add(me, 'acq_return', n, st['held'])
            if st['held'] > cap:
                ctx.violation('C40', 'safety', 'C40/over_capacity', f'held {st["held"]} > capacity {cap}')

        async def holder(i):
            s = ctx.stream(f'task{i}')
            rounds = s.rint(1, 3)
            for _ in range(rounds):
                await asyncio.sleep(s.ticks(6))
                w = s.pick(palette) if s.draw(4) else s.rint(1, cap)
                mode = s.draw(4)  # 0,1,2 normal; 3 raise in body
                me = f'h{i}'
                log.add(me, 'acq_invoke', w)
                st['waiting'][me] = w
                try:
                    # the holding interval is exactly the body of the block: __aenter__ returns and
                    # __aexit__ releases without an await in between
                    async with sem.acquire_manager(w):
                        entered(me, w)
                        try:
                            await asyncio.sleep(s.ticks(8))
                            if mode == 3:
                                ctx.probe('exit_by_exception')
                                raise BodyError()
                        finally:
                            st['held'] -= w
                            log.add(me, 'release', w, st['held'])
                except BodyError:
                    pass
                finally:
                    st['waiting'].pop(me, None)

        tasks = [asyncio.create_task(holder(i), name=f'h{i}') for i in range(n_tasks)]

        async def canceller():
            s = ctx.stream('cancel')
            for _ in range(n_cancels):
                await asyncio.sleep(s.ticks(10))
                t = tasks[s.draw(len(tasks))]
                if t.done():
                    continue
                nm = t.get_name()
                state = 'waiting' if nm in st['waiting'] else 'other'
                if state == 'waiting':
                    st['cancel_hit_waiter'] = True
                    ctx.probe('cancel_waiter')
                    if len(sem.events) < len(st['waiting']):
                        # some waiter has been granted but has not resumed yet
                        ctx.probe('cancel_while_a_grant_is_in_flight')
                        if len(sem.events) == 0:
                            ctx.probe('cancel_granted_not_yet_resumed')
                else:
                    ctx.probe('cancel_non_waiter')
                ctx.fault('task.cancel')
                log.add('canceller', 'cancel', nm, state)
                t.cancel()

        ct = asyncio.create_task(canceller(), name='canceller')
        done, pending = await asyncio.wait(tasks + [ct], timeout=600.0)
        blocked = sorted(t.get_name() for t in pending)
        if blocked:
            free = cap - st['held']
            fits = {nm: w for nm, w in st['waiting'].items() if w <= free}
            log.add('oracle', 'quiescent_blocked', blocked, free)
            for t in pending:
                t.cancel()
            if fits:
                cls = 'after_waiter_cancel' if st['cancel_hit_waiter'] else 'no_cancel'
                ctx.violation('C40', 'liveness', f'C40/blocked_with_free_capacity/{cls}',
                              f'tasks {sorted(fits)} blocked in acquire with weights {fits} while {free} of {cap} is free')
            ctx.violation('C40', 'liveness', 'C40/blocked_forever', f'tasks {blocked} never finished; held={st["held"]}')
        for t in done:
            if not t.cancelled() and t.exception() is not None:
                e = t.exception()
                from simkit.core import Violation
                if isinstance(e, Violation) or not passes_through_repo(e):
                    raise e
                # an exception raised by the code under test is an outcome, not a harness error: the holder
                # "exited by error"; the conservation oracle below still applies
                ctx.probe('repo_exception_in_holder')
                log.add(t.get_name(), 'holder_failed', type(e).__name__)
        # conservation: everything was released, so the whole capacity must be acquirable at once
        assert st['held'] == 0, st
        try:
            await asyncio.wait_for(orig_acquire(cap), timeout=100.0)
            log.add('oracle', 'full_capacity_reacquired', cap)
        except asyncio.TimeoutError:
            cls = 'after_waiter_cancel' if st['cancel_hit_waiter'] else 'no_waiter_cancel'
            ctx.violation('C40', 'conservation', f'C40/capacity_lost/{cls}',
                          f'all holders exited but only {sem.value} of {cap} can be acquired')

    _res, outcome = simulate(ctx, main, max_steps=200_000)
    if outcome != 'done':
        raise RuntimeError(f'unexpected outcome {outcome}')
    ctx.extra['max_held_frac'] = st['max_held'] / cap


def nontrivial(r):
    return r['n_events'] >= 6 and (bool(r['faults']) or bool(r['probes']))
