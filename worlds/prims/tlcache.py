"""C26 -- gear.time_limited_max_size_cache.TimeLimitedMaxSizeCache under seeded lookups, loads, failures, cancellation.

Real code: TimeLimitedMaxSizeCache (lookup / _put / _remove / _evict_oldest and the real sortedcontainers
SortedSet), imported from the repository at run time.  prometheus is the shim's no-op fake whose `time(metric,
future)` awaits the future inside a coroutine like the real prometheus_async does.
Actors: K looker actors doing seeded rounds of think / `await cache.lookup(key)`; every lookup runs in a task of
its own so that it can be cancelled alone (fault kind task.cancel, decided per lookup from the actor's
`cancel:<i>` stream, delivered by a timer 0..8 ticks after the invoke: before the lookup ran, while it waits for
its own load, while it waits for somebody else's load, in the instant the load completes).  Think times are a few
1/1024 s ticks or about one lifetime (expiry races: the cache compares `expiry <= monotonic_ns()`; lifetimes are
even multiples of 1/1024 s so that lifetime_ns is an integer and ages are exact).  The loader (a plain function
returning a coroutine; a context variable tells in whose lookup the cache started the load) takes 0..8 ticks,
returns (key, load_id, completion tick) or raises LoadError; durations and failures come from a per-key stream.
A prober actor asks for capacity probe passes at seeded instants; a final phase waits one lifetime and looks
every key up again.

Oracles (DESIGN.md section 6, C26):
* capacity: a probe pass looks every key up in one synchronous block, at the instant it was asked for, when the
  loop has nothing else to run (loop.idle_hooks, no timer due): each `cache.lookup(k)` coroutine is driven by
  hand for one step; a lookup served from the cache finishes in that step; one that has to load or join yields and
  is closed again; a load started for a probe raises ProbeMiss at once, so nothing is cached for it and it is
  over before any actor runs again -- the count is atomic and the pass leaves the cache as it was (apart from
  dropping expired entries, which any lookup does).  At most `num_slots` keys may answer.  In addition
  len(cache._cache) <= num_slots is checked after every lookup and in every pass (private field, skipped if
  absent or with params private_checks=False; signature .../more_entries_held_than_slots).
* freshness: a lookup (or probe hit) that returns a value it did not load itself returns one whose load completed
  at most `lifetime` ago (a value of age exactly == lifetime is "not older than its lifetime": not flagged; the
  real code never returns it either).
* single-flight: the running intervals of two loads of one key never overlap.
* isolation: a lookup raises only (a) CancelledError when the canceller cancelled this very lookup, or (b) the
  LoadError of a load of its key that was under way while the lookup was.  Anything else is a violation; a
  CancelledError in a lookup nobody cancelled is classified by which cancelled lookup shared its load:
    C26/isolation/joined_lookup_cancelled_by_first_looker_cancel  the lookup that started the load was cancelled
    C26/isolation/lookup_cancelled_by_joiner_cancel               a lookup that had joined the load was cancelled
                                                                  (victim: the first looker or another joiner)
    C26/isolation/cancelled_without_cause                         neither
    C26/isolation/failure_of_a_load_it_did_not_wait_for           LoadError / ProbeMiss of a load that was over
    C26/isolation/unexpected_exception/<Type>                     e.g. KeyError out of lookup
The harness' bookkeeping (which load a lookup waits for) is used to *classify* only and does not assume that a
load ends with the lookup that started it, so the same check runs against a cache that detaches the load.

Finding on the unchanged tree (genuine; reproduced on a stock asyncio loop as well): both
`..._by_first_looker_cancel` and `..._by_joiner_cancel` fire (about 17 % of the runs).  `lookup` awaits the shared
load task directly (`return await self._futures[k]`; the first looker awaits it through prom_async_time), and
cancelling a task that awaits another task cancels that task too; so one caller's cancellation (e.g. an aborted
HTTP request) makes every concurrent lookup of that key -- the one that started the load and all that joined --
fail with CancelledError although nobody cancelled them.  A scratch variant that runs load+put+cleanup in the
shared task and lets every looker `await asyncio.shield(task)` passes this check (no signature in 60 000 runs).

Sensitivity (mutants of gear/gear/time_limited_max_size_cache.py in a scratch copy, HAIL_REPO_ROOT; quick budget;
each in addition to the two isolation signatures of the unchanged defect):
* expiry check dropped (`if False and ...`)               -> caught  C26/freshness/value_older_than_lifetime
* `_put` stamps `+ 2 * lifetime_ns`                       -> caught  C26/freshness/value_older_than_lifetime
* expiry `<` instead of `<=` (serves age == lifetime)     -> not flagged on purpose (see freshness above)
* no eviction (`_over_capacity` returns False)            -> caught  C26/capacity/more_entries_held_than_slots; with
                                                             private_checks=False: C26/capacity/more_cached_keys_than_slots
* `_over_capacity`: `> num_slots + 1`                     -> caught  (same two signatures)
* evict the newest instead of the oldest                  -> not caught: not a violation of the property text
                                                             (still bounded, fresh, single-flight, isolated)
* `_futures` join skipped (every miss starts a load)      -> caught  C26/single_flight/overlapping_loads_of_one_key
                                                             and C26/isolation/unexpected_exception/KeyError
* `del self._futures[k]` dropped                          -> caught  C26/freshness/value_older_than_lifetime,
                                                             .../failure_of_a_load_it_did_not_wait_for, .../cancelled_without_cause
* joiners shielded, first looker not (partial fix)        -> still   C26/isolation/joined_lookup_cancelled_by_first_looker_cancel
                                                             (and no longer ..._by_joiner_cancel)
"""
import asyncio
import contextvars
import time

from simkit.core import Violation
from worlds.common import simulate

NAME = 'prims.tlcache'
RULE = ('num_slots 1..4, 1..6 keys, lifetime 2..24 (even) ticks of 1/1024 s, 1..6 (thorough 8) looker actors x 1..5 (7) '
        'lookups each in a task of its own, think 0..6 ticks or lifetime-2..lifetime+2, loads of 0..8 ticks failing with '
        'p=1/6, per-lookup cancellation with p=0.15 after 0..8 ticks, 0..3 capacity probe passes at seeded instants plus '
        'one at the end, final re-lookup of every key one lifetime later')
COMPONENTS = {
    'gear.time_limited_max_size_cache.TimeLimitedMaxSizeCache': 'real',
    'sortedcontainers.SortedSet': 'real (installed library)',
    'prometheus_client / prometheus_async.aio.time': 'shim no-op fakes (time(metric, fut) awaits fut in a coroutine)',
    'loader': 'simulated (seeded duration / failure, records start, end, cancellation)',
    'asyncio event loop / clock, time.monotonic_ns': 'simulated (SimLoop, virtual time)',
    'lookers, canceller timers, prober': 'simulator actors',
}
ASSUMPTIONS = ['asyncio Task/Future cancellation semantics are those of CPython 3.12 running on the simulated loop',
               'ready callbacks run FIFO as documented for call_soon',
               'the capacity probe drives lookup coroutines by hand for one step and closes them; this relies on '
               'coroutine.close() running the lookup\'s own finally block']

TPS = 1 << 20
CUR = contextvars.ContextVar('c26_current_lookup', default=None)
PROBE = {'id': -1, 'name': 'probe', 'probe': True}


class LoadError(Exception):
    def __init__(self, key, load_id):
        super().__init__(f'load {load_id} of key {key} failed')
        self.key = key
        self.load_id = load_id


class ProbeMiss(Exception):
    """raised by the loader when a capacity probe lookup turns out to be a miss (nothing may be cached for it)."""


def _timer_due_now(loop):
    now = loop.time()
    return any((not h._cancelled) and h._when <= now for h in loop._scheduled)  # pylint: disable=protected-access


def run(ctx):
    from simkit import shim
    shim.install()
    from gear.time_limited_max_size_cache import TimeLimitedMaxSizeCache

    wide = ctx.tier == 'thorough'
    cfg = ctx.stream('cfg')
    slots = cfg.rint(1, 4)
    n_keys = cfg.rint(1, 6)
    life_g = 2 * cfg.rint(1, 12)                      # lifetime in 1/1024 s; even => integer ns
    n_lookers = cfg.rint(1, 8 if wide else 6)
    max_rounds = 7 if wide else 5
    n_passes = cfg.draw(4)
    lifetime_ns = life_g * 1_000_000_000 // 1024
    assert lifetime_ns * 1024 == life_g * 1_000_000_000
    L = life_g * 1024                                 # lifetime in 2^-20 s ticks
    private_checks = ctx.params.get('private_checks', True)
    log = ctx.log
    st = {'violation': None, 'n_lookups': 0, 'lookups': [], 'loads': [], 'running': {}, 'loop': None,
          'n_cancel': 0, 'probe_due': []}

    def fail(oracle, signature, detail):
        v = Violation('C26', oracle, signature, detail)
        if st['violation'] is None:
            st['violation'] = v
            log.add('oracle', 'violation', signature)
        raise st['violation']

    def now_ticks():
        x = st['loop'].time() * TPS
        t = int(round(x))
        assert t == x, ('loop time off the grid', x)
        return t

    # ---- loader ------------------------------------------------------------------------------------------
    async def probe_load(k):
        raise ProbeMiss(k)

    async def _load(ld):
        k = ld['key']
        s = ctx.stream(f'load:k{k}')
        other = st['running'].get(k)
        log.add('loader', 'load_start', k, ld['id'])
        if other is not None:
            fail('single_flight', 'C26/single_flight/overlapping_loads_of_one_key',
                 f'load {ld["id"]} of key {k} (started by {ld["by"]}) starts while load {other["id"]} of the same key '
                 f'(started by {other["by"]}) is still running')
        st['running'][k] = ld
        ld['state'] = 'running'
        dur = s.ticks(8)
        fails = s.draw(6) == 5
        try:
            await asyncio.sleep(dur)
        except asyncio.CancelledError:
            ld['state'] = 'cancelled'
            ld['t_end'] = now_ticks()
            log.add('loader', 'load_cancelled', k, ld['id'])
            raise
        finally:
            if st['running'].get(k) is ld:
                del st['running'][k]
        ld['t_end'] = now_ticks()
        if fails:
            ld['state'] = 'failed'
            log.add('loader', 'load_failed', k, ld['id'])
            ctx.probe('load_failed')
            raise LoadError(k, ld['id'])
        ld['state'] = 'done'
        log.add('loader', 'load_done', k, ld['id'])
        return (k, ld['id'], ld['t_end'])

    def load(k):
        # the cache calls this in the context of the lookup that starts the load (directly, or in a task created
        # by it: tasks inherit the context), so CUR tells whose load it is
        who = CUR.get()
        if who is None:
            raise RuntimeError('loader called outside of a harness lookup')
        if who.get('probe'):
            return probe_load(k)
        if who['initiated'] is not None:
            raise RuntimeError('one lookup started two loads')
        ld = {'id': len(st['loads']) + 1, 'key': k, 'by': who['name'], 'initiator': who, 'state': 'created',
              't_created': now_ticks(), 't_end': None}
        st['loads'].append(ld)
        who['initiated'] = ld
        log.add(who['name'], 'load_created', k, ld['id'])
        return _load(ld)

    def open_load(k):
        """the load of key k a lookup invoked now would wait for (harness' view, for classification only)."""
        t = now_ticks()
        for ld in reversed(st['loads']):
            if ld['key'] != k:
                continue
            if ld['state'] == 'running' or (ld['state'] == 'created' and not ld['initiator']['done']):
                return ld
            if ld['t_end'] is not None and ld['t_end'] == t and not ld['initiator']['done']:
                return ld  # finished in this instant, its first looker has not resumed yet
            return None
        return None

    def awaited_load(rec):
        return rec['initiated'] or rec['open_at_invoke']

    def unfinished_loads():
        return [ld['id'] for ld in st['loads']
                if ld['state'] == 'running' or (ld['state'] == 'created' and not ld['initiator']['done'])]

    async def main(loop):
        st['loop'] = loop
        cache = TimeLimitedMaxSizeCache(load, lifetime_ns, slots, 'sim')

        evict = getattr(cache, '_evict_oldest', None)
        if evict is not None:
            def counting_evict():
                ctx.probe('eviction')
                return evict()
            cache._evict_oldest = counting_evict  # probe only; pylint: disable=protected-access

        def check_physical(where):
            if not private_checks:
                return
            held = getattr(cache, '_cache', None)
            if held is not None and len(held) > slots:
                fail('capacity', 'C26/capacity/more_entries_held_than_slots',
                     f'{where}: the cache holds {len(held)} entries, num_slots={slots}')

        def classify_cancelled_victim(rec):
            k = rec['key']
            t = now_ticks()
            ld = awaited_load(rec)
            others = [r for r in st['lookups'] if r['cancelled'] and r is not rec and r['key'] == k]
            culprits = [r for r in others if ld is not None and awaited_load(r) is ld]
            if not culprits:
                # harness could not tell which load it waited for: any lookup of the key cancelled while this
                # one was under way
                culprits = [r for r in others if rec['t_invoke'] <= r['t_cancel'] <= t]
            role = 'first looker' if rec['initiated'] is not None else 'joiner'
            what = f'load {ld["id"]} of key {k}' if ld is not None else f'a load of key {k}'
            if culprits:
                if ld is not None and ld['state'] == 'cancelled':
                    # the cancellation that reached the load is one issued in the instant the load saw it
                    culprits = [r for r in culprits if r['t_cancel'] == ld['t_end']] or culprits
                c = min(culprits, key=lambda r: r['cancel_no'])
                if c['initiated'] is not None and rec['initiated'] is None:
                    fail('isolation', 'C26/isolation/joined_lookup_cancelled_by_first_looker_cancel',
                         f'{rec["name"]} joined {what} and was never cancelled, but its lookup raised '
                         f'CancelledError when {c["name"]}, the lookup that had started the load, was cancelled')
                fail('isolation', 'C26/isolation/lookup_cancelled_by_joiner_cancel',
                     f'{rec["name"]} ({role} of {what}) was never cancelled, but its lookup raised '
                     f'CancelledError when {c["name"]}, a lookup that had joined the load, was cancelled')
            fail('isolation', 'C26/isolation/cancelled_without_cause',
                 f'{rec["name"]} ({role}, key {k}) raised CancelledError; neither it nor any lookup sharing its load '
                 f'was cancelled')

        def load_error_is_own(rec, e):
            """the LoadError is the failure of a load of this key that was under way while the lookup was."""
            if e.key != rec['key'] or not 1 <= e.load_id <= len(st['loads']):
                return False
            ld = st['loads'][e.load_id - 1]
            return ld['key'] == rec['key'] and ld['state'] == 'failed' and ld['t_end'] >= rec['t_invoke']

        def probe_pass(where):
            """every key in one synchronous block at an instant at which nothing else is runnable."""
            tok = CUR.set(PROBE)
            hits = []
            t = now_ticks()
            try:
                for k in range(n_keys):
                    coro = cache.lookup(k)
                    try:
                        y = coro.send(None)
                    except StopIteration as e:
                        hits.append((k, e.value))
                    except asyncio.CancelledError:
                        # it joined a load that has been cancelled; nobody cancelled the prober
                        log.add('prober', 'lookup_raised', k, 'CancelledError')
                        classify_cancelled_victim({'name': 'prober', 'key': k, 'initiated': None, 't_invoke': t,
                                                   'open_at_invoke': open_load(k), 'cancelled': False})
                    except LoadError as e:
                        if not load_error_is_own({'key': k, 't_invoke': t}, e):
                            log.add('prober', 'lookup_raised', k, 'LoadError', e.load_id)
                            fail('isolation', 'C26/isolation/failure_of_a_load_it_did_not_wait_for',
                                 f'probe lookup of key {k} raised the error of load {e.load_id} of key {e.key}')
                    except ProbeMiss:
                        pass  # a cache that calls the loader synchronously: a miss
                    except Exception as e:  # pylint: disable=broad-except
                        log.add('prober', 'lookup_raised', k, type(e).__name__)
                        fail('isolation', f'C26/isolation/unexpected_exception/{type(e).__name__}',
                             f'probe lookup of key {k} raised {e!r}')
                    else:
                        # a miss: it started a load (which raises ProbeMiss, so nothing gets cached) or joined one
                        if getattr(y, '_asyncio_future_blocking', False):
                            y._asyncio_future_blocking = False  # what Task.__step does when it takes the future
                        coro.close()
            finally:
                CUR.reset(tok)
            log.add('prober', 'probe_pass', where, tuple(k for k, _ in hits))
            if len(hits) == slots:
                ctx.probe('probe_pass_full')
            if len(hits) > slots:
                fail('capacity', 'C26/capacity/more_cached_keys_than_slots',
                     f'{where}: keys {[k for k, _ in hits]} are all served from the cache, num_slots={slots}')
            for k, v in hits:
                assert v[0] == k, (k, v)
                if t - v[2] > L:
                    fail('freshness', 'C26/freshness/value_older_than_lifetime',
                         f'{where}: probe lookup of key {k} returned the value of load {v[1]} completed '
                         f'{(t - v[2]) / TPS:.6f} s ago, lifetime {L / TPS:.6f} s')
            check_physical(where)

        def stop_on_violation():
            if st['violation'] is not None:
                raise st['violation']

        def on_idle():
            stop_on_violation()
            if st['probe_due'] and not _timer_due_now(loop):
                where = '+'.join(st['probe_due'])
                del st['probe_due'][:]
                probe_pass(where)

        loop.step_hooks.append(stop_on_violation)
        loop.idle_hooks.append(on_idle)

        async def do_lookup(rec):
            CUR.set(rec)
            k = rec['key']
            log.add(rec['name'], 'lookup_invoke', k)
            rec['step'] = loop.steps
            rec['t_invoke'] = now_ticks()
            rec['open_at_invoke'] = open_load(k)
            saw_expired = False
            if private_checks:
                exp = getattr(cache, '_expiry_time', {}).get(k)  # probe only
                saw_expired = exp is not None and exp <= time.monotonic_ns()
            rec['started'] = True
            try:
                v = await cache.lookup(k)
            except asyncio.CancelledError:
                rec['done'] = True
                if rec['cancelled']:
                    log.add(rec['name'], 'lookup_cancelled', k)
                    raise
                log.add(rec['name'], 'lookup_raised', k, 'CancelledError')
                classify_cancelled_victim(rec)
                raise
            except LoadError as e:
                rec['done'] = True
                log.add(rec['name'], 'lookup_raised', k, 'LoadError', e.load_id)
                if not load_error_is_own(rec, e):
                    fail('isolation', 'C26/isolation/failure_of_a_load_it_did_not_wait_for',
                         f'{rec["name"]} (key {k}, invoked at {rec["t_invoke"] / TPS:.6f}) raised the error of load '
                         f'{e.load_id} of key {e.key}')
                if rec['initiated'] is None:
                    ctx.probe('joined_load_failed')
                return
            except Violation:
                raise
            except ProbeMiss:
                # probe loads start and end inside one instant in which nothing else runs (on_idle), so no
                # lookup of an actor is ever concurrent with one
                rec['done'] = True
                log.add(rec['name'], 'lookup_raised', k, 'ProbeMiss')
                fail('isolation', 'C26/isolation/failure_of_a_load_it_did_not_wait_for',
                     f'{rec["name"]} (key {k}) raised the error of a load started and finished by an earlier capacity '
                     f'probe lookup')
            except Exception as e:  # pylint: disable=broad-except
                rec['done'] = True
                log.add(rec['name'], 'lookup_raised', k, type(e).__name__)
                fail('isolation', f'C26/isolation/unexpected_exception/{type(e).__name__}',
                     f'{rec["name"]} (key {k}) raised {e!r}; its load did not fail with that and it was not cancelled')
            rec['done'] = True
            t = now_ticks()
            suspended = loop.steps != rec['step']
            assert isinstance(v, tuple) and v[0] == k, (k, v)
            own = rec['initiated'] is not None and rec['initiated']['id'] == v[1]
            kind = 'loaded' if own else ('joined' if suspended else 'hit')
            log.add(rec['name'], 'lookup_return', k, v[1], kind, t - v[2])
            if not own:
                if t - v[2] > L:
                    fail('freshness', 'C26/freshness/value_older_than_lifetime',
                         f'{rec["name"]} got the value of load {v[1]} of key {k} ({kind}) completed '
                         f'{(t - v[2]) / TPS:.6f} s ago, lifetime {L / TPS:.6f} s')
                if suspended:
                    ctx.probe('joined_inflight_load')
                else:
                    ctx.probe('hit')
                    if t - v[2] == L - 1024:
                        ctx.probe('hit_one_tick_before_expiry')
            elif saw_expired:
                ctx.probe('expired_entry_reloaded')
            check_physical('after lookup')

        def do_cancel(rec, sub):
            if sub.done():
                ctx.probe('cancel_after_completion')
                return
            st['n_cancel'] += 1
            rec['cancelled'] = True
            rec['cancel_no'] = st['n_cancel']
            rec['t_cancel'] = now_ticks()
            ctx.fault('task.cancel')
            if not rec['started']:
                role = 'not_started'
            elif rec['initiated'] is not None:
                role = 'first'
                ctx.probe('cancel_first_looker')
                ld = rec['initiated']
                if any((not r['done']) and r is not rec and r['started'] and awaited_load(r) is ld
                       for r in st['lookups']):
                    ctx.probe('cancel_first_looker_with_joiners')
                if ld['state'] in ('done', 'failed'):
                    ctx.probe('cancel_first_looker_after_load_completed')
            else:
                role = 'joiner'
                ctx.probe('cancel_joiner')
            log.add('canceller', 'cancel', rec['name'], role)
            sub.cancel()

        def new_lookup(name, k):
            st['n_lookups'] += 1
            rec = {'id': st['n_lookups'], 'name': name, 'key': k, 'initiated': None, 'open_at_invoke': None,
                   'cancelled': False, 'cancel_no': None, 't_cancel': None, 't_invoke': None, 'done': False,
                   'started': False}
            st['lookups'].append(rec)
            return rec

        async def run_lookup(rec, cancel_after=None):
            sub = asyncio.create_task(do_lookup(rec), name=rec['name'])
            if cancel_after is not None:
                loop.call_later(cancel_after, do_cancel, rec, sub)
            await asyncio.wait({sub})
            rec['done'] = True
            if not sub.cancelled() and sub.exception() is not None:
                raise sub.exception()

        async def looker(i):
            s = ctx.stream(f'task{i}')
            c = ctx.stream(f'cancel:{i}')
            rounds = s.rint(1, max_rounds)
            for r in range(rounds):
                if s.draw(8) == 7:
                    think = (life_g - 2 + s.draw(5)) / 1024   # about one lifetime
                else:
                    think = s.ticks(6)
                await asyncio.sleep(think)
                k = s.draw(n_keys)
                rec = new_lookup(f'L{i}.{r}', k)
                cancel_after = c.ticks(8) if c.chance(0.15) else None
                await run_lookup(rec, cancel_after)

        async def prober():
            s = ctx.stream('prober')
            for n in range(n_passes):
                await asyncio.sleep(s.ticks(24))
                st['probe_due'].append(f'pass{n}')   # carried out by on_idle at this very instant

        tasks = [asyncio.create_task(looker(i), name=f'A{i}') for i in range(n_lookers)]
        tasks.append(asyncio.create_task(prober(), name='prober'))
        done, pending = await asyncio.wait(tasks, timeout=600.0)
        stop_on_violation()
        for t in done:
            if t.exception() is not None:
                raise t.exception()
        if pending:
            raise RuntimeError(f'actors never finished: {sorted(t.get_name() for t in pending)}')
        # loads may outlive the lookups that started them (not in the unchanged code): let them finish
        for _ in range(64):
            if not unfinished_loads():
                break
            await asyncio.sleep(1 / 1024)
        else:
            raise RuntimeError(f'loads never finished: {unfinished_loads()}')
        st['probe_due'].append('end')
        # one lifetime later nothing cached may be served any more; every key loads again
        await asyncio.sleep((life_g + 1) / 1024)
        for k in range(n_keys):
            rec = new_lookup(f'Z.{k}', k)
            await run_lookup(rec)
        st['probe_due'].append('final')
        await asyncio.sleep(2 / 1024)
        stop_on_violation()
        assert not st['probe_due']

    _res, outcome = simulate(ctx, main, max_steps=100_000)
    if st['violation'] is not None:
        raise st['violation']
    if outcome != 'done':
        raise RuntimeError(f'unexpected outcome {outcome}')
    ctx.extra['lookups'] = st['n_lookups']
    ctx.extra['loads'] = len(st['loads'])


def nontrivial(r):
    p = r['probes']
    return bool(r['faults']) or any(p.get(k) for k in ('joined_inflight_load', 'eviction', 'expired_entry_reloaded',
                                                       'load_failed'))
