"""C16 -- batch.semaphore.FIFOWeightedSemaphore (the worker's CPU semaphore) under seeded schedules.

Real code: FIFOWeightedSemaphore and its context manager, imported from the repository at run time and
used exactly like the worker does: `async with sem(weight): ...`.
Actors: K job tasks doing seeded sequences of think / `async with sem(w)` / hold, leaving the block
normally or by exception; then one last job of weight == capacity.  Think and hold times are on a
1/1024 s grid and small, so many arrivals, releases and wake-ups fall into the same loop iteration
(that is where the races are).  No waiter is ever cancelled (the property's quantifier has no
cancellation).

Oracles (all computed from the harness' own invoke / return / release events; `sem.value` and
`sem.queue` are never read):
* safety: sum of weights between acquire-return and release <= capacity at every event;
* FIFO: acquire returns happen in the order of acquire invocations (event sequence numbers).  One
  refinement is needed to stay sound: a waiter that has been *granted* by a release resumes one loop
  iteration later; a job arriving in between finds nobody waiting, fits, and returns at once, i.e.
  before the granted waiter's return is observed.  That is not a grant out of arrival order.  Whether
  an acquire "has been granted" is decided by a reference FIFO model fed with the same event history
  (grant the earliest arrival while it fits; never anybody else).  A return of X is flagged when
  - the model has not granted X (somebody who arrived earlier is still ungranted: overtaking; or X is
    the earliest ungranted arrival and does not fit: granted beyond capacity), or
  - X had to suspend and an earlier arrival has still not returned (waiters resumed out of order);
* liveness: at every instant at which the loop has nothing left to run (loop.idle_hooks: all wake-ups
  due have run), and at final quiescence, the earliest-arrived pending acquire has
  weight > capacity - sum(held).

Sensitivity (mutants of batch/batch/semaphore.py in a scratch copy, HAIL_REPO_ROOT; all on quick budget):
* acquire without the `not self.queue` test (barging)                    -> caught  C16/fifo/overtook_earlier_arrival
* release pops from the tail (`self.queue[-1]` / `pop()`): LIFO grants    -> caught  C16/fifo/overtook_earlier_arrival
* release grants any fitting waiter, not only the head                    -> caught  C16/fifo/overtook_earlier_arrival
* release without `self.value -= head_weight` (over-grant)                -> caught  C16/safety/over_capacity
* release stops after one grant (`break` after the first pop)             -> caught  C16/liveness/head_blocked_with_free_capacity
* acquire fast path forgets `self.value -= weight`                        -> caught  C16/safety/over_capacity
* release sets the events of one release call in reverse order           -> caught  C16/fifo/waiters_resumed_out_of_arrival_order
"""
import asyncio

from simkit.core import Violation
from worlds.common import simulate

NAME = 'prims.fifosem'
RULE = ('capacity 1..12 (thorough 1..16), 1..6 (8) jobs x 1..3 (4) rounds of think / async with sem(w) / hold, '
        'w in 1..capacity drawn uniform, small or large, think 0..6 and hold 0..8 ticks of 1/1024 s, body left normally '
        'or by exception, a final job of weight == capacity; no cancellation')
COMPONENTS = {
    'batch.semaphore.FIFOWeightedSemaphore': 'real',
    'batch.semaphore.FIFOWeightedSemaphoreContextManager': 'real',
    'asyncio event loop / clock': 'simulated (SimLoop, virtual time)',
    'job tasks': 'simulator actors',
    'reference FIFO grant model': 'oracle (decides only whether an acquire has been granted yet)',
}
ASSUMPTIONS = ['asyncio.Event/Task semantics are those of CPython 3.12 running on the simulated loop',
               'ready callbacks run FIFO as documented for call_soon']


class BodyError(Exception):
    pass


def run(ctx):
    from simkit import shim
    shim.install()
    from batch.semaphore import FIFOWeightedSemaphore

    wide = ctx.tier == 'thorough'
    cfg = ctx.stream('cfg')
    cap = cfg.rint(1, 16 if wide else 12)
    n_tasks = cfg.rint(1, 8 if wide else 6)
    max_rounds = 4 if wide else 3
    log = ctx.log
    st = {'held': 0, 'max_held': 0, 'pending': [], 'n_acq': 0, 'violation': None,
          'm_free': cap, 'm_queue': [], 'm_granted': set()}

    def fail(oracle, signature, detail):
        v = Violation('C16', oracle, signature, detail)
        if st['violation'] is None:
            st['violation'] = v
            log.add('oracle', 'violation', signature)
        raise st['violation']

    def model_grant():
        n = 0
        q = st['m_queue']
        while q and q[0]['w'] <= st['m_free']:
            r = q.pop(0)
            st['m_free'] -= r['w']
            st['m_granted'].add(r['id'])
            n += 1
        return n

    async def main(loop):
        sem = FIFOWeightedSemaphore(cap)

        def stop_on_violation():
            if st['violation'] is not None:
                raise st['violation']

        def check_head(where):
            if st['violation'] is not None:
                raise st['violation']
            if st['pending']:
                head = st['pending'][0]
                free = cap - st['held']
                if head['w'] <= free:
                    log.add('oracle', 'head_blocked', head['actor'], head['w'], free, where)
                    fail('liveness', 'C16/liveness/head_blocked_with_free_capacity',
                         f'{where}: earliest pending acquire ({head["actor"]}, weight {head["w"]}) is blocked while '
                         f'{free} of {cap} is free')

        loop.step_hooks.append(stop_on_violation)
        loop.idle_hooks.append(lambda: check_head('idle'))

        def invoke(me, w):
            st['n_acq'] += 1
            rec = {'id': st['n_acq'], 'actor': me, 'w': w, 'step': loop.steps}
            rec['seq'] = log.add(me, 'acq_invoke', w)
            if st['m_queue'] and w <= st['m_free']:
                # fits, but somebody who arrived earlier is still waiting: must queue behind the head
                ctx.probe('waiter_queued_behind_head')
            st['pending'].append(rec)
            st['m_queue'].append(rec)
            model_grant()
            return rec

        def returned(rec):
            suspended = loop.steps != rec['step']
            earlier = [r for r in st['pending'] if r['id'] < rec['id']]
            st['pending'].remove(rec)
            st['held'] += rec['w']
            st['max_held'] = max(st['max_held'], st['held'])
            log.add(rec['actor'], 'acq_return', rec['w'], st['held'], 'waited' if suspended else 'at_once')
            if suspended:
                ctx.probe('waiter_queued')
            if st['held'] > cap:
                fail('safety', 'C16/safety/over_capacity', f'held {st["held"]} > capacity {cap}')
            if rec['id'] not in st['m_granted']:
                ahead = [r for r in st['m_queue'] if r['id'] < rec['id']]
                if ahead:
                    fail('fifo', 'C16/fifo/overtook_earlier_arrival',
                         f'{rec["actor"]} (weight {rec["w"]}, arrival #{rec["id"]}) returned from acquire while '
                         f'{ahead[0]["actor"]} (weight {ahead[0]["w"]}, arrival #{ahead[0]["id"]}) has not been granted')
                fail('safety', 'C16/safety/granted_beyond_capacity',
                     f'{rec["actor"]} (weight {rec["w"]}) returned from acquire although all earlier arrivals hold or '
                     f'have been granted {cap - st["m_free"]} of {cap}')
            if earlier:
                # every earlier arrival has been granted (FIFO model) but has not resumed yet
                if suspended:
                    fail('fifo', 'C16/fifo/waiters_resumed_out_of_arrival_order',
                         f'{rec["actor"]} (arrival #{rec["id"]}) waited and resumed before {earlier[0]["actor"]} '
                         f'(arrival #{earlier[0]["id"]})')
                ctx.probe('fastpath_overtakes_granted_waiter')

        def released(rec):
            st['held'] -= rec['w']
            st['m_free'] += rec['w']
            n = model_grant()
            log.add(rec['actor'], 'release', rec['w'], st['held'])
            if n >= 2:
                ctx.probe('multi_grant_release')
            if n >= 1 and st['m_queue']:
                ctx.probe('release_grants_some_not_all')

        async def job(me, w, hold, raise_in_body):
            rec = invoke(me, w)
            try:
                # the holding interval is exactly the body of the block: __aenter__ returns and
                # __aexit__ releases without an await in between
                async with sem(w):
                    returned(rec)
                    try:
                        await asyncio.sleep(hold)
                        if raise_in_body:
                            ctx.probe('exit_by_exception')
                            raise BodyError()
                    finally:
                        released(rec)
            except BodyError:
                pass

        async def holder(i):
            s = ctx.stream(f'task{i}')
            me = f'j{i}'
            rounds = s.rint(1, max_rounds)
            for _ in range(rounds):
                await asyncio.sleep(s.ticks(6))
                kind = s.draw(3)
                third = max(1, cap // 3)
                if kind == 0:
                    w = s.rint(1, cap)
                elif kind == 1:
                    w = s.rint(1, third)
                else:
                    w = cap - s.draw(third)
                hold = s.ticks(8)
                mode = s.draw(5)  # 4: leave the body by exception
                await job(me, w, hold, mode == 4)

        tasks = [asyncio.create_task(holder(i), name=f'j{i}') for i in range(n_tasks)]
        done, pending = await asyncio.wait(tasks, timeout=600.0)
        if st['violation'] is not None:
            raise st['violation']
        for t in done:
            if t.exception() is not None:
                raise t.exception()
        if pending:
            check_head('quiescence')
            raise RuntimeError(f'jobs never finished: {sorted(t.get_name() for t in pending)} held={st["held"]}')
        assert st['held'] == 0 and not st['pending'], st
        # last job: the whole capacity at once (it is at the head and everything is free)
        last = asyncio.create_task(job('last', cap, 0.0, False), name='last')
        done, pending = await asyncio.wait([last], timeout=100.0)
        if st['violation'] is not None:
            raise st['violation']
        if pending:
            check_head('quiescence')
            raise RuntimeError('last job blocked but oracle silent')
        if last.exception() is not None:
            raise last.exception()
        log.add('oracle', 'full_capacity_reacquired', cap)

    _res, outcome = simulate(ctx, main, max_steps=200_000)
    if outcome != 'done':
        raise RuntimeError(f'unexpected outcome {outcome}')
    ctx.extra['max_held_frac'] = st['max_held'] / cap


def nontrivial(r):
    return r['n_events'] >= 8 and r['probes'].get('waiter_queued', 0) > 0
