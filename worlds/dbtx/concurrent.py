"""C27 -- concurrent gear.database operations under injected errors at every transaction statement and cancellation.

Real code: gear.database (Database, TransactionAsyncContextManager, Transaction, @transaction,
retry_transient_mysql_errors, execute_* helpers, check_call_procedure), hailtop.utils.sleep_before_try,
hailtop.aiotools.BackgroundTaskManager.  Simulated: MySQL server (minimysql scratch schema), aiomysql/pymysql (fake
driver), clock, event loop.

One run = 1-4 concurrent calls.  Transactional calls all go through ONE `@transaction(db)`-decorated function (as the
repository's `compact(tx, target)` / migration closures do); the others are `Database.execute_*` helpers.  Every call
owns a private key range and performs 2-5 writes to distinct keys of it (INSERT / UPDATE v=v+d / DELETE / CALL),
interleaved with SELECTs and non-database awaits; some bodies raise on purpose mid-body (application error, 1644 from a
trigger, 1062 duplicate) or convert a MySQL error into an application error inside their `except` block.  Per call a
fault script injects up to 3 errors at connection acquisition / START TRANSACTION / any statement / COMMIT / ROLLBACK
(so a second error can hit the ROLLBACK that follows a first one), transient {1213, 1205, 2013, 1040, 2003} and
non-transient {1927 connection killed, 1317 interrupted, InterfaceError(0, ''), 1180 at COMMIT, 1045 at connect};
a call may be cancelled either between two body steps of its first/second attempt or at a seeded instant (which can
fall into a statement, a lock wait, the shielded COMMIT/ROLLBACK or the back-off sleep).

Oracles (all computed from the recorded history, never from the repository's own classification):
 * retry (calls that were never cancelled): the LAST error raised inside an attempt decides, exactly as `raise` inside
   `except` / `__aexit__` does: every attempt but the last must have ended with a transient error
   (`retried_non_retryable/<code>` otherwise); if the last attempt ended with a transient error the call must not have
   stopped (`not_retried/<code>`); if it ended with a non-transient error the call must have raised
   (`error_swallowed/<code>`); an attempt without any error is the last one and the call returns normally.
 * atomicity (every call): after quiescence the durable rows of the call's key range equal its complete write-set iff
   the call returned normally, and its initial rows otherwise -- a cancelled call whose COMMIT had already been issued
   when the cancellation was requested may be either, but never partial.
 * no leak: no connection is still checked out of the pool, no transaction open, server lock free.
 * liveness: every call ends.

   "COMMIT issued" starts when the body has completed: `__aexit__` hands the COMMIT to a shielded task without a
   further await of the caller, so a cancellation that arrives from then on cannot stop it (seen on the unchanged
   tree: helper cancelled between its statement and the start of the shielded task; not a defect).

Mutations tried (seeded/C27-4,5,6 and a scratch edit; share of runs that fail): retry decision follows
exc.__context__ -> retried_non_retryable/{1927,1317,InterfaceError,AppError} (8 %); db.start() hoisted out of the
per-attempt wrapper -> connection_left_checked_out, operation_hangs, writes_lost/returned_normally,
writes_left_behind/* (33 %); rollback only for Exception subclasses -> writes_left_behind/after_cancel (11 %); always
COMMIT in Transaction._aexit_1 -> writes_left_behind/after_error, after_cancel (38 %).  The older seeded changes are
seen here too (retry inside the open transaction -> error_swallowed/1205, swallowed COMMIT errors -> not_retried).
"""
import asyncio
import contextvars

from simkit import entropy
from worlds.common import simulate

NAME = 'dbtx.concurrent'
RULE = ('1-4 concurrent calls: one shared @transaction(db) function (2-5 writes to distinct private keys, SELECTs and '
        'non-database awaits in between, optional deliberate failure mid-body) and Database.execute_* helpers; per call '
        '0-3 injected errors at connect / START TRANSACTION / statement / COMMIT / ROLLBACK from transient {1213, 1205, '
        '2013 before/after, 1040, 2003} and non-transient {1927, 1317, InterfaceError, 1180, 1045}; per call optional '
        'cancellation between two body steps of attempt 1 or 2, or at a seeded instant')
COMPONENTS = {
    'gear.database (Database, TransactionAsyncContextManager, Transaction, transaction, retry_transient_mysql_errors, '
    'execute_* helpers, check_call_procedure)': 'real',
    'hailtop.utils.sleep_before_try / hailtop.aiotools.BackgroundTaskManager': 'real',
    'MySQL server': 'minimysql (scratch schema); write transactions serialised by one lock',
    'aiomysql / pymysql': 'fake driver; error-class mapping re-implemented from pymysql 1.1.2; COMMIT / ROLLBACK '
                          'faults injected by this scenario around the fake connection',
    'clock, event loop, task cancellation': 'simulated',
}
ASSUMPTIONS = ['an injected error at COMMIT or ROLLBACK leaves nothing of the transaction behind on the server (the '
               'session is rolled back / killed before the error is raised); ack-lost COMMIT is not injected',
               'after a lost connection the fake connection\'s rollback() succeeds silently (leniency, DESIGN 4.3)',
               'a statement cancelled in flight has not been executed (cancellation lands in the driver latency or the '
               'lock wait) and leaves the fake connection usable',
               'which exception surfaces is decided by the last `raise` of the attempt (Python semantics); the oracle '
               'does not require a particular exception object, only raised / returned']

CALL = contextvars.ContextVar('dbtx_call', default=None)
TRANSIENT = (1040, 1205, 1213, 2003, 2013)
KEYS = 6
STRIDE = 10
DEADLINE = 3000.0

STMT_FAULTS = ['deadlock', 'lock_timeout', 'lost_conn', 'lost_conn_after', 'killed', 'iface', 'interrupted']
BEGIN_FAULTS = ['deadlock', 'lock_timeout', 'lost_conn', 'killed', 'iface', 'interrupted']
COMMIT_FAULTS = ['lost_conn', 'deadlock', 'commit_err', 'killed', 'iface']
ROLLBACK_FAULTS = ['killed', 'iface', 'lost_conn', 'interrupted']
CONNECT_FAULTS = ['too_many_conn', 'cant_connect', 'denied']


class AppError(Exception):
    """raised on purpose by a generated body."""


class _Call:
    def __init__(self, i):
        self.i = i
        self.kind = 'tx'
        self.helper = None
        self.steps = []
        self.wrap = False
        self.before = {}
        self.after = {}
        self.script = []
        self.pending = []
        self.fired = []
        self.attempts = []
        self.stmt_no = 0
        self.n_db = 0
        self.cancel = None      # ('point', attempt, step) | ('time', delay)
        self.cancel_req = None  # {'in_commit': bool, 'attempt': n, 'wrote': bool}
        self.outcome = None
        self.exc = None
        self.start_delay = 0.0
        self.task = None


def _code(e):
    if e is None:
        return 'none'
    if e.args and isinstance(e.args[0], int) and e.args[0] > 0:
        return str(e.args[0])
    return type(e).__name__


def run(ctx):
    from minimysql import driver as dbdriver
    from minimysql.engine import Engine
    from worlds.batch import env as benv
    benv.setup()
    import gear.database as gdb
    import pymysql
    log = ctx.log

    def transient(e):
        return (isinstance(e, (dbdriver.OperationalError, dbdriver.InternalError)) and bool(e.args)
                and e.args[0] in TRANSIENT)

    eng = Engine(rand=ctx.stream('sql.rand').flt)
    adm = eng.session()
    for q in ("CREATE TABLE t (k INT NOT NULL, v INT NOT NULL, PRIMARY KEY (k))",
              "CREATE TABLE guarded (k INT NOT NULL, PRIMARY KEY (k))",
              "CREATE TRIGGER guarded_bi BEFORE INSERT ON guarded FOR EACH ROW BEGIN IF NEW.k < 0 THEN "
              "SIGNAL SQLSTATE '45000' SET MESSAGE_TEXT = 'negative key'; END IF; END",
              "CREATE PROCEDURE bump(IN in_k INT) BEGIN UPDATE t SET v = v + 100 WHERE k = in_k; SELECT 0 AS rc; END"):
        eng.execute(adm, q)

    # ---- generation ------------------------------------------------------------------------------------------
    cfg = ctx.stream('cfg')
    n_calls = 1 + cfg.draw(4)
    calls = [_gen_call(ctx, i) for i in range(n_calls)]
    for c in calls:
        for k in sorted(c.before):
            eng.execute(adm, 'INSERT INTO t (k, v) VALUES (%s, %s)', (k, c.before[k]))
        c.pending = list(c.script)
        log.add(f'call{c.i}', 'spec', c.kind if c.kind == 'tx' else c.helper,
                '-'.join(s[0] for s in c.steps) + ('_wrap' if c.wrap else ''),
                ','.join(f'{s}:{fk}' for s, fk in c.script), repr(c.cancel))

    st = {'in_body': 0}

    def cur():
        i = CALL.get()
        return calls[i] if i is not None else None

    def rec_err(c, e, where):
        if c is None or not c.attempts:
            return
        a = c.attempts[-1]
        if a['errs']:
            ctx.probe('second_error_in_attempt')
            if where == 'rollback':
                prev = a['errs'][-1][1]
                ctx.probe(('transient' if transient(prev) else 'other') + '_then_'
                          + ('transient' if transient(e) else 'other') + '_at_rollback')
        a['errs'].append((where, e))
        log.add(f'call{c.i}', 'error', where, _code(e), len(c.attempts))

    def take(c, name):
        if c is None:
            return None
        for j, (s_, fk) in enumerate(c.pending):
            if s_ == name:
                del c.pending[j]
                return fk
        return None

    def fire(c, name, fk, conn):
        """apply the server-side effect of the fault and raise the client-side error."""
        ctx.fault('db.' + fk)
        ctx.probe(f'site_{fk}_{"stmt" if name.startswith("stmt") else name}')
        log.add(f'call{c.i}', 'inject', name, fk, len(c.attempts))
        c.fired.append((len(c.attempts), name, fk))
        Op = dbdriver.OperationalError
        if name == 'connect':
            if fk == 'too_many_conn':
                raise Op(1040, 'Too many connections')
            if fk == 'cant_connect':
                raise Op(2003, "Can't connect to MySQL server on 'db'")
            raise Op(1045, "Access denied for user 'sim'@'10.0.0.1' (using password: YES)")
        sess = conn.sess
        if fk == 'deadlock':
            eng.rollback(sess)
            srv.unlock(sess)
            raise Op(1213, 'Deadlock found when trying to get lock; try restarting transaction')
        if fk == 'lock_timeout':
            raise Op(1205, 'Lock wait timeout exceeded; try restarting transaction')
        if fk == 'interrupted':
            raise Op(1317, 'Query execution was interrupted')
        # the remaining kinds end the server session: whatever the transaction did is rolled back
        conn.dead = True
        srv.kill_session(sess)
        if fk in ('lost_conn', 'lost_conn_after'):
            raise Op(2013, 'Lost connection to MySQL server during query')
        if fk == 'killed':
            raise Op(1927, 'Connection was killed')
        if fk == 'commit_err':
            raise Op(1180, 'Got error 28 during COMMIT')
        if fk == 'iface':
            raise dbdriver.InterfaceError(0, '')
        raise AssertionError(fk)

    def fault(site, conn):
        c = cur()
        if c is None or site == 'commit':
            return None
        if site == 'connect':
            fk = take(c, 'connect')
            if fk is not None:
                fire(c, 'connect', fk, None)
            return None
        name = 'begin' if c.stmt_no == 0 else f'stmt{c.stmt_no - 1}'
        for j, (s_, fk) in enumerate(c.pending):
            if s_ != name or (fk == 'lost_conn_after') != (site == 'post'):
                continue
            del c.pending[j]
            fire(c, name, fk, conn)
        return None

    def latency(what):
        i = CALL.get()
        return ctx.stream(f'lat{i}' if i is not None else 'lat').ticks(2)

    srv = dbdriver.Server(eng, latency=latency, fault=fault)
    orig_run = dbdriver.Connection._run
    orig_commit = dbdriver.Connection.commit
    orig_rollback = dbdriver.Connection.rollback
    orig_acquire = dbdriver.Pool._acquire

    async def acquire_w(self):
        c = cur()
        if c is not None:
            c.attempts.append({'errs': [], 'commit_begun': False, 'exit_begun': False, 'wrote': False,
                               'body_done': False})
            c.stmt_no = 0
            log.add(f'call{c.i}', 'attempt', len(c.attempts))
        try:
            return await orig_acquire(self)
        except Exception as e:  # pylint: disable=broad-except
            rec_err(c, e, 'connect')
            raise

    async def run_w(self, query, args, many=False):
        c = cur()
        try:
            res = await orig_run(self, query, args, many)
            if c is not None and c.attempts and c.stmt_no > 0 and not query.lstrip().upper().startswith('SELECT'):
                c.attempts[-1]['wrote'] = True
            if c is not None and c.attempts and c.kind == 'helper' and c.stmt_no == c.n_db:
                # the helper's only / last statement ran: what follows is the helper's own COMMIT
                c.attempts[-1]['body_done'] = True
            return res
        except Exception as e:  # pylint: disable=broad-except
            rec_err(c, e, 'begin' if c is not None and c.stmt_no == 0 else 'stmt')
            raise
        finally:
            if c is not None:
                c.stmt_no += 1

    async def exit_w(self, name, orig):
        c = cur()
        if c is not None and c.attempts:
            c.attempts[-1]['exit_begun'] = True
            if name == 'commit':
                c.attempts[-1]['commit_begun'] = True
            log.add(f'call{c.i}', name, len(c.attempts))
        try:
            if not self.dead and not self.closed:
                fk = take(c, name)
                if fk is not None:
                    lat = srv.latency(name)
                    if lat:
                        await asyncio.sleep(lat)
                    fire(c, name, fk, self)
            await orig(self)
        except Exception as e:  # pylint: disable=broad-except
            rec_err(c, e, name)
            raise

    async def commit_w(self):
        await exit_w(self, 'commit', orig_commit)

    async def rollback_w(self):
        await exit_w(self, 'rollback', orig_rollback)

    def request_cancel(c, how):
        if c.task is None or c.task.done() or c.cancel_req is not None:
            return
        a = c.attempts[-1] if c.attempts else None
        if not c.task.cancel():
            return
        # the body had completed (its COMMIT is issued without a further await of the caller, inside a shield) or the
        # COMMIT is in flight: the outcome of the transaction is no longer the caller's to decide
        c.cancel_req = {'in_commit': bool(a and (a['commit_begun'] or a['body_done'])), 'attempt': len(c.attempts),
                        'wrote': bool(a and a['wrote']), 'in_exit': bool(a and a['exit_begun'])}
        ctx.fault('task.cancel')
        log.add(f'call{c.i}', 'cancel', how, len(c.attempts))
        if how == 'point' and c.cancel_req['wrote']:
            ctx.probe('cancel_between_statements_after_write')
            if len(c.attempts) >= 2:
                ctx.probe('cancel_after_retry')
        if c.cancel_req['in_commit']:
            ctx.probe('cancel_during_commit')
        elif c.cancel_req['in_exit']:
            ctx.probe('cancel_during_rollback')

    async def main(loop):
        dbdriver.CURRENT_SERVER[0] = srv
        dbdriver.Connection._run = run_w
        dbdriver.Connection.commit = commit_w
        dbdriver.Connection.rollback = rollback_w
        dbdriver.Pool._acquire = acquire_w
        entropy.install(ctx.stream('entropy', 'prng'))
        try:
            db = gdb.Database()
            await db.async_init(maxsize=3)
            st['pool'] = db.pool

            @gdb.transaction(db)
            async def op(tx, c):
                n_att = len(c.attempts)
                st['in_body'] += 1
                if st['in_body'] > 1:
                    ctx.probe('overlapping_bodies')
                try:
                    try:
                        for j, step in enumerate(c.steps):
                            if c.cancel and c.cancel[0] == 'point' and c.cancel[1:] == (n_att, j):
                                request_cancel(c, 'point')
                                await asyncio.sleep(0)
                            await _step(tx, c, step)
                        if c.cancel and c.cancel[0] == 'point' and c.cancel[1:] == (n_att, len(c.steps)):
                            request_cancel(c, 'point')
                            await asyncio.sleep(0)
                        if 0 < n_att <= len(c.attempts):
                            c.attempts[n_att - 1]['body_done'] = True
                    except pymysql.err.MySQLError:
                        if not c.wrap:
                            raise
                        e2 = AppError('wrapped')
                        rec_err(c, e2, 'body')
                        raise e2  # pylint: disable=raise-missing-from
                finally:
                    st['in_body'] -= 1

            async def _step(tx, c, step):
                what = step[0]
                if what == 'ins':
                    await tx.execute_insertone('INSERT INTO t (k, v) VALUES (%s, %s)', (step[1], step[2]))
                elif what == 'upd':
                    await tx.execute_update('UPDATE t SET v = v + %s WHERE k = %s', (step[2], step[1]))
                elif what == 'del':
                    await tx.just_execute('DELETE FROM t WHERE k = %s', (step[1],))
                elif what == 'call':
                    await tx.execute_and_fetchone('CALL bump(%s)', (step[1],))
                elif what == 'many':
                    await tx.execute_many('INSERT INTO t (k, v) VALUES (%s, %s)', step[1])
                elif what == 'sel':
                    async for _row in tx.execute_and_fetchall('SELECT k, v FROM t WHERE k >= %s AND k < %s',
                                                              (c.i * STRIDE, c.i * STRIDE + KEYS)):
                        pass
                elif what == 'pause':
                    await asyncio.sleep(step[1])
                elif what == 'raise':
                    e = AppError('deliberate')
                    rec_err(c, e, 'body')
                    raise e
                elif what == 'bad1644':
                    await tx.execute_insertone('INSERT INTO guarded (k) VALUES (%s)', (-1,))
                elif what == 'bad1062':
                    await tx.execute_insertone('INSERT INTO t (k, v) VALUES (%s, %s)', (step[1], 1))
                else:
                    raise AssertionError(what)

            async def helper(c):
                what, arg = c.helper, c.steps[0]
                if what == 'many':
                    await db.execute_many('INSERT INTO t (k, v) VALUES (%s, %s)', arg[1])
                elif what == 'ins':
                    await db.execute_insertone('INSERT INTO t (k, v) VALUES (%s, %s)', (arg[1], arg[2]))
                elif what == 'upd':
                    await db.execute_update('UPDATE t SET v = v + %s WHERE k = %s', (arg[2], arg[1]))
                elif what == 'del':
                    await db.just_execute('DELETE FROM t WHERE k = %s', (arg[1],))
                else:
                    await db.check_call_procedure('CALL bump(%s)', (arg[1],))

            async def call_main(c):
                CALL.set(c.i)
                try:
                    if c.start_delay:
                        await asyncio.sleep(c.start_delay)
                    if c.kind == 'tx':
                        await op(c)
                    else:
                        await helper(c)
                    res = 'ok'
                except asyncio.CancelledError:
                    res = 'cancelled'
                except Exception as e:  # pylint: disable=broad-except
                    res = 'raised'
                    c.exc = e
                if c.outcome is None:  # 'hang' is final
                    c.outcome = res
                log.add(f'call{c.i}', 'outcome', c.outcome, _code(c.exc) if c.exc is not None else '')

            async def canceller(c, delay):
                await asyncio.sleep(delay)
                request_cancel(c, 'time')

            for c in calls:
                c.task = loop.create_task(call_main(c))
            extra = [loop.create_task(canceller(c, c.cancel[1])) for c in calls if c.cancel and c.cancel[0] == 'time']
            _done, pending = await asyncio.wait([c.task for c in calls], timeout=DEADLINE)
            for c in calls:
                if c.task in pending:
                    c.outcome = 'hang'
                    c.task.cancel()
            for t in extra:
                t.cancel()
            # quiescence: shielded COMMIT/ROLLBACKs of cancelled calls and the connection-release tasks finish
            await asyncio.sleep(200)
            st['used'] = len(db.pool._used)
            st['open'] = sum(1 for cn in srv.conns if not cn.closed and not cn.dead
                             and (cn.sess.in_txn or cn.sess.journal))
            st['lock'] = srv.owner is not None or bool(srv.waiters)
            # what is durable: everything still uncommitted is discarded
            for cn in srv.conns:
                if not cn.closed:
                    srv.kill_session(cn.sess)
        finally:
            dbdriver.Connection._run = orig_run
            dbdriver.Connection.commit = orig_commit
            dbdriver.Connection.rollback = orig_rollback
            dbdriver.Pool._acquire = orig_acquire
            dbdriver.CURRENT_SERVER[0] = None
            entropy.uninstall()

    _r, outcome = simulate(ctx, main, max_steps=400_000)
    if outcome != 'done':
        raise RuntimeError(outcome)

    # ---- oracles ---------------------------------------------------------------------------------------------
    final = {r[0]: r[1] for r in eng.tables['t'].rows.values()}

    def history(c):
        atts = ' | '.join(','.join(f'{w}:{_code(e)}' for w, e in a['errs']) or 'clean' for a in c.attempts)
        return (f'call{c.i} {c.kind if c.kind == "tx" else "helper " + str(c.helper)} steps {c.steps} '
                f'wrap={c.wrap}: attempts [{atts}], injected {c.fired}, cancel {c.cancel_req}, outcome {c.outcome}'
                f'{"" if c.exc is None else " " + repr(c.exc)[:120]}')

    everything = '; '.join(history(c) for c in calls)
    if len(calls) > 1:
        ctx.probe('concurrent_calls')
    for c in calls:
        if c.outcome == 'hang':
            ctx.violation('C27', 'liveness', 'C27/operation_hangs', everything)
    # atomicity, per call
    owned = set()
    for c in calls:
        lo = c.i * STRIDE
        owned.update(range(lo, lo + KEYS))
        mine = {k: v for k, v in final.items() if lo <= k < lo + KEYS}
        full = mine == c.after
        none = mine == c.before
        if c.outcome == 'ok':
            if not full:
                ctx.violation('C27', 'atomicity',
                              'C27/writes_lost/returned_normally' if none else 'C27/wrong_final_state/returned_normally',
                              f'durable rows {mine}, complete write-set gives {c.after} (initially {c.before}); '
                              + everything)
            continue
        if c.outcome == 'cancelled' and c.cancel_req and c.cancel_req['in_commit']:
            ctx.probe('cancelled_with_commit_in_flight')
            if not (full or none):
                ctx.violation('C27', 'atomicity', 'C27/writes_left_behind/partial_after_cancel_in_commit',
                              f'durable rows {mine}, initially {c.before}, complete {c.after}; ' + everything)
            continue
        if not none:
            why = 'after_cancel' if c.outcome == 'cancelled' else 'after_error'
            ctx.violation('C27', 'atomicity', f'C27/writes_left_behind/{why}',
                          f'the call did not return normally but durable rows are {mine}, initially {c.before} '
                          f'(complete write-set {c.after}); ' + everything)
    stray = {k: v for k, v in final.items() if k not in owned}
    if stray:
        ctx.violation('C27', 'atomicity', 'C27/wrong_final_state/foreign_rows', f'{stray}; ' + everything)
    # leaks
    if st['used']:
        ctx.violation('C27', 'atomicity', 'C27/connection_left_checked_out',
                      f'{st["used"]} connection(s) never released to the pool; ' + everything)
    if st['open'] or st['lock']:
        ctx.violation('C27', 'atomicity', 'C27/transaction_left_open',
                      f'{st["open"]} open transaction(s), lock held {st["lock"]}; ' + everything)
    # retry decisions, calls that were never cancelled
    for c in calls:
        if c.cancel_req is not None:
            continue
        if c.fired:
            ctx.probe('faulted_call')
        atts = c.attempts
        for n, a in enumerate(atts[:-1]):
            if not a['errs']:
                ctx.violation('C27', 'retry', 'C27/retried_without_error',
                              f'attempt {n + 1} raised nothing yet another attempt followed; ' + everything)
            last = a['errs'][-1][1]
            if not transient(last):
                if len(a['errs']) > 1:
                    ctx.probe('decided_by_second_error')
                ctx.violation('C27', 'retry', f'C27/retried_non_retryable/{_code(last)}',
                              f'attempt {n + 1} ended with {last!r} (not transient) and the operation was run again; '
                              + everything)
        if not atts:
            continue
        errs = atts[-1]['errs']
        if not errs:
            if c.outcome != 'ok':
                ctx.violation('C27', 'retry', f'C27/failed_without_error/{type(c.exc).__name__}',
                              f'no statement of the last attempt failed but the call raised {c.exc!r}; ' + everything)
            continue
        last = errs[-1][1]
        if len(errs) > 1:
            ctx.probe('decided_by_second_error')
        if c.outcome == 'ok':
            ctx.violation('C27', 'retry', f'C27/error_swallowed/{_code(last)}',
                          f'the last attempt ended with {last!r} but the call returned normally; ' + everything)
        if transient(last):
            ctx.violation('C27', 'retry', f'C27/not_retried/{_code(last)}',
                          f'the last attempt ended with the transient {last!r} and the call stopped with {c.exc!r}; '
                          + everything)
        else:
            ctx.probe('non_transient_surfaced')
    ctx.extra['calls'] = n_calls
    ctx.extra['attempts'] = sum(len(c.attempts) for c in calls)


def _gen_call(ctx, i):
    s = ctx.stream(f'call{i}')
    c = _Call(i)
    lo = i * STRIDE
    for k in range(lo, lo + KEYS):
        if s.draw(2):
            c.before[k] = s.draw(5)
    c.after = dict(c.before)
    c.start_delay = s.ticks(8)
    c.kind = 'tx' if s.draw(4) < 3 else 'helper'
    keys = s.shuffle(list(range(lo, lo + KEYS)))

    def write(k):
        if k not in c.before:
            v = 1 + s.draw(8)
            c.after[k] = v
            return ('ins', k, v)
        w = s.draw(3)
        if w == 0:
            d = 1 + s.draw(3)
            c.after[k] += d
            return ('upd', k, d)
        if w == 1:
            del c.after[k]
            return ('del', k)
        c.after[k] += 100
        return ('call', k)

    if c.kind == 'helper':
        absent = [k for k in keys if k not in c.before]
        h = s.draw(3)
        if h == 0 and len(absent) >= 2:
            rows = [(k, 1 + s.draw(8)) for k in absent[:s.rint(2, 4)]]
            for k, v in rows:
                c.after[k] = v
            c.helper = 'many'
            c.steps = [('many', rows)]
        else:
            step = write(keys[0])
            c.helper = step[0]
            c.steps = [step]
        n_db = len(c.steps[0][1]) if c.helper == 'many' else 1
    else:
        n_w = s.rint(2, 5)
        steps = []
        for k in keys[:n_w]:
            g = s.draw(4)
            if g == 1:
                steps.append(('pause', (1 + s.draw(6)) / 1024))
            elif g == 2:
                steps.append(('sel',))
            elif g == 3:
                steps.append(('pause', (1 + s.draw(6)) / 1024))
                steps.append(('sel',))
            steps.append(write(k))
        fail = s.draw(8)
        if fail >= 5:
            pos = s.draw(len(steps) + 1)
            if fail == 5:
                steps.insert(pos, ('raise',))
            elif fail == 6:
                steps.insert(pos, ('bad1644',))
            else:
                # a key of this call that exists when the statement runs
                tmp = dict(c.before)
                for stp in steps[:pos]:
                    if stp[0] == 'ins':
                        tmp[stp[1]] = stp[2]
                    elif stp[0] == 'del':
                        tmp.pop(stp[1], None)
                if tmp:
                    steps.insert(pos, ('bad1062', sorted(tmp)[0]))
                else:
                    steps.insert(pos, ('bad1644',))
            c.after = dict(c.before)  # such a body never commits
        c.wrap = s.draw(8) == 7
        c.steps = steps
        n_db = sum(1 for stp in steps if stp[0] not in ('pause', 'raise'))

    c.n_db = n_db
    # fault script
    sf = ctx.stream(f'fault{i}')
    sites = ['connect', 'begin'] + [f'stmt{j}' for j in range(n_db)] + ['commit'] + ['rollback'] * 3
    for _ in range(sf.draw(4)):
        site = sf.pick(sites)
        if site == 'connect':
            fk = sf.pick(CONNECT_FAULTS)
        elif site == 'begin':
            fk = sf.pick(BEGIN_FAULTS)
        elif site == 'commit':
            fk = sf.pick(COMMIT_FAULTS)
        elif site == 'rollback':
            fk = sf.pick(ROLLBACK_FAULTS)
        else:
            fk = sf.pick(STMT_FAULTS)
        c.script.append((site, fk))

    # cancellation
    sc = ctx.stream(f'cancel{i}')
    m = sc.draw(8)
    if m in (5, 6) and c.kind == 'tx':
        c.cancel = ('point', 1 + sc.draw(2), sc.draw(len(c.steps) + 1))
    elif m >= 5:
        c.cancel = ('time', sc.ticks(60) if sc.draw(2) == 0 else sc.flt() * 5)
    return c


def nontrivial(r):
    return bool(r['faults'])
