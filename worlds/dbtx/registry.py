from checks_common import DST

ENGINE = {'name': 'dbtx', 'path': 'worlds/dbtx/', 'serves_properties': ['C27'],
          'kind_free_text': 'real gear.database on minimysql through the fake aiomysql driver; scripted error injection at '
                            'every statement position'}
CHECKS = {
    'C27': {
        'level': 'fault_enumeration',
        'engine': 'dbtx',
        'technique': DST + ': injected MySQL errors at every statement position of a transaction (connect, START '
                           'TRANSACTION, each statement, COMMIT) x error kind x repetition, atomicity oracle against a '
                           'dict model',
        'design_ref': 'DESIGN.md section 6 (C27), section 4.3',
        'level_text': 'Each run executes one transactional operation of the real gear.database under a scripted sequence '
                      'of injected server errors; positions x kinds are sampled densely (counted per site in the '
                      'evidence), retried/not-retried behaviour and the final table are compared with the model.',
        'level_note': 'Trusts the re-implemented pymysql error-class mapping and minimysql; bodies <= 5 statements, '
                      '<= 3 injected errors per operation; ack-lost COMMIT excluded.',
        'scenarios': [{'module': 'worlds.dbtx.tx', 'quick': 30000, 'thorough': 1500000}],
        'expected_probes': ['site_deadlock_stmt0', 'site_lock_timeout_stmt1', 'site_lost_conn_before_commit_commit',
                            'site_too_many_conn_connect', 'site_lost_conn_after_stmt2'],
    },
}
