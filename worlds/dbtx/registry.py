from checks_common import DST

ENGINE = {'name': 'dbtx', 'path': 'worlds/dbtx/', 'serves_properties': ['C27'],
          'kind_free_text': 'real gear.database on minimysql through the fake aiomysql driver; scripted error injection at '
                            'every statement position incl. COMMIT / ROLLBACK, concurrent calls, task cancellation'}
CHECKS = {
    'C27': {
        'level': 'fault_enumeration',
        'engine': 'dbtx',
        'technique': DST + ': injected MySQL errors at every statement position of a transaction (connect, START '
                           'TRANSACTION, each statement, COMMIT, ROLLBACK) x error kind (transient and non-transient) x '
                           'repetition, incl. a second error at the ROLLBACK that follows a first one; 1-4 concurrent '
                           'calls of one @transaction function and of the execute_* helpers; task cancellation at '
                           'seeded awaits; per-call atomicity oracle against a dict model and a retry oracle derived '
                           'from the recorded error history (the last error raised in an attempt decides)',
        'design_ref': 'DESIGN.md section 6 (C27), section 4.3',
        'level_text': 'Scenario tx: each run executes one transactional operation of the real gear.database under a '
                      'scripted sequence of injected server errors; positions x kinds are sampled densely (counted per '
                      'site in the evidence), retried/not-retried behaviour, back-off and the final table are compared '
                      'with the model.  Scenario concurrent: each run executes 1-4 overlapping calls (shared '
                      '@transaction function, helpers) on private key ranges with up to 3 injected errors per call at '
                      'any statement incl. COMMIT and ROLLBACK, deliberate body failures and cancellation; after '
                      'quiescence the durable rows must be exactly the complete write-sets of the calls that returned '
                      'normally, nothing may stay checked out / open, and every retry decision must follow the last '
                      'error of its attempt.',
        'level_note': 'Trusts the re-implemented pymysql error-class mapping and minimysql (write transactions are '
                      'serialised by one lock, so bodies overlap but never interleave two open write sets); bodies <= 5 '
                      'writes, <= 3 injected errors per operation, <= 4 concurrent calls, <= 1 cancellation per call; '
                      'ack-lost COMMIT excluded; errors injected at COMMIT / ROLLBACK discard the transaction on the '
                      'server.',
        'scenarios': [{'module': 'worlds.dbtx.tx', 'quick': 30000, 'thorough': 240000},
                      {'module': 'worlds.dbtx.concurrent', 'quick': 12000, 'thorough': 96000}],
        'expected_probes': ['site_deadlock_stmt0', 'site_lock_timeout_stmt1', 'site_lost_conn_before_commit_commit',
                            'site_too_many_conn_connect', 'site_lost_conn_after_stmt2',
                            'transient_then_other_at_rollback', 'other_then_transient_at_rollback', 'site_killed_rollback',
                            'site_iface_rollback', 'site_deadlock_commit', 'overlapping_bodies',
                            'cancel_between_statements_after_write', 'cancel_after_retry', 'cancel_during_commit',
                            'cancel_during_rollback', 'decided_by_second_error'],
    },
}
