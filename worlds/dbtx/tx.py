"""C27 -- gear.database transactions under injected MySQL errors (fault enumeration).

Real code: gear.database (Database, Transaction, @transaction, retry_transient_mysql_errors, execute_* helpers,
check_call_procedure), hailtop.utils.sleep_before_try.  Simulated: MySQL server (minimysql, a scratch schema with one
table, one trigger-signalling table and one procedure), aiomysql/pymysql (fake driver; error classes follow pymysql
1.1.2's mapping), clock.

One run = one operation (a @transaction body of 1-5 statements, or one Database.execute_* helper call) executed under
a fault script: (statement position | connect | commit) x error kind x repetitions, chosen from the stream -- quick
sweeps sample the space, the runner's seeds cover every (position, kind) pair many times (counted by probes
`site_<kind>_<position>`).  Oracle: for retryable kinds {1213 deadlock, 1205 lock wait timeout, 2013 lost connection,
1040 too many connections, 2003 can't connect} the body is run again and the operation finally succeeds; for any other
error (1062, 1048, 1644, 1064 raised by the body's own statements) the exception propagates from the first attempt; in
both cases the final table equals exactly one application of the body (success) or is unchanged (failure); waits
between attempts are within the documented jittered exponential bounds.

Mutations tried (scratch copy): drop 1213 from the retry codes -> not_retried/1213; retry every OperationalError ->
retried_non_retryable/1644; commit instead of rollback in Transaction._aexit_1 on error -> partial_writes; no
sleep_before_try -> retry_too_early.
"""
import asyncio

from simkit import entropy
from worlds.common import simulate

NAME = 'dbtx.tx'
RULE = ('operation = @transaction body of 1-5 statements (insert/update/delete/call on a 6-key table) or a '
        'Database.execute_* helper; fault script = 0-3 injected errors at seeded positions (connect, any statement '
        'incl. START TRANSACTION, commit) from {1213, 1205, 2013 before/after the statement, 1040, 2003}, optionally a '
        'body statement that itself fails with 1062/1048/1644/1064')
COMPONENTS = {
    'gear.database (Database, Transaction, transaction, retry_transient_mysql_errors, execute_* helpers)': 'real',
    'hailtop.utils.sleep_before_try / delay_ms_for_try': 'real',
    'MySQL server': 'minimysql (scratch schema)',
    'aiomysql / pymysql': 'fake driver; error-class mapping re-implemented from pymysql 1.1.2',
    'clock, event loop': 'simulated',
}
ASSUMPTIONS = ['pymysql 1.1.2 raises OperationalError for server errors >= 1000 that are not explicitly mapped '
               '(1205 included) and InternalError below 1000 (re-implemented from the upstream source; the package is '
               'not available offline; the repository itself catches OperationalError for 1644)',
               'after a lost connection the fake connection\'s rollback() succeeds silently (leniency, DESIGN 4.3)',
               'an ack-lost COMMIT is outside this property and is not injected']

RETRYABLE = {'deadlock': 1213, 'lock_timeout': 1205, 'lost_conn': 2013, 'too_many_conn': 1040, 'cant_connect': 2003}
KEYS = 6


def run(ctx):
    from minimysql import driver as dbdriver
    from minimysql.engine import Engine
    from worlds.batch import env as benv
    m = benv.setup()
    import gear.database as gdb
    s = ctx.stream('op')
    sf = ctx.stream('faults')
    log = ctx.log
    st = {'attempts': [], 'fail_times': [], 'stmt_no': 0, 'script': [], 'fired': [], 'fail_seq': [], 'attempt_seq': []}

    eng = Engine(rand=ctx.stream('sql.rand').flt)
    adm = eng.session()
    for q in ("CREATE TABLE t (k INT NOT NULL, v INT NOT NULL, PRIMARY KEY (k))",
              "CREATE TABLE guarded (k INT NOT NULL, PRIMARY KEY (k))",
              "CREATE TRIGGER guarded_bi BEFORE INSERT ON guarded FOR EACH ROW BEGIN IF NEW.k < 0 THEN "
              "SIGNAL SQLSTATE '45000' SET MESSAGE_TEXT = 'negative key'; END IF; END",
              "CREATE PROCEDURE bump(IN in_k INT) BEGIN UPDATE t SET v = v + 100 WHERE k = in_k; SELECT 0 AS rc; END"):
        eng.execute(adm, q)
    model = {}
    for k in range(KEYS):
        if s.draw(2):
            model[k] = s.draw(5)
            eng.execute(adm, 'INSERT INTO t (k, v) VALUES (%s, %s)', (k, model[k]))

    # ---- operation -------------------------------------------------------------------------------------
    kind = s.draw(4)  # 0,1,2: @transaction body ; 3: helper
    n_stmts = s.rint(1, 5)
    body = []
    after = dict(model)
    for _ in range(n_stmts):
        op = s.draw(4)
        k = s.draw(KEYS)
        if op == 0:
            if k in after:
                op = 1
            else:
                v = s.draw(9)
                body.append(('INSERT INTO t (k, v) VALUES (%s, %s)', (k, v)))
                after[k] = v
                continue
        if op == 1:
            d = 1 + s.draw(3)
            body.append(('UPDATE t SET v = v + %s WHERE k = %s', (d, k)))
            if k in after:
                after[k] += d
        elif op == 2:
            body.append(('DELETE FROM t WHERE k = %s', (k,)))
            after.pop(k, None)
        else:
            body.append(('CALL bump(%s)', (k,)))
            if k in after:
                after[k] += 100
    bad = s.draw(6)  # 0..1: body contains a statement that fails by itself (non-retryable)
    bad_errno = None
    if bad < 2 and kind != 3:
        which = s.draw(4)
        pos = s.draw(len(body) + 1)
        existing = sorted(after) or None
        if which == 0 and existing:
            body.insert(pos, ('INSERT INTO t (k, v) VALUES (%s, %s)', (existing[0], 1)))
            bad_errno = 1062
        elif which == 1:
            body.insert(pos, ('INSERT INTO t (k, v) VALUES (%s, NULL)', (KEYS + 1,)))
            bad_errno = 1048
        elif which == 2:
            body.insert(pos, ('INSERT INTO guarded (k) VALUES (%s)', (-1,)))
            bad_errno = 1644
        else:
            body.insert(pos, ('UPDATE t SET v = v + WHERE', ()))
            bad_errno = 1064
        if bad_errno == 1062:
            # the duplicate must really be a duplicate at that point of the body: recompute by dry run
            tmp = dict(model)
            ok = False
            for i, (q, a) in enumerate(body):
                if i == pos:
                    ok = a[0] in tmp
                    break
                _apply(tmp, q, a)
            if not ok:
                body.pop(pos)
                bad_errno = None
    if kind == 3:
        body = body[:1]
        after = dict(model)
        _apply(after, *body[0])

    # ---- fault script ------------------------------------------------------------------------------------
    n_faults = sf.draw(4)
    sites = ['connect'] + [f'stmt{i}' for i in range(len(body) + 1)] + ['commit']  # stmt0 = START TRANSACTION
    for _ in range(n_faults):
        site = sf.pick(sites)
        if site == 'connect':
            fk = sf.pick(['too_many_conn', 'cant_connect'])
        elif site == 'commit':
            fk = 'lost_conn_before_commit'
        else:
            fk = sf.pick(['deadlock', 'lock_timeout', 'lost_conn', 'lost_conn_after'])
        st['script'].append((site, fk))
    pending = list(st['script'])
    log.add('op', 'body_' + ('helper_' if kind == 3 else '') + '-'.join(q.split()[0].lower() for q, _a in body)
            + (f'_bad{bad_errno}' if bad_errno else ''))

    def fault(site, conn):
        # statement numbering restarts with every attempt (tracked via START TRANSACTION)
        if site == 'connect':
            name = 'connect'
        elif site == 'commit':
            name = 'commit'
        else:
            name = f'stmt{st["stmt_no"]}'
        for i, (s_, fk) in enumerate(pending):
            if s_ != name:
                continue
            if site == 'pre' and fk in ('deadlock', 'lock_timeout', 'lost_conn'):
                pass
            elif site == 'post' and fk == 'lost_conn_after':
                pass
            elif site in ('connect', 'commit'):
                pass
            else:
                continue
            del pending[i]
            ctx.fault('db.' + fk)
            ctx.probe(f'site_{fk}_{name}')
            log.add('db', f'inject_{name}_{fk}')
            st['fired'].append((name, fk))
            st['fail_times'].append(asyncio.get_running_loop().time())
            st['fail_seq'].append((log.seq, asyncio.get_running_loop().time()))
            if fk == 'lost_conn_after':
                return 'lost_conn'
            return fk
        return None

    class CountingServer(dbdriver.Server):
        pass

    srv = CountingServer(eng, latency=lambda what: ctx.stream('db.latency').ticks(2), fault=fault)
    orig_run = dbdriver.Connection._run

    async def counting_run(self, query, args, many=False):
        q = query.strip().upper()
        if q.startswith('START TRANSACTION'):
            st['stmt_no'] = 0
        try:
            return await orig_run(self, query, args, many)
        finally:
            st['stmt_no'] += 1

    result = {}

    async def main(loop):
        dbdriver.CURRENT_SERVER[0] = srv
        dbdriver.Connection._run = counting_run
        entropy.install(ctx.stream('entropy', 'prng'))
        try:
            db = gdb.Database()
            await db.async_init(maxsize=3)
            st['attempts'] = []
            t_begin = loop.time()

            if kind != 3:
                @gdb.transaction(db)
                async def op(tx):
                    st['attempts'].append(loop.time())
                    st['attempt_seq'].append(log.add('op', 'attempt', len(st['attempts'])))
                    for q, a in body:
                        if q.startswith('CALL'):
                            await tx.execute_and_fetchone(q, a)
                        elif q.startswith('INSERT'):
                            await tx.execute_insertone(q, a)
                        else:
                            await tx.execute_update(q, a)
                coro = op()
            else:
                q, a = body[0]
                st['attempts'].append(loop.time())
                if q.startswith('CALL'):
                    coro = db.check_call_procedure(q, a)
                elif q.startswith('INSERT'):
                    coro = db.execute_insertone(q, a)
                elif q.startswith('DELETE'):
                    coro = db.just_execute(q, a)
                else:
                    coro = db.execute_update(q, a)
            try:
                await asyncio.wait_for(coro, timeout=2000)
                result['outcome'] = 'ok'
            except asyncio.TimeoutError:
                result['outcome'] = 'hang'
            except Exception as e:  # pylint: disable=broad-except
                result['outcome'] = 'raised'
                result['exc'] = e
            result['elapsed'] = loop.time() - t_begin
            log.add('op', 'outcome', result['outcome'], type(result.get('exc')).__name__ if 'exc' in result else '',
                    (result['exc'].args[0] if result.get('exc') is not None and result['exc'].args else None))
        finally:
            dbdriver.Connection._run = orig_run
            dbdriver.CURRENT_SERVER[0] = None
            entropy.uninstall()

    _r, outcome = simulate(ctx, main, max_steps=300_000)
    if outcome != 'done':
        raise RuntimeError(outcome)

    # ---- oracle ----------------------------------------------------------------------------------------------
    final = {r[0]: r[1] for r in eng.tables['t'].rows.values()}
    fired = st['fired']
    n_attempts = len(st['attempts'])
    exc = result.get('exc')
    errno = exc.args[0] if exc is not None and exc.args and isinstance(exc.args[0], int) else None
    if result['outcome'] == 'hang':
        ctx.violation('C27', 'liveness', 'C27/operation_hangs', f'script {st["script"]}')
    if fired:
        ctx.probe('faulted_run')
    if bad_errno is None:
        # every injected error is retryable: the operation must succeed and apply the body exactly once
        if result['outcome'] != 'ok':
            kinds = sorted({RETRYABLE.get(fk.replace('_after', '').replace('_before_commit', ''), fk) for _n, fk in fired})
            code = errno if errno is not None else type(exc).__name__
            ctx.violation('C27', 'retry', f'C27/not_retried/{code}',
                          f'operation raised {type(exc).__name__}{exc.args[:2]} after {n_attempts} attempt(s); '
                          f'injected {fired} (all retryable kinds {kinds})')
        if final != after:
            ctx.violation('C27', 'atomicity', 'C27/wrong_final_state_after_retries',
                          f'final {final} != one application {after} (initial {model}); injected {fired}; body {body}')
    else:
        if result['outcome'] == 'ok':
            ctx.violation('C27', 'retry', f'C27/error_swallowed/{bad_errno}', f'body statement fails with {bad_errno} '
                          f'but the operation returned normally; body {body}')
        if errno != bad_errno and errno not in (None,):
            # an injected retryable error may legitimately surface only if it was not retried -> reported above kind
            if errno in RETRYABLE.values():
                ctx.violation('C27', 'retry', f'C27/not_retried/{errno}', f'raised {exc!r}; injected {fired}')
        if final != model:
            ctx.violation('C27', 'atomicity', f'C27/partial_writes_after_failure/{bad_errno}',
                          f'operation failed ({exc!r}) but the table changed: {model} -> {final}; body {body}')
        # attempts: the failing statement is reached only in an attempt that survived the injected errors; once it is
        # reached the operation must stop.  So attempts <= fired faults + 1.
        if n_attempts > len(fired) + 1:
            ctx.violation('C27', 'retry', f'C27/retried_non_retryable/{bad_errno}',
                          f'{n_attempts} attempts with only {len(fired)} injected retryable errors; body error {bad_errno}')
    # waits between attempts: retry n (1-based count of failures so far) waits delay_ms_for_try(n) in [c//2, c]
    ats = st['attempts']
    if kind != 3 and len(ats) >= 2:
        for i in range(1, len(ats)):
            c = 1000 * (1 << min(i, 30))
            lo = min(c // 2, 60000) / 1000.0
            # the last injected failure that happened (in event order) before this attempt began
            before = [t for (sq, t) in st['fail_seq'] if sq < st['attempt_seq'][i]]
            if not before:
                continue
            prev_fail = before[-1]
            if ats[i] - prev_fail < lo - 1e-6:
                ctx.violation('C27', 'backoff', 'C27/retry_too_early',
                              f'attempt {i + 1} started {ats[i] - prev_fail:.3f}s after the failure; documented minimum {lo}s')
    ctx.extra['attempts'] = n_attempts


def _apply(d, q, a):
    if q.startswith('INSERT INTO t'):
        if a[0] in d:
            raise KeyError('dup')
        d[a[0]] = a[1]
    elif q.startswith('UPDATE t SET v = v + %s'):
        if a[1] in d:
            d[a[1]] += a[0]
    elif q.startswith('DELETE'):
        d.pop(a[0], None)
    elif q.startswith('CALL'):
        if a[0] in d:
            d[a[0]] += 100


def nontrivial(r):
    return bool(r['faults'])
