"""helpers shared by worlds: run a main coroutine on a SimLoop bound to a RunCtx."""
import asyncio

from simkit import shim
from simkit.loop import SimClock, SimDeadlock, SimLoop, SimStepCap


def simulate(ctx, main, *, max_steps=400_000, max_time=None, epoch=1_700_000_000.0, executor_delay=None,
             start=0.0):
    """returns (result, outcome) with outcome in {'done','deadlock','cap'}."""
    shim.install()
    loop = SimLoop(start=start, max_steps=max_steps, max_time=max_time, executor_delay=executor_delay)
    clock = SimClock(loop, epoch)
    ctx.log.clock = loop.time
    ctx.loop = loop
    clock.install()
    asyncio.set_event_loop(loop)
    outcome = 'done'
    result = None
    # no cyclic garbage collection while the simulation runs: WHEN the collector finds a dropped coroutine (and runs
    # its finally blocks) depends on the allocation history of the process, not on the seed.  Everything is collected
    # in _finalize_leftovers, with the run's log and choices frozen.
    import gc
    gc_was_enabled = gc.isenabled()
    gc.disable()
    try:
        try:
            result = loop.run_until_complete(main(loop))
        except SimDeadlock:
            outcome = 'deadlock'
        except SimStepCap:
            outcome = 'cap'
    finally:
        ctx.sim_time = loop.time() - start
        ctx.steps = loop.steps
        _finalize_leftovers(ctx, loop)
        if gc_was_enabled:
            gc.enable()
        clock.uninstall()
        loop._ready.clear()
        loop._scheduled.clear()
        loop.graveyard.clear()
        asyncio.set_event_loop(None)
        loop.close()
        ctx.loop = None
    return result, outcome


def _finalize_leftovers(ctx, loop):
    """The run is over (its log and choices are frozen).  Close every coroutine that is still suspended NOW, so
    that their `finally` blocks cannot run at a garbage-collection instant inside a LATER run of this process
    (where they would consume that run's choices and break replay)."""
    import gc
    ctx.log.frozen = True
    ctx.choices.frozen = True
    try:
        tasks = list(asyncio.all_tasks(loop))
    except Exception:  # pylint: disable=broad-except
        tasks = []
    tasks.sort(key=lambda t: getattr(t, '_sim_id', 0))
    for _ in range(3):
        for t in tasks:
            if t.done():
                continue
            t._log_destroy_pending = False
            coro = t.get_coro()
            try:
                coro.close()
            except BaseException:  # pylint: disable=broad-except
                pass
        # finally-blocks may have created further tasks
        try:
            more = [t for t in asyncio.all_tasks(loop) if t not in tasks]
        except Exception:  # pylint: disable=broad-except
            more = []
        if not more:
            break
        more.sort(key=lambda t: getattr(t, '_sim_id', 0))
        tasks = more
    # tasks that were never in asyncio's weak task set any more (dropped futures) are closed too
    for t in sorted(getattr(loop, 'created_tasks', []), key=lambda t: getattr(t, '_sim_id', 0)):
        if not t.done():
            t._log_destroy_pending = False
            try:
                t.get_coro().close()
            except BaseException:  # pylint: disable=broad-except
                pass
    if hasattr(loop, 'created_tasks'):
        loop.created_tasks.clear()
    loop._ready.clear()
    loop._scheduled.clear()
    loop.graveyard.clear()
    gc.collect()
    # a scenario may call simulate() several times in one run (one simulated execution per generated case): only the
    # teardown above is silent, the run's log and choice streams go on afterwards
    ctx.log.frozen = False
    ctx.choices.frozen = False


TICK = 1.0 / 1024


def raised_in_repo(exc):
    """True iff the innermost frame of exc's traceback is repository code (not harness, not stdlib)."""
    tb = exc.__traceback__
    last = None
    while tb is not None:
        last = tb
        tb = tb.tb_next
    if last is None:
        return False
    fn = last.tb_frame.f_code.co_filename
    return fn.startswith(shim.REPO.rstrip('/') + '/')


def passes_through_repo(exc):
    """True iff some frame of exc's traceback is repository code."""
    tb = exc.__traceback__
    root = shim.REPO.rstrip('/') + '/'
    while tb is not None:
        if tb.tb_frame.f_code.co_filename.startswith(root):
            return True
        tb = tb.tb_next
    return False
