"""helpers shared by worlds: run a main coroutine on a SimLoop bound to a RunCtx."""
import asyncio

from simkit import shim
from simkit.loop import SimClock, SimDeadlock, SimLoop, SimStepCap


def simulate(ctx, main, *, max_steps=400_000, max_time=None, epoch=1_700_000_000.0, executor_delay=None,
             start=0.0):
    """returns (result, outcome) with outcome in {'done','deadlock','cap'}."""
    shim.install()
    loop = SimLoop(start=start, max_steps=max_steps, max_time=max_time, executor_delay=executor_delay)
    clock = SimClock(loop, epoch)
    ctx.log.clock = loop.time
    ctx.loop = loop
    clock.install()
    asyncio.set_event_loop(loop)
    outcome = 'done'
    result = None
    try:
        try:
            result = loop.run_until_complete(main(loop))
        except SimDeadlock:
            outcome = 'deadlock'
        except SimStepCap:
            outcome = 'cap'
    finally:
        ctx.sim_time = loop.time() - start
        ctx.steps = loop.steps
        clock.uninstall()
        loop._ready.clear()
        loop._scheduled.clear()
        loop.graveyard.clear()
        asyncio.set_event_loop(None)
        loop.close()
        ctx.loop = None
    return result, outcome


TICK = 1.0 / 1024


def raised_in_repo(exc):
    """True iff the innermost frame of exc's traceback is repository code (not harness, not stdlib)."""
    tb = exc.__traceback__
    last = None
    while tb is not None:
        last = tb
        tb = tb.tb_next
    if last is None:
        return False
    fn = last.tb_frame.f_code.co_filename
    return fn.startswith(shim.REPO.rstrip('/') + '/')


def passes_through_repo(exc):
    """True iff some frame of exc's traceback is repository code."""
    tb = exc.__traceback__
    root = shim.REPO.rstrip('/') + '/'
    while tb is not None:
        if tb.tb_frame.f_code.co_filename.startswith(root):
            return True
        tb = tb.tb_next
    return False
