"""helpers shared by worlds: run a main coroutine on a SimLoop bound to a RunCtx."""
import asyncio

from simkit import shim
from simkit.loop import SimClock, SimDeadlock, SimLoop, SimStepCap


def simulate(ctx, main, *, max_steps=400_000, max_time=None, epoch=1_700_000_000.0, executor_delay=None,
             start=0.0):
    """returns (result, outcome) with outcome in {'done','deadlock','cap'}."""
    shim.install()
    loop = SimLoop(start=start, max_steps=max_steps, max_time=max_time, executor_delay=executor_delay)
    clock = SimClock(loop, epoch)
    ctx.log.clock = loop.time
    ctx.loop = loop
    clock.install()
    asyncio.set_event_loop(loop)
    outcome = 'done'
    result = None
    try:
        try:
            result = loop.run_until_complete(main(loop))
        except SimDeadlock:
            outcome = 'deadlock'
        except SimStepCap:
            outcome = 'cap'
    finally:
        ctx.sim_time = loop.time() - start
        ctx.steps = loop.steps
        clock.uninstall()
        loop._ready.clear()
        loop._scheduled.clear()
        loop.graveyard.clear()
        asyncio.set_event_loop(None)
        loop.close()
        ctx.loop = None
    return result, outcome


TICK = 1.0 / 1024
