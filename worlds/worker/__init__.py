"""Worlds built around the batch worker process (batch/batch/worker/worker.py)."""
