"""C16 -- the worker's CPU semaphore seen through the worker's job lifecycle (batch/batch/worker/worker.py).

`worlds.prims.fifosem` drives `FIFOWeightedSemaphore` directly and therefore cannot see a CALLER that breaks the
accounting (a second release on some exit path, an acquire without a release, a weight that differs between the two).
This scenario runs the real worker code around the semaphore:

* `worker.py` of the tree under test (`shim.REPO`) is compiled once per process and RE-EXECUTED for every run (all
  module-level state -- counters, caches, the `worker` global -- is fresh in every run); the import-time main loop at
  the bottom of the file is cut off.  Modules that do not exist in the sandbox (aiodocker, aiorwlock, async_timeout)
  are small fakes that are visible only while the module body executes.
* the real `Worker` object (real `__init__`, `create_job_1/2`, `run_job`, `delete_job_1`, `post_job_started/complete`,
  JVM pools and `_initialize_jvms`), with `cpu_sem = FIFOWeightedSemaphore(CORES * 1000)` exactly as the worker
  builds it; the real `Job.create`, `DockerJob` and `JVMJob` (`__init__`, `run`, `cleanup`, `delete`, `mark_complete`,
  `download_jar`, ...), the real `Container` (`run/create/start/wait/_kill/_cleanup/remove`, `_run_container`,
  `container_config`), `Image.pull/_localize_rootfs/release`, `JVM.create/execute/new_connection`, `JVMContainer`,
  `NetworkAllocator/NetworkNamespace` (allocate / free), `ReadOnlyCloudfuseManager`, `run_until_done_or_deleted`,
  the real `FileStore`, hailtop retry loops and `BackgroundTaskManager`.
* stand-ins sit at the operating-system / network seam only (module globals of the freshly executed worker module are
  rebound, nothing outside that module is patched): an in-memory file system (`os`, `shutil`, `open`, `tempfile`),
  shell commands (`check_shell*`, `check_exec_output`), `crun` child processes (`asyncio.create_subprocess_exec`), the
  JVM side of the entryway socket protocol (`asyncio.open_unix_connection`: handshake, job execution, FINISH_* messages,
  cancel request, end-of-stream, connection refused after a JVM death), docker image pulls (`Image._pull_image`), cloud
  storage (`RouterAsyncFS`), the cloud API (disks, cloudfuse), the resource-usage monitor and the driver's HTTP
  end-points.  Every step of a stand-in takes seeded simulated time and can fail with a seeded error, so that
  `JobDeletedError`, `ContainerDeletedError`, `ContainerTimeoutError`, `JVMUserError`, `JVMCreationError`,
  `CalledProcessError`, transient and permanent I/O errors arise where the real code raises or meets them.

Actors: 2..8 (thorough 10) jobs, docker or JVM, with core requests from {250, 500, 1000, 2000, 4000, 8000} mcpu that fit
the worker one by one but not together, POSTed to the real `Worker.create_job` at seeded instants; per job at most two
DELETE requests (`Worker.delete_job`) fired by time, or when the job starts to wait for the semaphore, when it reaches
state 'running', or when it has reached a final state and is cleaning up; repeated creates of the same id.

Observation (no patching of the semaphore): the two job classes are subclassed inside the run's module;
`run()` is wrapped (arrival = `run()` is called, which calls `cpu_sem.acquire` before its first suspension; departure =
`run()` returned or raised, which is the instant `__aexit__` released) and `start_time`, the first statement of the
`async with self.worker.cpu_sem(...)` body in both classes, is a property whose setter marks the entry into the body.

Oracles on `worker.cpu_sem`:
* C16/worker/over_capacity -- at every entry: sum of `cpu_in_mcpu` of the jobs inside their body <= CORES * 1000;
* C16/worker/value_out_of_range -- after every loop iteration: 0 <= cpu_sem.value <= capacity;
* C16/worker/entered_before_earlier_arrival, .../granted_beyond_capacity, .../waiters_resumed_out_of_arrival_order --
  arrival order, with the same reference FIFO model as worlds.prims.fifosem (it only decides whether an acquire has
  been granted yet; it is fed with the observed arrivals and departures);
* C16/worker/head_blocked_with_free_capacity -- whenever the loop has nothing left to run (and at the end): the
  earliest job still waiting must not fit into capacity - sum(in body);
* C16/worker/free_count_disagrees_with_running_jobs -- whenever the loop has nothing left to run:
  cpu_sem.value == capacity - sum(in body) (no grant can be in flight at such an instant);
* C16/worker/capacity_not_restored -- whenever no job is inside its body and none waits (in particular at the end):
  cpu_sem.value == capacity and the queue is empty.

Sensitivity (scratch worktrees of the repository, HAIL_REPO_ROOT):
* seeded/C16-5: JVMJob.run releases in `except JobDeletedError` and again in __aexit__  -> caught in 111 of 600 runs
  (over_capacity, free_count_disagrees_with_running_jobs, value_out_of_range)
* DockerJob.run: `if self.deleted: self.worker.cpu_sem.release(self.cpu_in_mcpu)` before cleanup in the finally block
  (cores handed back early AND by __aexit__)                                            -> caught in 212 of 400 runs
* JVMJob.run: `async with cpu_sem(...)` replaced by `await cpu_sem.acquire(...)` and a release after the try
  statement, which is skipped whenever cleanup raises or JVMCreationError is re-raised  -> caught in 71 of 400 runs
  (head_blocked_with_free_capacity, capacity_not_restored, free_count_disagrees_with_running_jobs)
* seeded/C16-1, C16-4, C16-6 (changes of semaphore.py; worlds.prims.fifosem's territory) are also caught here on the
  quick budget: entered_before_earlier_arrival, head_blocked_with_free_capacity, over_capacity respectively

Not C16, but seen here on the unchanged tree (real worker.py behaviour, the oracles above are silent about it): an
upload error in JVMJob.cleanup skips `return_jvm`, so the JVM is never handed back to its pool and later JVM jobs of
that size wait in `borrow_jvm` for ever while holding their cores (probe `jobs_never_finished`); `JVMPool.return_jvm`
can hit its `qsize() < max_jvms` assertion after a JVM was replaced by `return_broken_jvm`.
"""
import asyncio
import base64
import contextvars
import errno
import hashlib
import io
import json
import os
import posixpath
import struct
import sys
import types

from simkit.core import Violation
from simkit.loop import SimulationEscape
from worlds.common import simulate

NAME = 'worker.cpusem'
NO_SHRINK = ('entropy',)
RULE = ('CORES in {4, 2, 8, 1}; 2..8 (thorough 10) jobs, docker (optional input/output copy containers, timeout, extra '
        'storage disk, cloudfuse, secrets) or JVM (1/2/4/8 cores, optional profile / cloudfuse), cores from '
        '{250..8000} mcpu <= capacity; create instants 0..48 ticks of 1/1024 s; <= 2 deletes per job by time or by '
        'observed phase (waiting for the semaphore, running, cleaning up); stand-in steps take 0..4 ticks (sometimes '
        'seconds) and fail with probability 1/48..1/12 per step')
COMPONENTS = {
    'batch.worker.worker (module body, re-executed per run; main loop at the bottom cut off)': 'real',
    'batch.worker.worker.Worker (__init__, create_job(_1,_2), run_job, delete_job(_1), post_job_started/complete, '
    'borrow_jvm/return_jvm/return_broken_jvm, _initialize_jvms), JVMPool': 'real',
    'batch.worker.worker.Job / FakeJob / DockerJob / JVMJob (create, __init__, run, cleanup, delete, mark_started, '
    'mark_complete, setup_io, run_container, download_jar, status)': 'real (subclassed only to observe run() and '
                                                                      'start_time/state assignments)',
    'batch.worker.worker.Container, Image (all but _pull_image), JVM, JVMContainer, JVMProfiler, NetworkAllocator, '
    'NetworkNamespace, PortAllocator, ReadOnlyCloudfuseManager, run_until_done_or_deleted, send_signal_and_wait': 'real',
    'batch.semaphore.FIFOWeightedSemaphore (worker.cpu_sem)': 'real',
    'batch.file_store.FileStore, batch.spec_writer.SpecWriter, batch.batch_format_version, batch.cloud.gcp.'
    'instance_config.GCPSlimInstanceConfig, batch.worker.jvm_entryway_protocol': 'real',
    'hailtop.utils (retry_transient_errors*, blocking_to_async, Timings, time_msecs), hailtop.aiotools.'
    'BackgroundTaskManager': 'real',
    'aiodocker / aiorwlock / async_timeout': 'fakes (absent in the sandbox): DockerError class, no-op RW lock, '
                                             'async_timeout.timeout = asyncio.timeout',
    'file system (os, shutil, open, tempfile in worker.py)': 'simulated in memory',
    'shell commands (check_shell, check_shell_output, check_exec_output), crun child processes': 'simulated, seeded '
                                                                                               'durations/exit codes/errors',
    'JVM entryway socket (asyncio.open_unix_connection)': 'simulated JVM side of the real protocol',
    'docker image pull (Image._pull_image)': 'simulated',
    'cloud storage (RouterAsyncFS), cloud worker API (disks, cloudfuse), ResourceUsageMonitor I/O, driver HTTP '
    'end-points (httpx.client_session), aiohttp request objects': 'simulated',
    'asyncio event loop / clock / executor': 'simulated (SimLoop, virtual time, run_in_executor inline)',
}
ASSUMPTIONS = ['the job classes enter the `async with self.worker.cpu_sem(...)` body by assigning `self.start_time` '
               '(its first statement in DockerJob.run and JVMJob.run), call acquire before run() first suspends, and '
               'the weight they acquire is job.cpu_in_mcpu',
               'asyncio.timeout stands in for async_timeout.timeout (same cancellation-based semantics)']

_ACTOR = contextvars.ContextVar('cpusem_actor', default='worker')
_STATE = {}
_BASE_ENV = {
    'CLOUD': 'gcp', 'NAME': 'sim-worker', 'NAMESPACE': 'default', 'IP_ADDRESS': '10.0.0.9',
    'INTERNAL_GATEWAY_IP': '10.0.0.1', 'BATCH_LOGS_STORAGE_URI': 'gs://sim-logs', 'INSTANCE_ID': 'siminst',
    'REGION': 'us-central1', 'DOCKER_PREFIX': 'docker.sim', 'MAX_IDLE_TIME_MSECS': '30000',
    'BATCH_WORKER_IMAGE': 'docker.sim/batch-worker:sim', 'BATCH_WORKER_IMAGE_ID': 'workerimageid',
    'INTERNET_INTERFACE': 'eth0', 'UNRESERVED_WORKER_DATA_DISK_SIZE_GB': '10',
    'ACCEPTABLE_QUERY_JAR_URL_PREFIX': 'gs://sim-query/jars', 'ACTIVATION_TOKEN': 'simtoken', 'SPARK_HOME': '/spark',
}
_PALETTE = [1000, 2000, 500, 4000, 250, 8000]


class SimFault(Exception):
    """a permanent (non-transient) failure injected by a stand-in."""


# ----------------------------------------------------------------------------------------------------------------
# loading worker.py
# ----------------------------------------------------------------------------------------------------------------

def _third_party_modules():
    class DockerError(Exception):
        def __init__(self, status, data):
            super().__init__(status, data)
            self.status = status
            self.message = data.get('message', '') if isinstance(data, dict) else str(data)

    class _Side:
        async def __aenter__(self):
            return self

        async def __aexit__(self, *exc):
            return False

    class RWLock:
        # nobody takes the writer side in this world (cleanup_old_images is not scheduled)
        def __init__(self):
            self.reader = _Side()
            self.writer = _Side()

    def unusable(*a, **k):
        raise SimulationEscape('aiodocker.Docker used under simulation')

    aiodocker = types.ModuleType('aiodocker')
    aiodocker.__path__ = []
    images = types.ModuleType('aiodocker.images')
    images.compose_auth_header = lambda auth, registry_addr=None: auth
    exceptions = types.ModuleType('aiodocker.exceptions')
    exceptions.DockerError = DockerError
    aiodocker.images = images
    aiodocker.exceptions = exceptions
    aiodocker.Docker = unusable
    aiorwlock = types.ModuleType('aiorwlock')
    aiorwlock.RWLock = RWLock
    async_timeout = types.ModuleType('async_timeout')
    async_timeout.timeout = asyncio.timeout
    return {'aiodocker': aiodocker, 'aiodocker.images': images, 'aiodocker.exceptions': exceptions,
            'aiorwlock': aiorwlock, 'async_timeout': async_timeout}


def _prepare():
    if _STATE:
        return _STATE
    import importlib
    from simkit import shim
    shim.install()
    shim._NEVER_STUB.discard('pandas')
    shim._NEVER_STUB.discard('numpy')
    # hailtop.utils tests `aiodocker is not None`: import it while aiodocker is missing, as everywhere else in /verif
    importlib.import_module('hailtop.utils')
    importlib.import_module('batch.worker')
    path = os.path.join(shim.REPO, 'batch', 'batch', 'worker', 'worker.py')
    with open(path, encoding='utf-8') as f:
        src = f.read()
    cut = src.rfind('\nloop = asyncio.get_event_loop()\n')
    if cut < 0:
        raise RuntimeError('worker.py: the import-time main loop was not found')
    _STATE['path'] = path
    _STATE['code'] = compile(src[:cut], path, 'exec')
    return _STATE


def _exec_worker_module(cores, fs):
    """a fresh execution of worker.py's module body (classes, counters, globals) for this run."""
    st = _prepare()
    mod = types.ModuleType('batch.worker.worker')
    mod.__file__ = st['path']
    mod.__package__ = 'batch.worker'
    mod.__dict__['open'] = fs.open  # /subdomains.txt at import time; every later open() of the module as well
    env = dict(_BASE_ENV)
    env['CORES'] = str(cores)
    env['INSTANCE_CONFIG'] = base64.b64encode(json.dumps({'machine_type': f'n1-standard-{cores}'}).encode()).decode()
    # fresh fakes per run: worker.py monkeypatches aiodocker.images at import time, a shared fake would chain the
    # module bodies of all runs of this process together
    third_party = _third_party_modules()
    saved_env = {k: os.environ.get(k) for k in list(env) + ['HAIL_TERRA']}
    saved_mods = {k: sys.modules.get(k) for k in third_party}
    os.environ.update(env)
    os.environ.pop('HAIL_TERRA', None)
    sys.modules.update(third_party)
    mod.__dict__['_sim_third_party'] = third_party
    try:
        exec(st['code'], mod.__dict__)  # pylint: disable=exec-used
    finally:
        for k, v in saved_mods.items():
            if v is None:
                sys.modules.pop(k, None)
            else:
                sys.modules[k] = v
        for k, v in saved_env.items():
            if v is None:
                os.environ.pop(k, None)
            else:
                os.environ[k] = v
    return mod, env


# ----------------------------------------------------------------------------------------------------------------
# in-memory file system behind worker.py's os / shutil / open / tempfile
# ----------------------------------------------------------------------------------------------------------------

class _Strict(types.SimpleNamespace):
    def __getattr__(self, name):
        if name.startswith('__'):
            raise AttributeError(name)
        raise SimulationEscape(f'worker.py used {self._what}.{name}, which this world does not simulate')


class _WFile:
    def __init__(self, fs, path, binary):
        self.fs = fs
        self.name = path
        self.buf = io.BytesIO() if binary else io.StringIO()
        self.closed = False
        fs.files[path] = b'' if binary else ''

    def write(self, data):
        return self.buf.write(data)

    def close(self):
        if not self.closed:
            self.closed = True
            self.fs.files[self.name] = self.buf.getvalue()

    def fileno(self):
        return 99

    def __enter__(self):
        return self

    def __exit__(self, *exc):
        self.close()
        return False


class SimHostFS:
    def __init__(self):
        self.files = {'/subdomains.txt': 'batch\nbatch-driver\n', '/proc/mounts': ''}
        self.dirs = {'/', '/batch', '/host', '/cloudfuse', '/tmp', '/etc', '/etc/netns', '/proc'}
        self.n_tmp = 0

    @staticmethod
    def norm(path):
        p = posixpath.normpath(path)
        return p

    def open(self, path, mode='r', *args, **kwargs):  # pylint: disable=unused-argument
        path = self.norm(path)
        if 'w' in mode or 'a' in mode or 'x' in mode:
            return _WFile(self, path, 'b' in mode)
        if path not in self.files:
            raise FileNotFoundError(errno.ENOENT, 'No such file or directory', path)
        data = self.files[path]
        if 'b' in mode:
            return io.BytesIO(data if isinstance(data, bytes) else data.encode())
        return io.StringIO(data if isinstance(data, str) else data.decode())

    def makedirs(self, path, mode=0o777, exist_ok=False):  # pylint: disable=unused-argument
        p = self.norm(path)
        if p in self.files:
            raise FileExistsError(errno.EEXIST, 'File exists', path)
        if p in self.dirs:
            if not exist_ok:
                raise FileExistsError(errno.EEXIST, 'File exists', path)
            return
        while p not in self.dirs:
            self.dirs.add(p)
            p = posixpath.dirname(p)

    def exists(self, path):
        p = self.norm(path)
        return p in self.files or p in self.dirs

    def isfile(self, path):
        return self.norm(path) in self.files

    def isdir(self, path):
        return self.norm(path) in self.dirs

    def remove(self, path):
        p = self.norm(path)
        if p not in self.files:
            raise FileNotFoundError(errno.ENOENT, 'No such file or directory', path)
        del self.files[p]

    def rename(self, src, dst):
        s = self.norm(src)
        if s not in self.files:
            raise FileNotFoundError(errno.ENOENT, 'No such file or directory', src)
        self.files[self.norm(dst)] = self.files.pop(s)

    def rmtree(self, path, ignore_errors=False, onerror=None):  # pylint: disable=unused-argument
        p = self.norm(path)
        if p not in self.dirs:
            if ignore_errors:
                return
            raise FileNotFoundError(errno.ENOENT, 'No such file or directory', path)
        pre = p + '/'
        for f in [f for f in self.files if f.startswith(pre)]:
            del self.files[f]
        for d in [d for d in self.dirs if d == p or d.startswith(pre)]:
            self.dirs.discard(d)

    def named_temporary_file(self, *a, **k):  # pylint: disable=unused-argument
        self.n_tmp += 1
        return _WFile(self, f'/tmp/tmp{self.n_tmp}', True)

    def os_module(self, environ):
        path = _Strict(_what='os.path', exists=self.exists, isfile=self.isfile, isdir=self.isdir,
                       commonpath=posixpath.commonpath, join=posixpath.join, dirname=posixpath.dirname,
                       basename=posixpath.basename, normpath=posixpath.normpath)
        return _Strict(_what='os', environ=environ, makedirs=self.makedirs, remove=self.remove, rename=self.rename,
                       chown=lambda *a, **k: None, path=path, getpid=lambda: 4242)

    def shutil_module(self):
        return _Strict(_what='shutil', rmtree=self.rmtree)

    def tempfile_module(self):
        return _Strict(_what='tempfile', NamedTemporaryFile=self.named_temporary_file)


# ----------------------------------------------------------------------------------------------------------------
# the world of one run
# ----------------------------------------------------------------------------------------------------------------

class World:
    def __init__(self, ctx):
        self.ctx = ctx
        self.log = ctx.log
        self.wide = ctx.tier == 'thorough'
        cfg = ctx.stream('cfg')
        self.cores = [4, 2, 8, 1][cfg.weighted([5, 2, 2, 1])]
        self.cap = self.cores * 1000
        self.n_jobs = cfg.rint(2, 10 if self.wide else 8)
        self.fs = SimHostFS()
        self.mod = None
        self.worker = None
        self.violation = None
        self.loop = None
        # observation of the semaphore's users
        self.n_arr = 0
        self.recs = []        # every run() call, in arrival order
        self.pending = []     # arrived, not yet in the body
        self.in_body = []     # inside `async with cpu_sem(...)`
        self.held = 0
        self.max_held = 0
        self.m_free = self.cap
        self.m_queue = []
        self.m_granted = set()
        self.watch = {}       # (job_id, phase) -> [futures]
        self.phase_seen = set()
        self.procs = {}       # container name -> SimProcess
        self.jvms = {}        # socket path -> SimJVMProcess
        self.faults_on = False

    # -- choices ---------------------------------------------------------------------------------------------
    def S(self):
        return self.ctx.stream(_ACTOR.get())

    async def pause(self, max_ticks=4, long_p=0.0, long_max=0.0):
        s = self.S()
        d = s.ticks(max_ticks)
        if long_p and s.chance(long_p):
            d += s.ticks(int(long_max * 1024))
        if d:
            await asyncio.sleep(d)
        else:
            await asyncio.sleep(0)

    def fails(self, kind, p):
        if self.faults_on and self.S().chance(p):
            self.ctx.fault(kind)
            self.log.add(_ACTOR.get(), 'fault', kind)
            return True
        return False

    # -- oracle ----------------------------------------------------------------------------------------------
    def fail(self, oracle, signature, detail):
        if self.violation is None:
            self.violation = Violation('C16', oracle, signature, detail)
            self.log.add('oracle', 'violation', signature)
        raise self.violation

    def model_grant(self):
        q = self.m_queue
        while q and q[0]['w'] <= self.m_free:
            r = q.pop(0)
            self.m_free -= r['w']
            self.m_granted.add(r['n'])

    def arrive(self, job, kind):
        self.n_arr += 1
        rec = {'n': self.n_arr, 'job': job, 'id': job.job_id, 'kind': kind, 'w': job.cpu_in_mcpu,
               'step': self.loop.steps, 'entered': False, 'left': False, 'name': f'job{job.job_id}#{self.n_arr}'}
        self.log.add(rec['name'], 'run_called', kind, rec['w'])
        if self.m_queue and rec['w'] <= self.m_free:
            self.ctx.probe('arrival_fits_but_queues_behind_head')
        self.recs.append(rec)
        self.pending.append(rec)
        self.m_queue.append(rec)
        self.model_grant()
        job._sim_rec = rec
        self.signal(job.job_id, 'arrive')
        return rec

    def entered(self, job):
        rec = getattr(job, '_sim_rec', None)
        if rec is None or rec['entered']:
            return  # start_time assigned outside run() (FakeJob error path) or assigned twice
        rec['entered'] = True
        suspended = self.loop.steps != rec['step']
        earlier = [r for r in self.pending if r['n'] < rec['n']]
        self.pending.remove(rec)
        self.in_body.append(rec)
        self.held += rec['w']
        self.max_held = max(self.max_held, self.held)
        self.log.add(rec['name'], 'entered_body', rec['w'], self.held, 'waited' if suspended else 'at_once')
        if suspended:
            self.ctx.probe('job_waited_for_cpu_sem')
            if job.deleted:
                self.ctx.probe('deleted_job_enters_body_after_waiting')
        if self.held > self.cap:
            names = ', '.join(f'{r["name"]}({r["kind"]},{r["w"]})' for r in self.in_body)
            self.fail('safety', 'C16/worker/over_capacity',
                      f'jobs inside their `async with cpu_sem` body use {self.held} mcpu > capacity {self.cap}: {names}')
        if rec['n'] not in self.m_granted:
            ahead = [r for r in self.m_queue if r['n'] < rec['n']]
            if ahead:
                self.fail('fifo', 'C16/worker/entered_before_earlier_arrival',
                          f'{rec["name"]} ({rec["w"]} mcpu) entered its body while {ahead[0]["name"]} '
                          f'({ahead[0]["w"]} mcpu), which called run() earlier, has not been granted')
            self.fail('safety', 'C16/worker/granted_beyond_capacity',
                      f'{rec["name"]} ({rec["w"]} mcpu) entered its body although earlier arrivals hold or have been '
                      f'granted {self.cap - self.m_free} of {self.cap} mcpu')
        if earlier:
            if suspended:
                self.fail('fifo', 'C16/worker/waiters_resumed_out_of_arrival_order',
                          f'{rec["name"]} waited and entered its body before {earlier[0]["name"]}, which arrived earlier')
            self.ctx.probe('fastpath_overtakes_granted_waiter')

    def left(self, job, how):
        rec = job._sim_rec
        rec['left'] = True
        if rec['entered']:
            self.in_body.remove(rec)
            self.held -= rec['w']
            self.m_free += rec['w']
            self.model_grant()
            self.log.add(rec['name'], 'left_body', rec['w'], self.held, str(job.state), how)
            self.ctx.probe(f'{rec["kind"]}_final_state_{job.state}')
        else:
            # run() ended without ever entering the body (cancelled at teardown)
            self.pending.remove(rec)
            if rec in self.m_queue:
                self.m_queue.remove(rec)
            self.log.add(rec['name'], 'run_ended_without_body', how)
        self.signal(job.job_id, 'left')

    def check_range(self):
        if self.violation is not None:
            raise self.violation
        v = self.worker.cpu_sem.value
        if not 0 <= v <= self.cap:
            self.log.add('oracle', 'sem_value', v, self.held)
            self.fail('safety', 'C16/worker/value_out_of_range',
                      f'worker.cpu_sem.value == {v} on a worker with capacity {self.cap} mcpu '
                      f'({self.held} mcpu held by jobs inside their body)')

    def check_quiescent(self, where):
        if self.violation is not None:
            raise self.violation
        sem = self.worker.cpu_sem
        free = self.cap - self.held
        if self.pending:
            head = self.pending[0]
            if head['w'] <= free:
                self.log.add('oracle', 'head_blocked', head['name'], head['w'], free, where)
                self.fail('liveness', 'C16/worker/head_blocked_with_free_capacity',
                          f'{where}: {head["name"]} ({head["w"]} mcpu) is the earliest job waiting for cpu_sem and is '
                          f'blocked while {free} of {self.cap} mcpu are free')
        if not self.pending and not self.in_body:
            if sem.value != self.cap or sem.queue:
                self.log.add('oracle', 'sem_value', sem.value, len(sem.queue), where)
                self.fail('conservation', 'C16/worker/capacity_not_restored',
                          f'{where}: no job holds or awaits cores, yet cpu_sem.value == {sem.value} (capacity '
                          f'{self.cap}) and {len(sem.queue)} waiter(s) are queued')
        elif sem.value != free:
            self.log.add('oracle', 'sem_value', sem.value, free, where)
            self.fail('conservation', 'C16/worker/free_count_disagrees_with_running_jobs',
                      f'{where}: cpu_sem.value == {sem.value} but jobs inside their body hold {self.held} of {self.cap} '
                      f'mcpu ({len(self.pending)} waiting)')

    # -- phase signalling for the delete actors -----------------------------------------------------------------
    def signal(self, job_id, phase):
        self.phase_seen.add((job_id, phase))
        for fut in self.watch.pop((job_id, phase), []):
            if not fut.done():
                fut.set_result(None)

    async def until(self, job_id, phase):
        if (job_id, phase) in self.phase_seen:
            return
        fut = self.loop.create_future()
        self.watch.setdefault((job_id, phase), []).append(fut)
        await fut

    def state_set(self, job, value):
        rec = getattr(job, '_sim_rec', None)
        if rec is None or rec['left']:
            return
        self.log.add(rec['name'], 'state', str(value))
        if value == 'running':
            self.signal(job.job_id, 'running')
        elif value in ('succeeded', 'failed', 'error', 'cancelled'):
            self.signal(job.job_id, 'final')


# ----------------------------------------------------------------------------------------------------------------
# stand-ins (created per run, bound to the run's World and worker module)
# ----------------------------------------------------------------------------------------------------------------

class SimProcess:
    """a crun child process: exits by itself after `duration` (None: never) or after a signal."""

    def __init__(self, w, name, duration, code):
        self.w = w
        self.name = name
        self.returncode = None
        self.pid = 1000 + len(w.procs)
        self._done = w.loop.create_future()
        self._timer = None
        if duration is not None:
            self._timer = w.loop.call_later(duration, self._exit, code)

    def _exit(self, code):
        if self.returncode is None:
            self.returncode = code
            if not self._done.done():
                self._done.set_result(code)

    def exit_after(self, delay, code):
        if self.returncode is None:
            self.w.loop.call_later(delay, self._exit, code)

    async def wait(self):
        if self.returncode is None:
            await asyncio.shield(self._done)
        return self.returncode

    async def communicate(self, input=None):  # pylint: disable=redefined-builtin,unused-argument
        await self.wait()
        return (b'', b'')

    def terminate(self):
        if self.returncode is not None:
            raise ProcessLookupError()
        s = self.w.S()
        d = s.ticks(3)
        if s.chance(1 / 16):
            d += 6.0  # ignores SIGTERM for longer than the worker waits (5 s)
            self.w.ctx.probe('sigterm_ignored')
        self.exit_after(d, -15)

    def kill(self):
        if self.returncode is not None:
            raise ProcessLookupError()
        self.exit_after(self.w.S().ticks(2), -9)


class SimJVMProcess(SimProcess):
    def __init__(self, w, name, socket):
        super().__init__(w, name, None, 0)
        self.socket = socket
        self.handshaken = False
        self.listening = False

    def _exit(self, code):
        super()._exit(code)
        self.listening = False


class _Reader:
    def __init__(self, loop):
        self.buf = bytearray()
        self.eof = False
        self.wake = asyncio.Event()
        self.loop = loop

    def feed(self, data):
        self.buf.extend(data)
        self.wake.set()

    def feed_eof(self):
        self.eof = True
        self.wake.set()

    async def read(self, n=-1):
        while not self.buf and not self.eof:
            self.wake.clear()
            await self.wake.wait()
        if not self.buf:
            return b''
        n = len(self.buf) if n < 0 else n
        out = bytes(self.buf[:n])
        del self.buf[:n]
        return out


class _Writer:
    def __init__(self, on_data):
        self.on_data = on_data
        self.closed = False

    def write(self, data):
        if not self.closed:
            self.on_data(bytes(data))

    async def drain(self):
        await asyncio.sleep(0)

    def close(self):
        self.closed = True

    def is_closing(self):
        return self.closed

    async def wait_closed(self):
        return None


def build(w, mod, env):
    """rebind the OS / network seam of the freshly executed worker module and build the real Worker."""
    ctx = w.ctx
    loop = w.loop
    import aiohttp
    from aiohttp import web
    hutils = sys.modules['hailtop.utils']
    CalledProcessError = hutils.CalledProcessError
    fs = w.fs

    # ---- module-level plumbing --------------------------------------------------------------------------------
    class _NullLog:
        def _n(self, *a, **k):
            return None
        info = warning = error = exception = debug = critical = _n

    counter = [0]

    def uuid4():
        counter[0] += 1
        return types.SimpleNamespace(hex=hashlib.md5(f'sim-{counter[0]}'.encode()).hexdigest())

    sim_asyncio = types.ModuleType('asyncio')
    sim_asyncio.__dict__.update(asyncio.__dict__)

    mod.log = _NullLog()
    mod.os = fs.os_module(dict(env))
    mod.shutil = fs.shutil_module()
    mod.tempfile = fs.tempfile_module()
    mod.uuid = types.SimpleNamespace(uuid4=uuid4)
    mod.asyncio = sim_asyncio

    # ---- shell commands and child processes ---------------------------------------------------------------------
    async def shell(argv, p_fail=1 / 48):
        await w.pause(3, 1 / 64, 2.0)
        if w.fails('shell.error', p_fail):
            raise CalledProcessError(argv, 1, (b'', b'simulated failure'))
        return (b'', b'')

    async def check_shell(script, echo=False, inherit_std_out_err=False):  # pylint: disable=unused-argument
        await shell(['/bin/bash', '-c', script])

    async def check_shell_output(script, echo=False):  # pylint: disable=unused-argument
        return await shell(['/bin/bash', '-c', script])

    async def check_exec_output(command, *args, echo=False):  # pylint: disable=unused-argument
        argv = [command, *args]
        if command == 'crun' and args[:2] == ('kill', '--all'):
            name = args[2]
            await w.pause(2)
            proc = w.procs.get(name)
            if proc is None or proc.returncode is not None:
                raise CalledProcessError(argv, 1, (b'', b'error opening file `/run/crun/' + name.encode()
                                                   + b'/status`: No such file or directory'))
            if w.fails('crun_kill.error', 1 / 16):
                raise CalledProcessError(argv, 1, (b'', b'simulated crun failure'))
            proc.exit_after(w.S().ticks(2), 137)
            return (b'', b'')
        return await shell(argv)

    mod.check_shell = check_shell
    mod.check_shell_output = check_shell_output
    mod.check_exec_output = check_exec_output

    async def create_subprocess_exec(program, *args, **kwargs):  # pylint: disable=unused-argument
        if program != 'crun' or args[:2] != ('run', '--bundle'):
            raise SimulationEscape(f'unexpected child process {program} {args}')
        bundle, name = args[2], args[3]
        await w.pause(2)
        if w.fails('crun_run.oserror', 1 / 64):
            raise OSError(errno.EAGAIN, 'simulated: cannot fork crun')
        config = json.loads(fs.files[fs.norm(f'{bundle}/config.json')])
        argv = config['process']['args']
        s = w.S()
        if argv[0] == 'java':
            proc = SimJVMProcess(w, name, argv[-1])
            w.jvms[fs.norm(argv[-1])] = proc

            def listen():
                if proc.returncode is None:
                    fs.files[fs.norm(proc.socket)] = b''
                    proc.listening = True

            loop.call_later(s.ticks(4) + (0.5 if s.chance(1 / 8) else 0.0), listen)
        else:
            duration = s.ticks(12)
            if s.chance(1 / 6):
                duration += s.ticks(3 * 1024)  # long enough for seeded container timeouts
            code = [0, 1, 137][s.weighted([6, 2, 1])]
            proc = SimProcess(w, name, duration, code)
            ctx.probe('container_process_started')
        w.procs[name] = proc
        return proc

    sim_asyncio.create_subprocess_exec = create_subprocess_exec

    # ---- the JVM side of the entryway protocol ---------------------------------------------------------------------
    async def open_unix_connection(path=None, **kwargs):  # pylint: disable=unused-argument
        await w.pause(2)
        jp = w.jvms.get(fs.norm(path))
        if jp is None or not fs.exists(path):
            raise FileNotFoundError(errno.ENOENT, 'No such file or directory', path)
        if not jp.listening:
            ctx.probe('jvm_connection_refused')
            raise ConnectionRefusedError(errno.ECONNREFUSED, 'Connection refused', path)
        reader = _Reader(loop)
        if not jp.handshaken:
            jp.handshaken = True
            reader.feed(b'\x01')
            return reader, _Writer(lambda data: None)
        return reader, _job_connection(jp, reader)

    def _job_connection(jp, reader):
        s = w.S()
        st = {'buf': bytearray(), 'n': None, 'parts': [], 'started': False, 'finished': False, 'cancelled': False}
        outcome = [mod.JVM.FINISH_NORMAL, mod.JVM.FINISH_USER_EXCEPTION, mod.JVM.FINISH_ENTRYWAY_EXCEPTION,
                   'eos', 99][s.weighted([16, 3, 1, 2, 1]) if w.faults_on else 0]
        duration = s.ticks(12) + (s.ticks(2048) if s.chance(1 / 8) else 0.0)
        writes_log = s.draw(4) != 1
        ignores_cancel = s.chance(1 / 8)
        cancel_delay = s.ticks(4)

        def msg(code, text=None):
            out = struct.pack('>i', code)
            if text is not None:
                b = text.encode()
                out += struct.pack('>i', len(b)) + b
            return out

        def finish(what):
            if st['finished'] or jp.returncode is not None:
                if not st['finished']:
                    st['finished'] = True
                    reader.feed_eof()
                return
            st['finished'] = True
            if what == 'eos':
                ctx.fault('jvm.died')
                reader.feed_eof()
                jp._exit(1)
            elif what == mod.JVM.FINISH_USER_EXCEPTION:
                reader.feed(msg(what, 'is.hail.utils.HailException: simulated user error'))
            elif what == mod.JVM.FINISH_ENTRYWAY_EXCEPTION:
                ctx.fault('jvm.entryway_exception')
                reader.feed(msg(what, 'java.lang.RuntimeException: simulated entryway failure'))
            else:
                reader.feed(msg(what))

        def start():
            st['started'] = True
            parts = st['parts']
            # command = [classpath, main class, scratch_dir, log_file, jar_url, *argv]
            if writes_log and len(parts) > 3:
                fs.files[fs.norm(parts[3])] = b'simulated jvm log\n'
            loop.call_later(duration, finish, outcome)

        def on_data(data):
            buf = st['buf']
            buf.extend(data)
            while True:
                if st['n'] is None:
                    if len(buf) < 4:
                        return
                    st['n'] = struct.unpack('>i', bytes(buf[:4]))[0]
                    del buf[:4]
                elif len(st['parts']) < st['n']:
                    if len(buf) < 4:
                        return
                    ln = struct.unpack('>i', bytes(buf[:4]))[0]
                    if len(buf) < 4 + ln:
                        return
                    st['parts'].append(bytes(buf[4:4 + ln]).decode())
                    del buf[:4 + ln]
                    if len(st['parts']) == st['n']:
                        start()
                else:
                    if len(buf) < 4:
                        return
                    del buf[:4]
                    if not st['cancelled']:
                        st['cancelled'] = True
                        ctx.probe('jvm_cancel_request_received')
                        if not ignores_cancel:
                            loop.call_later(cancel_delay, finish, mod.JVM.FINISH_CANCELLED)

        return _Writer(on_data)

    sim_asyncio.open_unix_connection = open_unix_connection

    # ---- images -------------------------------------------------------------------------------------------------
    class SimImage(mod.Image):
        async def _pull_image(self):
            await w.pause(4, 1 / 16, 1.0)
            if self.image_ref_str != mod.BATCH_WORKER_IMAGE:
                k = w.S().weighted([40, 1, 1, 1]) if w.faults_on else 0
                if k:
                    ctx.fault('image.pull_error')
                    w.log.add(_ACTOR.get(), 'fault', 'image.pull_error', k)
                    raise [None, mod.ImageNotFound, mod.ImageCannotBePulled, SimFault][k]('simulated')
            mod.image_configs[self.image_ref_str] = {
                'Id': 'sha256:' + hashlib.md5(self.image_ref_str.encode()).hexdigest(),
                'Config': {'User': '', 'WorkingDir': '', 'Volumes': None, 'Env': ['PATH=/usr/bin:/bin']},
            }

    mod.Image = SimImage

    # ---- resource usage monitor -----------------------------------------------------------------------------------
    class SimResourceUsageMonitor(mod.ResourceUsageMonitor):
        def __init__(self, *args, **kwargs):  # pylint: disable=super-init-not-called,unused-argument
            pass

        async def __aenter__(self):
            return self

        async def __aexit__(self, *exc):
            return False

        async def read(self):
            await w.pause(2)
            if w.fails('resource_usage.read_error', 1 / 64):
                raise SimFault('simulated: resource usage file unreadable')
            return mod.ResourceUsageMonitor.no_data()

    mod.ResourceUsageMonitor = SimResourceUsageMonitor

    # ---- cloud storage ------------------------------------------------------------------------------------------
    class _Readable:
        def __init__(self, data):
            self.data = data

        async def __aenter__(self):
            return self

        async def __aexit__(self, *exc):
            return False

        async def read(self, n=-1):
            await w.pause(2)
            if w.fails('storage.transient', 1 / 32):
                raise aiohttp.ServerDisconnectedError()
            n = len(self.data) if n < 0 else n
            out, self.data = self.data[:n], self.data[n:]
            return out

    class SimFS:
        """worker.fs: cloud URLs live in `blobs`, local paths in the host file system."""

        def __init__(self, *args, **kwargs):  # pylint: disable=unused-argument
            self.blobs = {}

        async def _io(self, what):
            await w.pause(3, 1 / 32, 1.0)
            if w.faults_on:
                k = w.S().weighted([93, 2, 1])
                if k == 1:
                    ctx.fault('storage.transient')
                    w.log.add(_ACTOR.get(), 'fault', 'storage.transient', what)
                    raise aiohttp.ServerDisconnectedError()
                if k == 2:
                    ctx.fault('storage.error')
                    w.log.add(_ACTOR.get(), 'fault', 'storage.error', what)
                    raise SimFault(f'simulated storage failure in {what}')

        def _get(self, url):
            if '://' in url:
                if url not in self.blobs:
                    raise FileNotFoundError(url)
                return self.blobs[url]
            p = fs.norm(url)
            if p not in fs.files:
                raise FileNotFoundError(url)
            d = fs.files[p]
            return d if isinstance(d, bytes) else d.encode()

        async def read(self, url):
            await self._io('read')
            return self._get(url)

        async def read_range(self, url, start, end=None, **kwargs):  # pylint: disable=unused-argument
            await self._io('read_range')
            d = self._get(url)
            return d[start:] if end is None else d[start:end + 1]

        async def write(self, url, data):
            await self._io('write')
            self.blobs[url] = bytes(data)

        async def open(self, url, **kwargs):  # pylint: disable=unused-argument
            await self._io('open')
            return _Readable(b'simulated jar' if url not in self.blobs else self.blobs[url])

        async def close(self):
            return None

    mod.RouterAsyncFS = SimFS

    # ---- the driver ---------------------------------------------------------------------------------------------------
    class SimDriverSession:
        async def post(self, url, json=None, headers=None, **kwargs):  # pylint: disable=redefined-outer-name,unused-argument
            await w.pause(3, 1 / 32, 1.0)
            what = url.rsplit('/', 1)[-1]
            if w.fails('driver.transient', 1 / 8):
                raise aiohttp.ServerDisconnectedError()
            w.log.add(_ACTOR.get(), 'driver_got', what)
            ctx.probe(f'driver_{what}')
            return None

        async def close(self):
            return None

    mod.httpx = types.SimpleNamespace(client_session=SimDriverSession, ClientSession=SimDriverSession)

    async def json_request(request):
        await asyncio.sleep(0)
        return request.body

    mod.json_request = json_request

    # ---- cloud API ----------------------------------------------------------------------------------------------------
    class SimDisk:
        def __init__(self, name):
            self.name = name

        async def create(self, labels=None):  # pylint: disable=unused-argument
            await w.pause(4, 1 / 8, 2.0)
            ctx.probe('extra_disk_created')
            if w.fails('disk.create_error', 1 / 12):
                raise SimFault('simulated: disk cannot be created')

        async def delete(self):
            await w.pause(4, 1 / 8, 2.0)
            if w.fails('disk.delete_error', 1 / 12):
                raise SimFault('simulated: disk cannot be deleted')

    class SimCloudWorkerAPI(mod.CloudWorkerAPI):
        nameserver_ip = '169.254.169.254'

        @property
        def cloud_specific_env_vars_for_user_jobs(self):
            return ['GOOGLE_APPLICATION_CREDENTIALS=/gsa-key/key.json']

        def create_disk(self, instance_name, disk_name, size_in_gb, mount_path):
            return SimDisk(disk_name)

        async def worker_container_registry_credentials(self, session):
            return {'username': 'u', 'password': 'p'}

        async def user_container_registry_credentials(self, credentials):
            return {'username': 'u', 'password': 'p'}

        def create_metadata_server_app(self, credentials):
            raise SimulationEscape('metadata server requested')

        def instance_config_from_config_dict(self, config_dict):
            raise SimulationEscape('instance_config_from_config_dict')

        async def _mount_cloudfuse(self, credentials, mount_base_path_data, mount_base_path_tmp, config):
            await w.pause(3)
            ctx.probe('cloudfuse_mount')
            if w.fails('cloudfuse.mount_error', 1 / 6):
                raise CalledProcessError(['gcsfuse'], 1, (b'', b'simulated mount failure'))

        async def unmount_cloudfuse(self, mount_base_path_data):
            await w.pause(3)
            if w.fails('cloudfuse.unmount_error', 1 / 8):
                raise CalledProcessError(['fusermount'], 1, (b'', b'simulated unmount failure'))

        async def close(self):
            return None

    from batch.cloud.gcp.instance_config import GCPSlimInstanceConfig
    mod.CLOUD_WORKER_API = SimCloudWorkerAPI()
    mod.instance_config = GCPSlimInstanceConfig(
        machine_type=f'n1-standard-{w.cores}', preemptible=True, local_ssd_data_disk=True, data_disk_size_gb=375,
        boot_disk_size_gb=10, job_private=False, resources=[])
    assert mod.instance_config.cores == mod.CORES == w.cores
    mod.image_lock = mod.aiorwlock.RWLock()
    mod.port_allocator = mod.PortAllocator()
    from hailtop import aiotools
    mod.network_allocator = mod.NetworkAllocator(aiotools.BackgroundTaskManager())
    # NetworkAllocator.reserve() without the three shell commands per namespace
    for i in range(min(255, mod.N_SLOTS + mod.N_JVM_CONTAINERS)):
        mod.network_allocator.public_networks.put_nowait(mod.NetworkNamespace(i, False, mod.INTERNET_INTERFACE))
    for i in range(min(255, mod.N_SLOTS)):
        mod.network_allocator.private_networks.put_nowait(mod.NetworkNamespace(i, True, mod.INTERNET_INTERFACE))

    # ---- observing job classes ----------------------------------------------------------------------------------------
    def observed(base, kind):
        class Observed(base):
            _sim_start_time = None
            _sim_state = None

            @property
            def start_time(self):
                return self._sim_start_time

            @start_time.setter
            def start_time(self, value):
                self._sim_start_time = value
                if value is not None:
                    w.entered(self)

            @property
            def state(self):
                return self._sim_state

            @state.setter
            def state(self, value):
                self._sim_state = value
                w.state_set(self, value)

            async def run(self):
                w.arrive(self, kind)
                how = 'returned'
                try:
                    await base.run(self)
                except asyncio.CancelledError:
                    how = 'cancelled'
                    raise
                except BaseException as e:
                    how = f'raised {type(e).__name__}'
                    if not w.log.frozen:
                        ctx.probe(f'{kind}_run_raised_{type(e).__name__}')
                    raise
                finally:
                    if not w.log.frozen:  # frozen: the run is over, simulate() is closing suspended coroutines
                        w.left(self, how)

        Observed.__name__ = base.__name__
        Observed.__qualname__ = base.__qualname__
        return Observed

    mod.DockerJob = observed(mod.DockerJob, 'docker')
    mod.JVMJob = observed(mod.JVMJob, 'jvm')

    worker = mod.Worker()
    worker.active = True
    mod.worker = worker
    if not isinstance(worker.cpu_sem, mod.FIFOWeightedSemaphore):
        raise RuntimeError('worker.cpu_sem is not a FIFOWeightedSemaphore')
    return worker, web


# ----------------------------------------------------------------------------------------------------------------
# jobs
# ----------------------------------------------------------------------------------------------------------------

class SimRequest(dict):
    def __init__(self, body=None, match_info=None):
        super().__init__()
        self.body = body
        self.match_info = match_info or {}


def job_plan(w, i):
    """everything decided up front for job i (its own stream): kind, cores, options, create instant."""
    s = w.ctx.stream(f'job{i}')
    jvm_sizes = [c for c in (1000, 2000, 4000, 8000) if c <= w.cap]
    kind = 'docker' if s.draw(2) == 0 or not jvm_sizes else 'jvm'
    if kind == 'jvm':
        big_first = sorted(jvm_sizes, key=lambda c: (c * 2 <= w.cap, c))  # sizes that do not fit twice first
        cores = big_first[s.weighted([4] + [2] * (len(big_first) - 1))]
    else:
        fitting = [c for c in _PALETTE if c <= w.cap]
        big = [c for c in fitting if c * 4 >= w.cap]
        cores = s.pick(big) if s.draw(3) != 2 else s.pick(fitting)
    spec = {
        'job_id': i,
        'resources': {'cores_mcpu': cores, 'memory_bytes': cores * 1024 * 1024, 'storage_gib': 0},
    }
    if kind == 'docker':
        spec['process'] = {'type': 'docker', 'image': ['ubuntu:22.04', 'docker.sim/hailgenetics/hail:0.2',
                                                       'gcr.io/proj/tool:1'][s.weighted([4, 1, 1])],
                           'command': ['/bin/sh', '-c', 'true']}
        opts = s.draw(64)
        if opts & 1 and opts & 2:
            spec['input_files'] = [{'from': 'gs://b/in', 'to': '/io/in'}]
        if opts & 4 and opts & 8:
            spec['output_files'] = [{'from': '/io/out', 'to': 'gs://b/out'}]
            spec['always_copy_output'] = bool(opts & 16)
        if s.draw(5) == 4:
            spec['timeout'] = [0.5, 2.0, 0.001][s.draw(3)]
        if s.draw(6) == 5:
            spec['resources']['storage_gib'] = [10, 20][s.draw(2)]  # 20 > free worker disk: external disk
        if s.draw(8) == 7:
            spec['cloudfuse'] = [{'bucket': 'simbucket', 'mount_path': '/fuse', 'read_only': True}]
        net = s.draw(8)
        if net >= 6:
            spec['network'] = 'private'
        if net == 7:
            spec['port'] = 8080
    else:
        spec['process'] = {'type': 'jvm', 'jar_spec': {'type': 'jar_url', 'value': 'gs://sim-query/jars/abc.jar'},
                           'command': ['is.hail.backend.service.Worker', 'root', str(i)], 'profile': s.draw(6) == 5}
        if s.draw(8) == 7:
            spec['cloudfuse'] = [{'bucket': 'simbucket', 'mount_path': '/fuse', 'read_only': True}]
    addtl = {'attempt_id': f'att{i}', 'job_group_id': 0, 'env': [{'name': 'SIM', 'value': '1'}] if s.draw(4) == 3 else None,
             'secrets': None}
    if s.draw(6) == 5:
        addtl['secrets'] = [{'name': 'sec', 'namespace': 'default', 'mount_path': '/sec',
                             'data': {'k': base64.b64encode(b'v').decode()}}]
    at = s.ticks(48)
    recreate = s.draw(8) == 7
    recreate_after = s.ticks(64)
    return {'i': i, 'kind': kind, 'cores': cores, 'spec': spec, 'addtl': addtl, 'at': at, 'recreate': recreate,
            'recreate_after': recreate_after}


def run(ctx):
    w = World(ctx)
    plans = [job_plan(w, i) for i in range(1, w.n_jobs + 1)]
    mod, env = _exec_worker_module(w.cores, w.fs)
    w.mod = mod
    from simkit import entropy
    log = ctx.log

    async def main(loop):
        w.loop = loop
        worker, web = build(w, mod, env)
        w.worker = worker
        loop.step_hooks.append(w.check_range)
        loop.idle_hooks.append(lambda: w.check_quiescent('idle'))

        # the bunch of job specs, written with the real SpecWriter / FileStore before faults are switched on
        from batch.spec_writer import SpecWriter
        sw = SpecWriter(worker.file_store, 1)
        for p in plans:
            sw.add(json.dumps(p['spec']))
        token = await sw.write()
        w.faults_on = True

        def create_body(p):
            return {'batch_id': 1, 'job_id': p['i'], 'format_version': 7, 'token': token, 'start_job_id': 1,
                    'user': 'simuser', 'gsa_key': {}, 'queue_time': 0, 'job_spec': json.loads(json.dumps(p['addtl']))}

        async def creator(p):
            _ACTOR.set(f'job{p["i"]}')
            await asyncio.sleep(p['at'])
            for attempt in range(2 if p['recreate'] else 1):
                if attempt:
                    await asyncio.sleep(p['recreate_after'])
                    ctx.probe('create_posted_again')
                log.add(f'job{p["i"]}', 'POST_create', p['kind'], p['cores'])
                resp = await worker.create_job(SimRequest(body=create_body(p)))
                log.add(f'job{p["i"]}', 'create_status', resp.status)

        async def deleter(p):
            i = p['i']
            s = ctx.stream(f'del{i}')
            mode = s.weighted([5, 1, 1, 3, 2, 1])
            if mode == 0:
                return
            _ACTOR.set(f'del{i}')
            if mode == 1:
                await asyncio.sleep(p['at'] + s.ticks(96))
            elif mode == 2:
                await w.until(i, 'arrive')
            elif mode == 3:
                await w.until(i, 'running')
            elif mode == 4:
                await w.until(i, 'final')
            else:
                await asyncio.sleep(p['at'])  # together with the create request
            n = 2 if s.draw(4) == 3 else 1
            for k in range(n):
                d = s.ticks(6)
                if s.draw(8) == 7:
                    d += s.ticks(1024)
                await asyncio.sleep(d)
                rec = next((r for r in reversed(w.recs) if r['id'] == i), None)
                phase = ('not_running_yet' if rec is None else 'after_run' if rec['left'] else
                         'waiting_for_cpu_sem' if not rec['entered'] else f'in_body_{rec["job"].state}')
                log.add(f'del{i}', 'DELETE', phase)
                ctx.fault('job.delete')
                ctx.probe(f'delete_{phase}')
                if k:
                    ctx.probe('delete_twice')
                try:
                    await worker.delete_job(SimRequest(match_info={'batch_id': '1', 'job_id': str(i)}))
                except web.HTTPNotFound:
                    log.add(f'del{i}', 'delete_status', 404)

        actors = [asyncio.create_task(creator(p), name=f'create{p["i"]}') for p in plans]
        actors += [asyncio.create_task(deleter(p), name=f'delete{p["i"]}') for p in plans]
        creators = actors[:len(plans)]
        done, _ = await asyncio.wait(creators)
        for t in done:
            if t.exception() is not None:
                raise t.exception()
        # quiescence: every background task of the worker (create_job_2 -> run_job, deletes, MJC posts) has ended
        deadline = loop.time() + 4 * 3600.0
        while worker.task_manager.tasks and loop.time() < deadline:
            await asyncio.wait(list(worker.task_manager.tasks), timeout=deadline - loop.time())
            if w.violation is not None:
                raise w.violation
        for t in actors:
            if t.done():
                if not t.cancelled() and t.exception() is not None:
                    raise t.exception()
            else:
                t.cancel()  # a delete actor whose phase never came
        await asyncio.sleep(0)
        if w.violation is not None:
            raise w.violation
        stuck = [r['name'] for r in w.recs if not r['left']]
        if stuck:
            ctx.probe('jobs_never_finished')
            log.add('oracle', 'unfinished', tuple(stuck))
        w.check_range()
        w.check_quiescent('end')
        log.add('oracle', 'end', worker.cpu_sem.value, len(w.recs))

    entropy.install(ctx.stream('entropy', 'prng'))
    try:
        _res, outcome = simulate(ctx, main, max_steps=400_000,
                                 executor_delay=lambda: ctx.stream(_ACTOR.get()).ticks(2))
    finally:
        entropy.uninstall()
        if w.worker is not None:
            w.worker.pool.shutdown(wait=False)
    if w.violation is not None:
        raise w.violation
    if outcome != 'done':
        raise RuntimeError(f'unexpected outcome {outcome}')
    ctx.extra['max_held_frac'] = w.max_held / w.cap


def nontrivial(r):
    p = r['probes']
    return r['n_events'] >= 10 and (p.get('job_waited_for_cpu_sem', 0) > 0 or bool(r['faults']))
