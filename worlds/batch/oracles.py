"""Ground-truth recount and transition monitors for batchsim.

Everything here reads raw table rows (python lists) -- never through the SQL evaluator -- so an evaluator bug cannot
cancel itself out.  `Oracles.on_commit(sess, journal)` is called by the engine after every committed transaction:
the database then holds exactly the committed state (transactions are serial).
"""
import os
import sys

from simkit.core import Violation

# debugging aid: VERIF_DBTRACE="attempts,instances:substring" prints the committed row changes of those tables whose
# row text contains the substring (stderr; never touches the event log or the choice streams)
_DBTRACE = os.environ.get('VERIF_DBTRACE')


def _dbtrace(orc, sess, journal):
    spec, _, needle = _DBTRACE.partition(':')
    tables = set(spec.split(','))
    shown = False
    for op, table, _rid, old, new in journal:
        if table.lname in tables and (not needle or needle in f'{old} {new}') and not shown:
            shown = True
            for q, a in getattr(sess, 'trace', []):
                print(f'[dbtrace commit#{orc.n_commits}]   SQL {q} {str(a)[:200]}', file=sys.stderr)
        if table.lname not in tables:
            continue
        cols = list(table.colidx)
        txt = f'{old} {new}'
        if needle and needle not in txt:
            continue

        def d(row):
            return None if row is None else {c: row[i] for c, i in table.colidx.items() if row[i] is not None}
        if op == 'upd' and old is not None and new is not None:
            ch = {c: (old[i], new[i]) for c, i in table.colidx.items() if old[i] != new[i]}
            key = {c: new[table.colidx[c]] for c in cols[:3]}
            print(f'[dbtrace t={orc.ctx.loop.time():.4f} commit#{orc.n_commits}] {op} {table.lname} {key} {ch}', file=sys.stderr)
        else:
            print(f'[dbtrace t={orc.ctx.loop.time():.4f} commit#{orc.n_commits}] {op} {table.lname} {d(old)} -> {d(new)}', file=sys.stderr)


TERMINAL = ('Success', 'Failed', 'Error', 'Cancelled')
LIVE = ('Ready', 'Creating', 'Running')
ALLOWED = {
    'Pending': {'Pending', 'Ready'},
    'Ready': {'Ready', 'Creating', 'Running'} | set(TERMINAL),
    'Creating': {'Creating', 'Running', 'Ready'} | set(TERMINAL),
    'Running': {'Running', 'Ready'} | set(TERMINAL),
}
UICR_COLS = ('n_ready_jobs', 'ready_cores_mcpu', 'n_running_jobs', 'running_cores_mcpu', 'n_creating_jobs',
             'n_cancelled_ready_jobs', 'n_cancelled_running_jobs', 'n_cancelled_creating_jobs')
JGC_COLS = ('n_ready_cancellable_jobs', 'ready_cancellable_cores_mcpu', 'n_creating_cancellable_jobs',
            'n_running_cancellable_jobs', 'running_cancellable_cores_mcpu')


class T:
    """column-name access to a raw table."""

    def __init__(self, eng, name):
        self.t = eng.tables[name]
        self.ix = self.t.colidx

    def rows(self):
        return self.t.rows.values()

    def col(self, name):
        return self.ix[name]


class Oracles:
    def __init__(self, world, props):
        self.w = world
        self.ctx = world.ctx
        self.eng = world.eng
        self.props = set(props)  # property ids whose oracles raise; the others are still computed for attribution
        self.pending = None  # first violation found inside a commit hook (raised by the world loop)
        self.n_commits = 0
        self.mem_mismatch = {}  # instance name -> (first seen, kind): driver memory differs from the database
        self.cancelled_before = set()  # (batch, group) effectively... explicitly cancelled, committed earlier
        self.committed_updates = set()
        self.update_commit_time = {}  # (batch, update) -> simulated time at which its commit was first seen
        self.proc_errors = []
        self.deleted_batches = set()
        self.checks_run = 0
        self.enabled = True
        self.compaction_sessions = set()
        e = self.eng
        self.jobs = T(e, 'jobs')
        self.bu = T(e, 'batch_updates')
        self.anc = T(e, 'job_group_self_and_ancestors')
        self.jgc = T(e, 'job_groups_cancelled')
        self.batches = T(e, 'batches')
        self.jg = T(e, 'job_groups')
        self.uicr = T(e, 'user_inst_coll_resources')
        self.jgcr = T(e, 'job_group_inst_coll_cancellable_resources')
        self.tallies = T(e, 'job_groups_n_jobs_in_complete_states')
        self.attempts = T(e, 'attempts')
        self.ares = T(e, 'attempt_resources')
        self.inst = T(e, 'instances')
        self.ifree = T(e, 'instances_free_cores_mcpu')
        self.parents = T(e, 'job_parents')
        self.agg_job = T(e, 'aggregated_job_resources_v3')
        self.agg_jg = T(e, 'aggregated_job_group_resources_v3')
        self.agg_bp = T(e, 'aggregated_billing_project_user_resources_v3')
        self.agg_bpd = T(e, 'aggregated_billing_project_user_resources_by_date_v3')

    # ------------------------------------------------------------------------------------------------
    def fail(self, prop, oracle, sig, detail):
        # a scenario may re-attribute an oracle family to the property it decides (e.g. C09 uses the
        # counter / tally recounts as its "never double-counts" oracle): alias = {'C01': 'C09', ...}
        alias = getattr(self, 'alias', None)
        if alias and prop in alias and prop not in self.props:
            sig = f'{alias[prop]}/{sig}'
            prop = alias[prop]
        if self.pending is None and prop in self.props:
            self.pending = Violation(prop, oracle, sig, detail)
            self.ctx.log.add('oracle', 'violation', sig)

    def sql_error(self, query, args, e):
        """a statement failed inside the (simulated) server -- not an injected fault."""
        q = query.strip()
        self.ctx.probe(f'sql_error_{e.errno}')
        if q.upper().startswith('CALL'):
            proc = q[4:].strip().split('(')[0].strip().lower()
            self.proc_errors.append((proc, e.errno, e.msg))
            self.ctx.log.add('db', 'proc_error', proc, e.errno)
            if proc in ('schedule_job', 'mark_job_started', 'mark_job_creating', 'mark_job_complete', 'unschedule_job'):
                self.fail('C07', 'proc_health', f'C07/proc_error/{proc}/{e.errno}',
                          f'CALL {proc}{tuple(args or ())[:4]} failed with {e.errno} {e.msg}')
            else:
                self.fail('C07', 'proc_health', f'C07/proc_error/{proc}/{e.errno}', f'CALL {proc} failed: {e.errno} {e.msg}')

    def raise_pending(self):
        if self.pending is not None:
            v, self.pending = self.pending, None
            raise v

    # ------------------------------------------------------------------------------------------------
    def snapshot(self):
        """derived committed-state facts used by several oracles."""
        bu = self.bu
        committed = {(r[bu.col('batch_id')], r[bu.col('update_id')]) for r in bu.rows() if r[bu.col('committed')]}
        a = self.anc
        ancestors = {}
        for r in a.rows():
            ancestors.setdefault((r[a.col('batch_id')], r[a.col('job_group_id')]), []).append(r[a.col('ancestor_id')])
        c = self.jgc
        explicitly = {(r[c.col('id')], r[c.col('job_group_id')]) for r in c.rows()}
        eff = {}
        for (b, g), ancs in ancestors.items():
            eff[(b, g)] = any((b, x) in explicitly for x in ancs)
        bt = self.batches
        batch = {r[bt.col('id')]: r for r in bt.rows()}
        return committed, ancestors, explicitly, eff, batch

    # ------------------------------------------------------------------------------------------------
    def on_commit(self, sess, journal):
        if not self.enabled:
            return
        self.n_commits += 1
        if _DBTRACE:
            _dbtrace(self, sess, journal)
        try:
            self._monitors(journal)
            self._invariants(journal)
        except Violation as v:
            if self.pending is None and v.prop in self.props:
                self.pending = v
        # bookkeeping after evaluation
        c = self.jgc
        for r in c.rows():
            self.cancelled_before.add((r[c.col('id')], r[c.col('job_group_id')]))
        bu = self.bu
        for r in bu.rows():
            if r[bu.col('committed')]:
                k = (r[bu.col('batch_id')], r[bu.col('update_id')])
                if k not in self.committed_updates:
                    self.committed_updates.add(k)
                    self.update_commit_time[k] = self.ctx.loop.time() if self.ctx.loop is not None else 0.0

    # ---- transition monitors over the journal ------------------------------------------------------
    def _monitors(self, journal):
        committed, ancestors, explicitly, eff, batch = self.snapshot()
        J = self.jobs
        A = self.attempts
        js, jb, jj, ju, jg, jar, jc, jat = (J.col(x) for x in ('state', 'batch_id', 'job_id', 'update_id',
                                                              'job_group_id', 'always_run', 'cancelled', 'attempt_id'))
        # was the group cancelled by a transaction committed BEFORE this one?
        def cancelled_before(b, g):
            return any((b, x) in self.cancelled_before for x in ancestors.get((b, g), [g]))

        for op, table, _rid, old, new in journal:
            name = table.lname
            if name == 'jobs':
                if op == 'upd':
                    o, n = old[js], new[js]
                    key = (new[jb], new[jj])
                    upd_committed_before = (new[jb], new[ju]) in self.committed_updates
                    upd_committed_now = (new[jb], new[ju]) in committed
                    if o != n:
                        self.ctx.probe(f'job_{o}_to_{n}')
                        if o in TERMINAL:
                            self.fail('C04', 'lifecycle', f'C04/terminal_state_left/{o}_to_{n}',
                                      f'job {key} left terminal state {o} for {n}')
                        elif n not in ALLOWED.get(o, ()):
                            self.fail('C04', 'lifecycle', f'C04/illegal_transition/{o}_to_{n}', f'job {key}: {o} -> {n}')
                        if n in ('Creating', 'Running') or n in TERMINAL:
                            if not upd_committed_now:
                                self.fail('C41', 'uncommitted', f'C41/uncommitted_job_entered/{n}',
                                          f'job {key} of uncommitted update {new[ju]} moved {o} -> {n}')
                        if n in ('Creating', 'Running') and not new[jar]:
                            if cancelled_before(new[jb], new[jg]):
                                self.fail('C07', 'cancel_scope', f'C07/cancelled_job_started/{n}',
                                          f'job {key} in cancelled group {new[jg]} moved {o} -> {n}')
                            if old[jc]:
                                self.fail('C05', 'deps', f'C05/cancelled_child_ran/{n}',
                                          f'job {key} marked cancelled (failed parent) moved {o} -> {n}')
                        if n == 'Cancelled' and not (old[jc] or new[jc] or eff.get((new[jb], new[jg]), False)):
                            # "jobs in sibling or ancestor groups are unaffected": a job may only be marked
                            # Cancelled if it carries the cancelled flag (failed parent) or its group / an ancestor
                            # group is cancelled in the state this transaction commits
                            self.fail('C07', 'cancel_scope', 'C07/job_cancelled_outside_cancelled_subtree',
                                      f'job {key} of group {new[jg]} moved {o} -> Cancelled although neither it nor '
                                      f'any ancestor group is cancelled')
                        if n == 'Ready' and o in ('Creating', 'Running') and old[jat] is not None:
                            # the attempt is withdrawn: the job's CURRENT attempt must have been ended by this very
                            # transaction (unschedule_job / deactivate_instance); otherwise the job is re-queued while
                            # its current attempt is alive and it will run twice
                            ar = A.t.pk_index.get((new[jb], new[jj], old[jat]))
                            if ar is None:
                                ar = next((rid for rid, r in A.t.rows.items() if r[A.col('batch_id')] == new[jb]
                                           and r[A.col('job_id')] == new[jj] and r[A.col('attempt_id')] == old[jat]), None)
                            if ar is not None and A.t.rows[ar][A.col('end_time')] is None:
                                self.fail('C39', 'current_attempt', 'C39/requeued_with_open_current_attempt',
                                          f'job {key} moved {o} -> Ready although its current attempt {old[jat]} '
                                          f'is still open')
                        if n == 'Ready' and o == 'Pending':
                            self._check_parents_terminal(key, 'became Ready')
                        if n in TERMINAL:
                            if old[jat] is not None and old[jat] != new[jat]:
                                self.fail('C39', 'current_attempt', 'C39/completed_by_non_current_attempt',
                                          f'job {key} had current attempt {old[jat]} but was completed by {new[jat]}')
                    if new[js] == 'Running' and (o != n or old[jat] != new[jat]) and \
                            (new[jb], new[jj], new[jat]) in getattr(self.w, 'refused_attempts', ()):
                        # the worker answered 403 to the create request of exactly this attempt (it already runs the job
                        # under another attempt id): nobody will ever run or report it
                        self.fail('C39', 'current_attempt', 'C39/job_running_under_attempt_the_worker_refused',
                                  f'job {key} was marked Running with attempt {new[jat]}, which the worker refused; '
                                  f'the attempt it actually runs can no longer complete the job')
                    if new[js] in ('Creating', 'Running') and new[jat] is None:
                        self.fail('C39', 'current_attempt', 'C39/running_without_attempt',
                                  f'job {key} is {new[js]} without a current attempt')
                elif op == 'ins':
                    key = (new[jb], new[jj])
                    if cancelled_before(new[jb], new[jg]):
                        self.fail('C07', 'cancel_scope', 'C07/job_added_under_cancelled_group',
                                  f'job {key} inserted into cancelled group {new[jg]}')
                    if new[js] == 'Ready':
                        self._check_parents_terminal(key, 'inserted Ready')
                    elif new[js] != 'Pending':
                        self.fail('C04', 'lifecycle', f'C04/inserted_in_state/{new[js]}', f'job {key}')
            elif name == 'attempts':
                self._attempt_monitor(op, old, new, committed)
            elif name == 'job_groups_cancelled' and op == 'ins':
                b, g = new[self.jgc.col('id')], new[self.jgc.col('job_group_id')]
                if any((b, x) in self.cancelled_before for x in ancestors.get((b, g), [g])):
                    self.fail('C07', 'cancel_idempotent', 'C07/recancel_changed_state',
                              f'group {(b, g)} was already cancelled yet a cancellation row was inserted')
                self.ctx.probe('cancel_committed')
                if any((b2, g2) in self.cancelled_before and b2 == b and g in ancestors.get((b2, g2), [])
                       and g2 != g for (b2, g2) in self.cancelled_before):
                    self.ctx.probe('cancel_child_then_ancestor')
            elif name == 'job_groups' and op == 'ins':
                G = self.jg
                b, g = new[G.col('batch_id')], new[G.col('job_group_id')]
                for x in ancestors.get((b, g), []):
                    if x != g and (b, x) in self.cancelled_before:
                        self.fail('C07', 'cancel_scope', 'C07/group_added_under_cancelled_group',
                                  f'group {(b, g)} created beneath cancelled group {x}')

    # ---- C06: what the API REPORTS about a batch / job group ---------------------------------------------
    def check_reported(self, b, g, rep, t_sent, quiescent=False):
        """`rep` is the JSON the front end returned for batch b (g == 0) or job group (b, g) to a request sent at
        simulated time t_sent.  Terminal states are absorbing, so a job that is non-terminal NOW and belongs to an
        update that was committed before the request was sent was non-terminal when the handler read the database:
        the response must not have said `complete`.  At quiescence (all committed jobs terminal, nothing in flight)
        the converse and the counts are checked too."""
        if not isinstance(rep, dict) or 'complete' not in rep:
            return
        committed, ancestors, _e, _eff, _batch = self.snapshot()
        J = self.jobs
        js, jb, jg, ju = (J.col(x) for x in ('state', 'batch_id', 'job_group_id', 'update_id'))
        live_old = []
        n_sub = 0
        n_term = 0
        for r in J.rows():
            if r[jb] != b or (b, r[ju]) not in committed:
                continue
            if g != 0 and g not in ancestors.get((b, r[jg]), [r[jg]]):
                continue
            n_sub += 1
            if r[js] in TERMINAL:
                n_term += 1
            elif self.update_commit_time.get((b, r[ju]), 1e18) < t_sent:
                live_old.append((r[J.col('job_id')], r[js]))
        self.ctx.probe('status_reported_complete' if rep['complete'] else 'status_reported_incomplete')
        if rep['complete'] and live_old:
            self.fail('C06', 'reported', 'C06/reported_complete_with_live_jobs',
                      f'{"batch" if g == 0 else "job group"} {(b, g)} was reported complete (state '
                      f'{rep.get("state")!r}) while jobs {live_old[:4]} of updates committed before the request are '
                      f'not terminal')
        if rep['complete'] and rep.get('n_jobs') is not None and rep.get('n_completed') is not None \
                and rep['n_completed'] != rep['n_jobs']:
            self.fail('C06', 'reported', 'C06/reported_complete_but_counts_differ',
                      f'{(b, g)}: complete with n_completed {rep["n_completed"]} != n_jobs {rep["n_jobs"]}')
        if quiescent:
            if n_sub == n_term and not rep['complete']:
                self.fail('C06', 'reported', 'C06/reported_incomplete_at_quiescence',
                          f'{(b, g)}: all {n_sub} committed jobs are terminal and nothing is in flight, yet the API '
                          f'reports complete = False (state {rep.get("state")!r})')
            if rep.get('n_jobs') is not None and rep['n_jobs'] != n_sub:
                self.fail('C06', 'reported', 'C06/reported_n_jobs_differs_at_quiescence',
                          f'{(b, g)}: API n_jobs {rep["n_jobs"]} != {n_sub} committed jobs in the subtree')
            for key, states in (('n_succeeded', ('Success',)), ('n_failed', ('Failed', 'Error')),
                                ('n_cancelled', ('Cancelled',))):
                if rep.get(key) is None:
                    continue
                cnt = 0
                for r in J.rows():
                    if r[jb] == b and (b, r[ju]) in committed and r[js] in states and \
                            (g == 0 or g in ancestors.get((b, r[jg]), [r[jg]])):
                        cnt += 1
                if rep[key] != cnt:
                    self.fail('C06', 'reported', f'C06/reported_{key}_differs_at_quiescence',
                              f'{(b, g)}: API {key} {rep[key]} != recount {cnt}')

    # ---- C10: the driver's in-memory mirror of instance state / free cores ------------------------------
    MEM_SETTLE_S = 60.0

    def check_memory(self, now):
        """sampled by a harness task every few simulated seconds.  The in-memory Instance objects are an eventually
        consistent mirror of `instances` / `instances_free_cores_mcpu` (reservations and releases are applied just
        before / after the database call), so a momentary difference is normal; a difference that is still there
        MEM_SETTLE_S simulated seconds later, at every sample in between, is not."""
        app = getattr(self.w, 'driver_app', None)
        if app is None or 'driver' not in app:
            return
        if getattr(self, '_mem_app', None) is not app:
            # a new driver incarnation: its memory was rebuilt from the database
            self._mem_app = app
            self.mem_mismatch.clear()
        try:
            mem = app['driver'].inst_coll_manager.name_instance
        except Exception:  # pylint: disable=broad-except
            return
        I, F = self.inst, self.ifree
        seen = set()
        db_rows = {r[I.col('name')]: r for r in I.rows()}
        db_frees = {r[F.col('name')]: r[F.col('free_cores_mcpu')] for r in F.rows()}
        for name, inst in sorted(mem.items()):
            row = db_rows.get(name)
            if row is None:
                continue
            db_state = row[I.col('state')]
            db_free = db_frees.get(name)
            m_state, m_free = inst.state, inst.free_cores_mcpu
            kind = None
            if m_state != db_state:
                kind = 'state'
            elif db_free is not None and m_free != db_free:
                kind = 'free_cores'
            if kind is None:
                self.mem_mismatch.pop(name, None)
                continue
            seen.add(name)
            first = self.mem_mismatch.get(name)
            if first is None or first[1] != kind:
                self.mem_mismatch[name] = (now, kind)
                continue
            if now - first[0] > self.MEM_SETTLE_S:
                self.ctx.probe('mem_mirror_diverged')
                A, J = self.attempts, self.jobs
                open_att = []
                for r in A.rows():
                    if r[A.col('instance_name')] == name and r[A.col('end_time')] is None:
                        jr = next((x for x in J.rows() if x[J.col('batch_id')] == r[A.col('batch_id')]
                                   and x[J.col('job_id')] == r[A.col('job_id')]), None)
                        open_att.append((r[A.col('batch_id')], r[A.col('job_id')], r[A.col('attempt_id')],
                                         jr[J.col('state')] if jr else None, jr[J.col('attempt_id')] if jr else None,
                                         jr[J.col('cores_mcpu')] if jr else None))
                # history attribution: was a procedure call naming this instance re-issued by gear.database because its
                # connection was lost AFTER the call had committed?  (The repeated call then answers delta_cores = 0.)
                retried = sorted({p for p, a in getattr(self.w, 'ack_lost_calls', []) if name in a})
                suffix = '/after_retried_call' if retried else ''
                if kind == 'state' and 'activate_instance' in retried:
                    # Instance.activate raises CallError when the re-issued activate_instance answers "not pending":
                    # memory keeps 'pending' for an instance the database has activated (its own known finding)
                    suffix += '/activate_instance'
                self.fail('C10', 'memory_mirror', f'C10/in_memory_{kind}_diverged{suffix}',
                          f'[re-issued after ack loss: {retried}] ' * bool(retried) +
                          f'instance {name}: driver memory has state {m_state}, free {m_free}; database has state '
                          f'{db_state}, free {db_free}; different at every sample for {now - first[0]:.0f} s; open '
                          f'attempts on it (batch, job, attempt, job state, job attempt, cores): {open_att}')
        for name in list(self.mem_mismatch):
            if name not in mem:
                del self.mem_mismatch[name]

    def _check_parents_terminal(self, key, what):
        b, j = key
        P = self.parents
        J = self.jobs
        pb, pj, pp = P.col('batch_id'), P.col('job_id'), P.col('parent_id')
        t = P.t
        rows = [t.rows[r] for r in t.lookup((pb, pj), (b, j))]
        for r in rows:
            pid = r[pp]
            prid = J.t.pk_index.get((b, pid))
            if prid is None:
                self.fail('C05', 'deps', 'C05/ready_with_missing_parent', f'job {key} {what} but parent {pid} does not exist')
                continue
            st = J.t.rows[prid][J.col('state')]
            if st not in TERMINAL:
                self.fail('C05', 'deps', 'C05/ready_before_parent_terminal',
                          f'job {key} {what} while parent {pid} is {st}')

    def _attempt_monitor(self, op, old, new, committed):
        A = self.attempts
        st, rt, et, rs, ab, aj, aa = (A.col(x) for x in ('start_time', 'rollup_time', 'end_time', 'reason', 'batch_id',
                                                        'job_id', 'attempt_id'))

        def billed(r):
            if r[st] is None or r[rt] is None:
                return 0
            return max(r[rt] - r[st], 0)
        if op == 'ins':
            key = (new[ab], new[aj], new[aa])
            J = self.jobs
            rid = J.t.pk_index.get((new[ab], new[aj]))
            if rid is not None:
                jr = J.t.rows[rid]
                if (jr[J.col('batch_id')], jr[J.col('update_id')]) not in committed:
                    self.fail('C41', 'uncommitted', 'C41/attempt_for_uncommitted_job',
                              f'attempt {key} created for a job of an uncommitted update')
                if jr[J.col('attempt_id')] != new[aa]:
                    # an attempt that is not the job's current one (double placement after a lost response, a report
                    # that arrives after the job moved on): the orphaned-attempt sweep has something to do
                    self.ctx.probe('orphan_attempt_created')
            return
        if op != 'upd':
            return
        key = (new[ab], new[aj], new[aa])
        bo, bn = billed(old), billed(new)
        if new[et] is not None and new[st] is not None and bn > max(new[et] - new[st], 0):
            self.fail('C03', 'billed_time', 'C03/billed_exceeds_attempt', f'attempt {key}: billed {bn} > end-start '
                      f'{new[et] - new[st]} ({new})')
        if new[rt] is not None and new[st] is not None and new[rt] - new[st] < 0:
            self.ctx.probe('rollup_before_start_clamped')
        if bn < bo:
            # "corrects the end to an earlier time": an end before the recorded one, or -- for an attempt that had no
            # end yet -- an end before the time it had already been billed up to.  A first end at or after the billed
            # horizon is no such correction (unschedule_job with a NULL rollup used to pass as one)
            end_earlier = new[et] is not None and (
                (old[et] is not None and new[et] < old[et])
                or (old[et] is None and old[rt] is not None and new[et] < old[rt]))
            if not (end_earlier or new[rs] == 'activation_timeout'):
                self.fail('C03', 'billed_time', 'C03/billed_decreased', f'attempt {key}: billed {bo} -> {bn} '
                          f'(old {old} new {new})')
            else:
                self.ctx.probe('billed_decrease_by_end_correction')
        if old[st] is not None:
            if new[st] is None:
                if new[rs] != 'activation_timeout':
                    self.fail('C03', 'start_time', 'C03/start_time_cleared', f'attempt {key}: {old} -> {new}')
            elif new[st] > old[st]:
                self.fail('C03', 'start_time', 'C03/start_time_moved_later', f'attempt {key}: {old[st]} -> {new[st]}')
        if old[rs] is not None:
            end_earlier = new[et] is not None and old[et] is not None and new[et] < old[et]
            if new[rs] != old[rs] and not end_earlier:
                # a report with a strictly earlier end replaces end time *and* the reason that comes with it (by
                # design of attempts_before_update; the property only constrains the direction of the end time);
                # any other change of an existing reason is a violation
                self.fail('C03', 'end_reason', 'C03/reason_replaced', f'attempt {key}: {old[rs]} -> {new[rs]} '
                          f'(end {old[et]} -> {new[et]})')
            elif new[rs] != old[rs]:
                self.ctx.probe('reason_replaced_with_earlier_end')
            if (old[et] is None) != (new[et] is None) or (new[et] is not None and new[et] > old[et]):
                self.fail('C03', 'end_reason', 'C03/end_moved_later_after_reason', f'attempt {key}: {old[et]} -> {new[et]}')
            if new[et] is not None and old[et] is not None and new[et] < old[et]:
                self.ctx.probe('end_time_corrected_earlier')

    # ---- state invariants ----------------------------------------------------------------------------
    def _invariants(self, journal):
        touched = {t.lname for _op, t, _r, _o, _n in journal}
        committed, ancestors, explicitly, eff, batch = self.snapshot()
        self.checks_run += 1
        J = self.jobs
        js, jb, jj, ju, jg, jar, jc, jco, jic, jat = (J.col(x) for x in (
            'state', 'batch_id', 'job_id', 'update_id', 'job_group_id', 'always_run', 'cancelled', 'cores_mcpu',
            'inst_coll', 'attempt_id'))
        bt = self.batches
        user_of = {b: r[bt.col('user')] for b, r in batch.items()}
        exp_user = {}
        exp_user_all = {}  # including jobs of uncommitted updates (attribution for C41)
        exp_jg = {}
        tally = {}
        tally_unc = {}  # terminal jobs of uncommitted updates (attribution of mismatches to C41)
        njobs = {}
        live = {}
        jobs_by_key = {}
        for r in J.rows():
            b, g, u, s = r[jb], r[jg], r[ju], r[js]
            jobs_by_key[(b, r[jj])] = r
            is_committed = (b, u) in committed
            gcanc = eff.get((b, g), False)
            canc_eff = (not r[jar]) and (bool(r[jc]) or gcanc)
            cores = r[jco]
            if s in LIVE:
                k = (user_of.get(b), r[jic])
                for target, ok in ((exp_user_all, True), (exp_user, is_committed)):
                    if not ok:
                        continue
                    d = target.setdefault(k, dict.fromkeys(UICR_COLS, 0))
                    if s == 'Ready':
                        if canc_eff:
                            d['n_cancelled_ready_jobs'] += 1
                        else:
                            d['n_ready_jobs'] += 1
                            d['ready_cores_mcpu'] += cores
                    elif s == 'Running':
                        if canc_eff:
                            d['n_cancelled_running_jobs'] += 1
                        else:
                            d['n_running_jobs'] += 1
                            d['running_cores_mcpu'] += cores
                    else:
                        if canc_eff:
                            d['n_cancelled_creating_jobs'] += 1
                        else:
                            d['n_creating_jobs'] += 1
                cancellable = (not r[jar]) and not r[jc] and not gcanc
                if cancellable:
                    for x in ancestors.get((b, g), [g]):
                        d = exp_jg.setdefault((b, u, x, r[jic]), dict.fromkeys(JGC_COLS, 0))
                        if s == 'Ready':
                            d['n_ready_cancellable_jobs'] += 1
                            d['ready_cancellable_cores_mcpu'] += cores
                        elif s == 'Running':
                            d['n_running_cancellable_jobs'] += 1
                            d['running_cancellable_cores_mcpu'] += cores
                        else:
                            d['n_creating_cancellable_jobs'] += 1
            if is_committed:
                for x in ancestors.get((b, g), [g]):
                    njobs[(b, x)] = njobs.get((b, x), 0) + 1
                    if s in TERMINAL:
                        d = tally.setdefault((b, x), [0, 0, 0, 0])
                        d[0] += 1
                        if s == 'Success':
                            d[1] += 1
                        elif s == 'Cancelled':
                            d[3] += 1
                        else:
                            d[2] += 1
                    else:
                        live[(b, x)] = live.get((b, x), 0) + 1
            elif s in TERMINAL or s in ('Creating', 'Running'):
                self.fail('C41', 'uncommitted', f'C41/uncommitted_job_in_state/{s}', f'job {(b, r[jj])} update {u}')
                if s in TERMINAL:
                    for x in ancestors.get((b, g), [g]):
                        d = tally_unc.setdefault((b, x), [0, 0, 0, 0])
                        d[0] += 1
                        d[1 if s == 'Success' else (3 if s == 'Cancelled' else 2)] += 1
            if s in ('Creating', 'Running') and r[jat] is None:
                self.fail('C39', 'current_attempt', 'C39/running_without_attempt', f'job {(b, r[jj])} is {s}')

        # ---- C01 user counters ------------------------------------------------------------------------
        U = self.uicr
        got = {}
        for r in U.rows():
            k = (r[U.col('user')], r[U.col('inst_coll')])
            d = got.setdefault(k, dict.fromkeys(UICR_COLS, 0))
            for c in UICR_COLS:
                d[c] += r[U.col(c)]
        zero = dict.fromkeys(UICR_COLS, 0)
        for k in sorted(set(got) | set(exp_user), key=str):
            g_, e_ = got.get(k, zero), exp_user.get(k, zero)
            if g_ != e_:
                bad = [c for c in UICR_COLS if g_[c] != e_[c]]
                ea = exp_user_all.get(k, zero)
                if g_ == ea or all(g_[c] == ea[c] for c in bad):
                    self.fail('C41', 'uncommitted_counted', f'C41/uncommitted_job_counted/{bad[0]}',
                              f'{k}: counters {_sub(g_, bad)} include jobs of uncommitted updates; committed recount {_sub(e_, bad)}')
                    self.fail('C01', 'user_counters', f'C01/user_counter_includes_uncommitted/{bad[0]}',
                              f'{k}: counters {_sub(g_, bad)} vs committed recount {_sub(e_, bad)}')
                else:
                    self.fail('C01', 'user_counters', f'C01/user_counter_mismatch/{bad[0]}',
                              f'{k}: counters {_sub(g_, bad)} != recount {_sub(e_, bad)} (all-updates recount {_sub(ea, bad)})')
        # ---- C01 job-group cancellable counters --------------------------------------------------------
        R = self.jgcr
        gotg = {}
        for r in R.rows():
            k = (r[R.col('batch_id')], r[R.col('update_id')], r[R.col('job_group_id')], r[R.col('inst_coll')])
            d = gotg.setdefault(k, dict.fromkeys(JGC_COLS, 0))
            for c in JGC_COLS:
                d[c] += r[R.col(c)]
        zg = dict.fromkeys(JGC_COLS, 0)
        for k in sorted(set(gotg) | set(exp_jg), key=str):
            b, u, g, _ic = k
            if eff.get((b, g), False) or b not in batch:
                continue  # rows of cancelled groups are never read again
            g_, e_ = gotg.get(k, zg), exp_jg.get(k, zg)
            if g_ != e_:
                bad = [c for c in JGC_COLS if g_[c] != e_[c]]
                self.fail('C01', 'group_counters', f'C01/group_cancellable_mismatch/{bad[0]}',
                          f'(batch, update, group, inst_coll)={k}: {_sub(g_, bad)} != recount {_sub(e_, bad)}')
        # ---- C04 tallies / C06 completion ------------------------------------------------------------------
        Tl = self.tallies
        G = self.jg
        gstate = {}
        for r in G.rows():
            gstate[(r[G.col('batch_id')], r[G.col('job_group_id')])] = r
        for r in Tl.rows():
            k = (r[Tl.col('id')], r[Tl.col('job_group_id')])
            e_ = tally.get(k, [0, 0, 0, 0])
            g_ = [r[Tl.col('n_completed')], r[Tl.col('n_succeeded')], r[Tl.col('n_failed')], r[Tl.col('n_cancelled')]]
            if g_ != e_:
                names = ('n_completed', 'n_succeeded', 'n_failed', 'n_cancelled')
                bad = [names[i] for i in range(4) if g_[i] != e_[i]]
                un = tally_unc.get(k, [0, 0, 0, 0])
                if g_ == [a + c for a, c in zip(e_, un)]:
                    # explained entirely by completed jobs of uncommitted updates: that is C41's violation
                    self.fail('C41', 'uncommitted_counted', f'C41/uncommitted_job_in_tallies/{bad[0]}',
                              f'group {k}: tallies {g_} include {un} jobs of uncommitted updates; committed recount {e_}')
                else:
                    self.fail('C04', 'tallies', f'C04/tally_mismatch/{bad[0]}', f'group {k}: tallies {g_} != recount {e_}')
                    self.fail('C06', 'tallies', f'C06/tally_mismatch/{bad[0]}', f'group {k}: tallies {g_} != recount {e_}')
        for k, r in gstate.items():
            b, g = k
            upd = r[G.col('update_id')]
            if upd is not None and (b, upd) not in committed:
                if njobs.get(k, 0):
                    pass
                continue
            n = njobs.get(k, 0)
            all_done = live.get(k, 0) == 0
            st = r[G.col('state')]
            if r[G.col('n_jobs')] != n:
                self.fail('C06', 'n_jobs', 'C06/group_n_jobs_mismatch', f'group {k}: n_jobs {r[G.col("n_jobs")]} != {n} committed jobs')
            if (st == 'complete') != all_done:
                self.fail('C06', 'completion', f'C06/group_state_{st}_but_all_done_{all_done}',
                          f'group {k}: state {st}, committed jobs {n}, non-terminal {live.get(k, 0)}')
            if (r[G.col('time_completed')] is not None) != (st == 'complete'):
                self.fail('C06', 'completion', 'C06/group_time_completed_inconsistent', f'group {k}: {st} time_completed={r[G.col("time_completed")]}')
        for b, r in batch.items():
            k = (b, 0)
            n = njobs.get(k, 0)
            all_done = live.get(k, 0) == 0
            st = r[bt.col('state')]
            if r[bt.col('n_jobs')] != n:
                self.fail('C06', 'n_jobs', 'C06/batch_n_jobs_mismatch', f'batch {b}: n_jobs {r[bt.col("n_jobs")]} != {n}')
            if st != 'complete' and all_done and n > 0 and any(
                    r2[self.bu.col('batch_id')] == b and not r2[self.bu.col('committed')] for r2 in self.bu.rows()):
                # every committed job is terminal, yet the batch is kept running while an uncommitted update exists:
                # the uncommitted update contributes to the completion decision
                self.fail('C41', 'uncommitted', 'C41/uncommitted_update_blocks_batch_completion',
                          f'batch {b}: all {n} committed jobs are terminal, state {st}, an uncommitted update exists')
            if (st == 'complete') != all_done:
                self.fail('C06', 'completion', f'C06/batch_state_{st}_but_all_done_{all_done}',
                          f'batch {b}: state {st}, committed jobs {n}, non-terminal {live.get(k, 0)}')
        # ---- C05 a committed job whose parents are all terminal does not stay Pending ---------------------------
        P = self.parents
        if 'jobs' in touched or 'batch_updates' in touched or 'job_parents' in touched:
            par_of = {}
            for r in P.rows():
                par_of.setdefault((r[P.col('batch_id')], r[P.col('job_id')]), []).append(r[P.col('parent_id')])
            for (b, j), jr in jobs_by_key.items():
                if jr[js] != 'Pending' or (b, jr[ju]) not in committed:
                    continue
                ps = par_of.get((b, j), [])
                if all((b, p) in jobs_by_key and jobs_by_key[(b, p)][js] in TERMINAL for p in ps):
                    self.fail('C05', 'deps', 'C05/pending_although_all_parents_terminal',
                              f'committed job {(b, j)} is Pending with n_pending_parents '
                              f'{jr[J.col("n_pending_parents")]} although its parents {ps} are all terminal '
                              f'(always_run={jr[J.col("always_run")]}): it can never run')
        # ---- C41 a committed job never depends on a job of an uncommitted update ---------------------------------
        if 'job_parents' in touched or 'batch_updates' in touched:
            for r in P.rows():
                b, j, p = r[P.col('batch_id')], r[P.col('job_id')], r[P.col('parent_id')]
                child = jobs_by_key.get((b, j))
                par = jobs_by_key.get((b, p))
                if child is None or par is None or (b, child[ju]) not in committed:
                    continue
                if (b, par[ju]) not in committed:
                    self.fail('C41', 'uncommitted', 'C41/committed_job_depends_on_uncommitted_job',
                              f'committed job {(b, j)} (update {child[ju]}) depends on job {p} of update {par[ju]}, '
                              f'which is not committed: a never-committed update decides whether it can run')
        # ---- C05 failed parents cancel children -------------------------------------------------------------
        for r in P.rows():
            b, j, p = r[P.col('batch_id')], r[P.col('job_id')], r[P.col('parent_id')]
            child = jobs_by_key.get((b, j))
            par = jobs_by_key.get((b, p))
            if child is None or (b, child[ju]) not in committed:
                continue
            if par is None:
                continue
            if par[js] == 'Cancelled' and child[ju] != par[ju]:
                self.ctx.probe('child_in_later_update_of_cancelled_parent')
            if par[js] in ('Failed', 'Error', 'Cancelled') and not child[jc]:
                self.fail('C05', 'deps', 'C05/child_of_failed_parent_not_cancelled',
                          f'job {(b, j)} (state {child[js]}) not marked cancelled although parent {p} is {par[js]}')
            if child[js] != 'Pending' and par[js] not in TERMINAL:
                self.fail('C05', 'deps', 'C05/child_left_pending_before_parent_terminal',
                          f'job {(b, j)} is {child[js]} while parent {p} is {par[js]}')
        # ---- C10 free cores ------------------------------------------------------------------------------------
        if 'attempts' in touched or 'instances' in touched or 'instances_free_cores_mcpu' in touched:
            A = self.attempts
            open_cores = {}
            ended_cores = {}
            no_end = {}
            for r in A.rows():
                if r[A.col('instance_name')] is not None:
                    jr = jobs_by_key.get((r[A.col('batch_id')], r[A.col('job_id')]))
                    if jr is not None:
                        tgt = open_cores if r[A.col('end_time')] is None else ended_cores
                        tgt[r[A.col('instance_name')]] = tgt.get(r[A.col('instance_name')], 0) + jr[jco]
                        if r[A.col('end_time')] is None and r[A.col('reason')] is not None:
                            # closed with a reason but WITHOUT an end time (mark_job_errored passes end_time = NULL;
                            # attempts_before_update then never lets an end time in): formally still "not ended"
                            no_end[r[A.col('instance_name')]] = no_end.get(r[A.col('instance_name')], 0) + jr[jco]
            I = self.inst
            F = self.ifree
            free = {r[F.col('name')]: r[F.col('free_cores_mcpu')] for r in F.rows()}
            for r in I.rows():
                nm, st, cores = r[I.col('name')], r[I.col('state')], r[I.col('cores_mcpu')]
                f = free.get(nm)
                if f is None:
                    continue
                if st in ('pending', 'active'):
                    e_ = cores - open_cores.get(nm, 0)
                    if f != e_ and st == 'pending' and f == e_ - ended_cores.get(nm, 0):
                        # exactly the cores of attempts that already ENDED on a still-pending instance are missing
                        self.fail('C10', 'free_cores', 'C10/cores_of_ended_attempt_not_freed_on_pending_instance',
                                  f'instance {nm} (pending): free {f}, total {cores}, open attempts '
                                  f'{open_cores.get(nm, 0)}, ended attempts {ended_cores.get(nm, 0)} still deducted')
                    elif f != e_ and no_end.get(nm):
                        self.fail('C10', 'free_cores', 'C10/cores_of_attempt_with_reason_but_no_end_time',
                                  f'instance {nm} ({st}): free {f}, total {cores}, un-ended attempts '
                                  f'{open_cores.get(nm, 0)} of which {no_end[nm]} belong to attempts that carry an end '
                                  f'reason but no end time (their cores were released, or released again, by a sweep)')
                    elif f != e_:
                        self.fail('C10', 'free_cores', f'C10/free_cores_mismatch/{st}',
                                  f'instance {nm} ({st}): free {f} != {cores} - open attempts {open_cores.get(nm, 0)}')
                elif f != cores:
                    self.fail('C10', 'free_cores', f'C10/inactive_instance_not_all_free/{st}', f'instance {nm}: free {f} of {cores}')
        # ---- C02 billing ---------------------------------------------------------------------------------------
        if {'attempts', 'attempt_resources'} & touched or any(n.startswith('aggregated_') for n in touched):
            self._billing(jobs_by_key, ancestors, batch)

    def _billing(self, jobs_by_key, ancestors, batch):
        A, R = self.attempts, self.ares
        dur = {}
        for r in A.rows():
            s, t = r[A.col('start_time')], r[A.col('rollup_time')]
            d = max(t - s, 0) if (s is not None and t is not None) else 0
            dur[(r[A.col('batch_id')], r[A.col('job_id')], r[A.col('attempt_id')])] = d
        exp_job, exp_jg, exp_bp = {}, {}, {}
        bt = self.batches
        J = self.jobs
        for r in R.rows():
            b, j, a = r[R.col('batch_id')], r[R.col('job_id')], r[R.col('attempt_id')]
            res = r[R.col('deduped_resource_id')]
            use = r[R.col('quantity')] * dur.get((b, j, a), 0)
            if use == 0:
                continue
            exp_job[(b, j, res)] = exp_job.get((b, j, res), 0) + use
            jr = jobs_by_key.get((b, j))
            if jr is not None:
                for x in ancestors.get((b, jr[J.col('job_group_id')]), []):
                    exp_jg[(b, x, res)] = exp_jg.get((b, x, res), 0) + use
            br = batch.get(b)
            if br is not None:
                k = (br[bt.col('billing_project')], br[bt.col('user')], res)
                exp_bp[k] = exp_bp.get(k, 0) + use

        def summed(tab, keycols):
            out = {}
            for r in tab.rows():
                k = tuple(r[tab.col(c)] for c in keycols)
                out[k] = out.get(k, 0) + r[tab.col('usage')]
            return {k: v for k, v in out.items() if v != 0}
        checks = (
            ('job', summed(self.agg_job, ('batch_id', 'job_id', 'resource_id')), exp_job),
            ('job_group', summed(self.agg_jg, ('batch_id', 'job_group_id', 'resource_id')), exp_jg),
        )
        for nm, got, exp in checks:
            if got != exp:
                k = sorted(set(got) ^ set(exp) | {k for k in got if exp.get(k) != got[k]}, key=str)[0]
                self.fail('C02', 'billing', f'C02/{nm}_usage_mismatch', f'{nm} {k}: recorded {got.get(k, 0)} != '
                          f'sum over attempts {exp.get(k, 0)}')
        if not self.deleted_batches:
            got = summed(self.agg_bp, ('billing_project', 'user', 'resource_id'))
            if got != exp_bp:
                k = sorted(set(got) ^ set(exp_bp) | {k for k in got if exp_bp.get(k) != got[k]}, key=str)[0]
                self.fail('C02', 'billing', 'C02/billing_project_user_usage_mismatch',
                          f'{k}: recorded {got.get(k, 0)} != sum over attempts {exp_bp.get(k, 0)}')
            gotd = summed(self.agg_bpd, ('billing_project', 'user', 'resource_id'))
            if gotd != exp_bp:
                k = sorted(set(gotd) ^ set(exp_bp) | {k for k in gotd if exp_bp.get(k) != gotd[k]}, key=str)[0]
                self.fail('C02', 'billing', 'C02/by_date_usage_mismatch',
                          f'{k}: by-date total {gotd.get(k, 0)} != sum over attempts {exp_bp.get(k, 0)}')


def _sub(d, keys):
    return {k: d[k] for k in keys}
