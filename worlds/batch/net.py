"""SimNet: in-process HTTP between simulated services, with seeded latency and faults.

Client side seam: hailtop.httpx.ClientSession.client_session._request (the aiohttp session) is replaced by
SimTransport._request, so hailtop.httpx's own request/raise-for-status code, hailtop Session's retry loop and
gear's auth client code all run for real.  Server side: the target aiohttp Application's own router, middlewares
and handlers run on a mocked request (Application._handle).
"""
import asyncio
import contextvars
import errno
import json
import urllib.parse

import aiohttp
import multidict
import yarl
from aiohttp import web
from aiohttp.test_utils import make_mocked_request

from simkit.loop import PROC


class SimResponse:
    def __init__(self, method, url, status, reason, headers, body):
        self.method = method
        self.url = yarl.URL(url)
        self.real_url = self.url
        self.status = status
        self.reason = reason or ''
        self.headers = multidict.CIMultiDictProxy(multidict.CIMultiDict(headers or {}))
        self._body = body or b''
        self.history = ()
        self.closed = False
        self.request_info = aiohttp.RequestInfo(self.url, method, self.headers, self.url)
        self.content_type = (self.headers.get('Content-Type') or 'application/octet-stream').split(';')[0]
        self.ok = status < 400

    async def read(self):
        return self._body

    async def text(self, encoding=None, errors='strict'):
        return self._body.decode(encoding or 'utf-8', errors)

    async def json(self, **kw):
        return json.loads(self._body.decode())

    def get_encoding(self):
        return 'utf-8'

    async def release(self):
        self.closed = True

    def close(self):
        self.closed = True

    async def wait_for_close(self):
        return None

    def raise_for_status(self):
        if self.status >= 400:
            raise aiohttp.ClientResponseError(self.request_info, (), status=self.status, message=self.reason,
                                              headers=self.headers)

    async def __aenter__(self):
        return self

    async def __aexit__(self, *exc):
        self.closed = True


class Service:
    def __init__(self, name, proc):
        self.name = name
        self.proc = proc
        self.handler = None  # async (method, path_qs, headers, body) -> (status, reason, headers, body)
        self.up = False
        self.context = None
        self.n_requests = 0
        self.resets = set()  # one future per request being served: failed when the service's process crashes

    def crash(self):
        """the process behind the service dies: it stops listening and every connection it was serving is reset
        (the handlers themselves never run again: SimLoop.crash)."""
        self.up = False
        self.handler = None
        for f in list(self.resets):
            if not f.done():
                f.set_exception(aiohttp.ServerDisconnectedError())
        self.resets.clear()


def _connect_error(url):
    key = aiohttp.client_reqrep.ConnectionKey(yarl.URL(url).host or 'x', 80, False, True, None, None, None)
    return aiohttp.ClientConnectorError(key, OSError(errno.ECONNREFUSED, 'Connect call failed'))


class SimNet:
    def __init__(self, ctx, log=None):
        self.ctx = ctx
        self.services = {}
        self.faults_enabled = True
        self.partitions = set()  # frozenset({a, b})
        self.s_delay = ctx.stream('net.delay')
        self.s_fault = ctx.stream('net.fault')
        self.rates = {'drop_request': 0.0, 'drop_response': 0.0, 'duplicate': 0.0}
        self.max_delay_ticks = 4
        self.inflight = set()
        self.trace = None  # optional callable(event dict)

    def add_service(self, host, svc):
        self.services[host] = svc

    def host_of(self, url):
        u = yarl.URL(url)
        h = u.host or ''
        if h and h[0].isdigit():
            return h, u
        return h.split('.')[0], u

    async def request(self, src, method, url, headers=None, body=b'', timeout=None):
        ctx = self.ctx
        host, u = self.host_of(url)
        svc = self.services.get(host)
        path_qs = u.raw_path_qs if hasattr(u, 'raw_path_qs') else (u.raw_path + ('?' + u.raw_query_string if u.raw_query_string else ''))
        loop = asyncio.get_running_loop()
        d1 = self.s_delay.ticks(self.max_delay_ticks)
        fault = None
        if self.faults_enabled:
            for kind in ('drop_request', 'drop_response', 'duplicate', 'cancel_handler', 'slow_request',
                         'late_duplicate'):
                r = self.rates.get(kind, 0.0)
                if r and self.s_fault.chance(r):
                    fault = kind
                    break
        t_total = None
        if timeout is not None:
            t_total = timeout.total if isinstance(timeout, aiohttp.ClientTimeout) else float(timeout)
        if d1:
            await asyncio.sleep(d1)
        if svc is None:
            raise _connect_error(url)
        if frozenset((src, svc.name)) in self.partitions:
            ctx.fault('net.partition_drop')
            raise _connect_error(url)
        if not svc.up or svc.handler is None:
            ctx.probe('request_to_down_service')
            raise _connect_error(url)
        if fault == 'drop_request':
            ctx.fault('net.drop_request')
            raise aiohttp.ServerDisconnectedError()
        svc.n_requests += 1

        slow = 0.0
        if fault == 'slow_request':
            # the request has left the client and sits in the network / accept queue: it is delivered late, whether
            # or not the client is still waiting for it
            ctx.fault('net.slow_request')
            slow = self.s_delay.rint(200, 6000) / 1024

        async def serve():
            if slow:
                await asyncio.sleep(slow)
                if not svc.up or svc.handler is None:
                    raise aiohttp.ServerDisconnectedError()
            return await svc.handler(method, path_qs, dict(headers or {}), body)

        task = loop.create_task(serve(), context=svc.context.copy() if svc.context is not None else None)
        self.inflight.add(task)
        task.add_done_callback(self.inflight.discard)
        if fault in ('duplicate', 'late_duplicate'):
            ctx.fault('net.' + fault)
            # a retransmitted copy of the request: right behind the original, or (late_duplicate) many seconds later,
            # when the original has long been answered and the client has moved on
            d3 = self.s_delay.ticks(self.max_delay_ticks) if fault == 'duplicate' else self.s_delay.rint(1000, 25000) / 1024

            async def dup():
                await asyncio.sleep(d3)
                if svc.up and svc.handler is not None:
                    try:
                        await svc.handler(method, path_qs, dict(headers or {}), body)
                    except Exception:  # pylint: disable=broad-except
                        pass
            t2 = loop.create_task(dup(), context=svc.context.copy() if svc.context is not None else None)
            self.inflight.add(t2)
            t2.add_done_callback(self.inflight.discard)
        if fault == 'cancel_handler':
            # the client goes away mid-request and the server cancels the handler (aiohttp handler cancellation /
            # server shutdown): CancelledError is thrown into the handler at a seeded later instant
            ctx.fault('net.handler_cancelled')
            loop.call_later(self.s_delay.ticks(40), task.cancel)
        # the connection is reset if the serving process crashes while the request is in flight
        reset = loop.create_future()
        svc.resets.add(reset)
        try:
            done, _p = await asyncio.wait([task, reset], timeout=(max(t_total - d1, 0) if t_total is not None else None),
                                          return_when=asyncio.FIRST_COMPLETED)
            if not done:
                ctx.probe('client_timeout_server_continues')
                raise asyncio.TimeoutError()
            if task not in done:
                ctx.probe('connection_reset_by_crash')
                raise aiohttp.ServerDisconnectedError()
            if fault == 'cancel_handler' and (task.cancelled() or task.exception() is not None):
                raise aiohttp.ServerDisconnectedError()
            if task.cancelled():
                # the server cancelled the handler (graceful shutdown): the client sees the connection go away
                raise aiohttp.ServerDisconnectedError()
            res = task.result()
        except asyncio.CancelledError:
            # the client went away; the server keeps handling the request
            raise
        finally:
            svc.resets.discard(reset)
            if not reset.done():
                reset.cancel()
        d2 = self.s_delay.ticks(self.max_delay_ticks)
        if d2:
            await asyncio.sleep(d2)
        if fault == 'drop_response':
            ctx.fault('net.drop_response')
            raise aiohttp.ServerDisconnectedError()
        status, reason, rheaders, rbody = res
        return SimResponse(method, url, status, reason, rheaders, rbody)


class SimTransport:
    """stands in for aiohttp.ClientSession inside hailtop.httpx.ClientSession."""

    def __init__(self, net, src):
        self.net = net
        self.src = src
        self.closed = False

    async def _request(self, method, url, *, headers=None, data=None, params=None, timeout=None, json=None,
                       allow_redirects=True, **_kw):
        url = str(url)
        if params:
            sep = '&' if '?' in url else '?'
            url = url + sep + urllib.parse.urlencode({k: v for k, v in dict(params).items() if v is not None})
        body = b''
        hdrs = dict(headers or {})
        if json is not None:
            import json as _j
            body = _j.dumps(json).encode()
            hdrs.setdefault('Content-Type', 'application/json')
        elif data is not None:
            if isinstance(data, aiohttp.payload.Payload):
                body = data._value if isinstance(data._value, (bytes, bytearray)) else bytes(data._value)
                if data.content_type:
                    hdrs.setdefault('Content-Type', data.content_type)
            elif isinstance(data, (bytes, bytearray)):
                body = bytes(data)
            elif isinstance(data, str):
                body = data.encode()
            else:
                raise TypeError(f'unsupported request body {type(data)}')
        return await self.net.request(self.src, method, url, hdrs, body, timeout)

    async def close(self):
        self.closed = True


def make_httpx_session(mods, net, src, raise_for_status=True):
    """a real hailtop.httpx.ClientSession whose transport is the simulated network."""
    s = mods.httpx.ClientSession.__new__(mods.httpx.ClientSession)
    s.loop = asyncio.get_running_loop()
    s.raise_for_status = raise_for_status
    s.client_session = SimTransport(net, src)
    return s


def aiohttp_app_handler(app):
    """serve requests with the application's own router, middlewares and handlers."""
    loop = asyncio.get_running_loop()

    async def handler(method, path_qs, headers, body):
        proto = aiohttp.base_protocol.BaseProtocol(loop)
        payload = aiohttp.streams.StreamReader(proto, 2 ** 26, loop=loop)
        if body:
            payload.feed_data(body)
        payload.feed_eof()
        if body and 'Content-Length' not in headers:
            headers = dict(headers)
            headers['Content-Length'] = str(len(body))
        req = make_mocked_request(method, path_qs, headers=headers, payload=payload, app=app)
        try:
            resp = await app._handle(req)
        except web.HTTPException as e:
            resp = e
        except asyncio.CancelledError:
            raise
        except Exception as e:  # pylint: disable=broad-except
            from simkit.core import Violation
            from simkit.loop import SimulationEscape
            from minimysql.lexer import UnsupportedSQL
            if isinstance(e, (Violation, SimulationEscape, UnsupportedSQL)):
                raise
            hook = app.get('sim_on_500')
            if hook is not None:
                hook(method, path_qs, e)
            return 500, 'Internal Server Error', {}, b''
        rbody = b''
        b = getattr(resp, 'body', None)
        if isinstance(b, (bytes, bytearray)):
            rbody = bytes(b)
        elif b is not None and hasattr(b, '_value'):
            rbody = b._value
        elif getattr(resp, 'text', None):
            rbody = resp.text.encode()
        return resp.status, resp.reason, dict(resp.headers), rbody
    return handler
