"""Driver side of batchsim: the real batch driver application on a simulated cloud."""
import asyncio
import types

from aiohttp import web

from worlds.batch.cluster import SimCloud
from worlds.batch.net import Service, aiohttp_app_handler, make_httpx_session


def build_cloud_classes(mods):
    """subclasses of the repository's cloud abstractions (created after the repo modules are importable)."""
    from batch.driver.location import CloudLocationMonitor
    from batch.driver.resource_manager import (CloudResourceManager, VMDoesNotExist, VMStateCreating,
                                               VMStateRunning, VMStateTerminated)
    from batch.driver.driver import CloudDriver
    from batch.driver.billing_manager import CloudBillingManager, ProductVersions
    from batch.cloud.gcp.instance_config import GCPSlimInstanceConfig
    from batch.cloud.gcp.resource_utils import (GCP_MACHINE_FAMILY, family_worker_type_cores_to_gcp_machine_type,
                                                gcp_machine_type_to_cores_and_memory_bytes)

    class SimLocationMonitor(CloudLocationMonitor):
        def __init__(self, zone):
            self.zone = zone

        def default_location(self):
            return self.zone

        def choose_location(self, cores, local_ssd_data_disk, data_disk_size_gb, preemptible, regions, machine_type):
            return f'{sorted(regions)[0]}-a' if regions else self.zone

    class SimBillingManager(CloudBillingManager):
        def __init__(self, db, product_versions, resource_rates):
            self.db = db
            self.product_versions = product_versions
            self.resource_rates = resource_rates

        async def close(self):
            pass

    class SimResourceManager(CloudResourceManager):
        def __init__(self, cloud, billing_manager):
            self.cloud = cloud
            self.billing_manager = billing_manager

        def machine_type(self, cores, worker_type, local_ssd):
            return family_worker_type_cores_to_gcp_machine_type(GCP_MACHINE_FAMILY, worker_type, cores)

        def instance_config(self, machine_type, preemptible, local_ssd_data_disk, data_disk_size_gb,
                            boot_disk_size_gb, job_private, location):
            return GCPSlimInstanceConfig.create(self.billing_manager.product_versions, machine_type, preemptible,
                                                local_ssd_data_disk, data_disk_size_gb, boot_disk_size_gb,
                                                job_private, location)

        async def create_vm(self, file_store, machine_name, activation_token, max_idle_time_msecs,
                            local_ssd_data_disk, data_disk_size_gb, boot_disk_size_gb, preemptible, job_private,
                            location, machine_type, instance_config):
            cores, memory_in_bytes = gcp_machine_type_to_cores_and_memory_bytes(machine_type)
            total = instance_config.quantified_resources(cpu_in_mcpu=cores * 1000, memory_in_bytes=memory_in_bytes,
                                                         extra_storage_in_gib=0)
            await asyncio.sleep(self.cloud.s.ticks(20))
            self.cloud.create_vm(machine_name, location, activation_token, cores, instance_config,
                                 max_idle_time_msecs, job_private)
            return total

        async def delete_vm(self, instance):
            await asyncio.sleep(self.cloud.s.ticks(20))
            if not self.cloud.delete(instance.name):
                raise VMDoesNotExist()

        async def get_vm_state(self, instance):
            await asyncio.sleep(self.cloud.s.ticks(20))
            vm = self.cloud.vms.get(instance.name)
            if vm is None:
                raise VMDoesNotExist()
            if vm.status == 'PROVISIONING':
                return VMStateCreating({'status': vm.status}, instance.time_created)
            if vm.status == 'RUNNING':
                return VMStateRunning({'status': vm.status}, vm.started_ms)
            return VMStateTerminated({'status': vm.status})

    class SimCloudDriver(CloudDriver):
        def __init__(self, inst_coll_manager, jpim, billing_manager, task_manager):
            self._icm = inst_coll_manager
            self.job_private_inst_manager = jpim
            self._bm = billing_manager
            self._task_manager = task_manager

        @property
        def inst_coll_manager(self):
            return self._icm

        @property
        def billing_manager(self):
            return self._bm

        async def shutdown(self):
            await self._task_manager.shutdown_and_wait()

        def get_quotas(self):
            return {}

    return types.SimpleNamespace(SimLocationMonitor=SimLocationMonitor, SimBillingManager=SimBillingManager,
                                 SimResourceManager=SimResourceManager, SimCloudDriver=SimCloudDriver,
                                 ProductVersions=ProductVersions)


class _Secret:
    def __init__(self, data):
        self.data = data


class FakeK8sCache:
    def __init__(self, lat):
        self.lat = lat

    async def read_secret(self, name, namespace):
        d = self.lat()
        if d:
            await asyncio.sleep(d)
        return _Secret({'key.json': 'c2lt', 'token': 'dG9r', 'ca.crt': 'Y2E='})

    async def read_service_account(self, name, namespace):
        return types.SimpleNamespace(secrets=None)


async def start_driver(world):
    """reproduces driver.main.run()/on_startup() with simulated collaborators (harness code)."""
    w = world
    m = w.mods
    from batch.driver import main as dmain
    from batch.driver.canceller import Canceller
    from batch.driver.instance_collection import InstanceCollectionManager, JobPrivateInstanceManager, Pool
    from batch.inst_coll_config import InstanceCollectionConfigs
    from hailtop import aiotools
    from hailtop.utils import AsyncWorkerPool, Notice, periodically_call
    from worlds.batch.world import REGIONS, SimCreds
    m.dmain = dmain
    cc = w.cloud_classes = getattr(w, 'cloud_classes', None) or build_cloud_classes(m)
    if getattr(w, 'cloud', None) is None:
        w.cloud = SimCloud(w)
    # each incarnation of the driver is its own simulated process (a crashed incarnation never runs again)
    w.driver_gen = getattr(w, 'driver_gen', 0) + 1
    w.driver_proc = 'driver' if w.driver_gen == 1 else f'driver#{w.driver_gen}'
    ctx = w._in_proc(w.driver_proc)
    svc = w.net.services.get('batch-driver') or Service('batch-driver', 'driver')
    svc.context = ctx
    w.net.add_service('batch-driver', svc)

    async def boot():
        app = web.Application(client_max_size=dmain.HTTP_CLIENT_MAX_SIZE,
                              middlewares=[m.gear.check_csrf_token, m.gear.monitor_endpoints_middleware])
        app.add_routes(dmain.routes)
        app['k8s_cache'] = FakeK8sCache(lambda: w.ctx.stream('k8s.latency').ticks(2))
        db = m.gear.Database()
        await db.async_init(maxsize=50)
        app['db'] = db
        row = await db.select_and_fetchone('SELECT instance_id, frozen FROM globals;')
        app['instance_id'] = row['instance_id']
        app['frozen'] = row['frozen']
        app['feature_flags'] = await db.select_and_fetchone('SELECT * FROM feature_flags')
        await dmain.refresh_globals_from_db(app, db)
        app['scheduler_state_changed'] = Notice()
        app['cancel_ready_state_changed'] = asyncio.Event()
        app['cancel_creating_state_changed'] = asyncio.Event()
        app['cancel_running_state_changed'] = asyncio.Event()
        app['async_worker_pool'] = AsyncWorkerPool(100, queue_size=100)
        app['file_store'] = w.file_store
        inst_coll_configs = await InstanceCollectionConfigs.create(db)
        app[m.gear.CommonAiohttpAppKeys.CLIENT_SESSION] = make_httpx_session(m, w.net, 'driver')
        app['regions'] = {r['region']: r['region_id']
                          async for r in db.select_and_fetchall('SELECT region_id, region from regions')}
        # cloud driver assembly (mirrors GCPDriver.create)
        prefix = 'batch-worker-default-'
        zone_monitor = cc.SimLocationMonitor(f'{REGIONS[0]}-a')
        bm = cc.SimBillingManager(db, inst_coll_configs.product_versions, inst_coll_configs.resource_rates)
        icm = InstanceCollectionManager(db, prefix, zone_monitor, REGIONS[0], list(REGIONS))
        rm = cc.SimResourceManager(w.cloud, bm)
        tm = aiotools.BackgroundTaskManager()
        pools = [Pool.create(app, db, icm, rm, prefix, cfg, app['async_worker_pool'], tm)
                 for cfg in inst_coll_configs.name_pool_config.values()]
        jpim, *_ = await asyncio.gather(
            JobPrivateInstanceManager.create(app, db, icm, rm, prefix, inst_coll_configs.jpim_config, tm), *pools)
        app['driver'] = cc.SimCloudDriver(icm, jpim, bm, tm)
        app['canceller'] = await Canceller.create(app)
        task_manager = aiotools.BackgroundTaskManager()
        app['task_manager'] = task_manager
        P = w.periods
        task_manager.ensure_future(periodically_call(P['cancel_fast_failing'], dmain.cancel_fast_failing_job_groups, app))
        task_manager.ensure_future(periodically_call(P['bump'], dmain.scheduling_cancelling_bump, app))
        task_manager.ensure_future(periodically_call(P['refresh_globals'], dmain.refresh_globals_from_db, app, db))
        task_manager.ensure_future(periodically_call(P['compact'], dmain.compact_agg_billing_project_users_table, app, db))
        task_manager.ensure_future(periodically_call(P['compact'], dmain.compact_agg_billing_project_users_by_date_table, app, db))
        task_manager.ensure_future(periodically_call(P['cleanup'], dmain.delete_committed_job_groups_inst_coll_staging_records, db))
        task_manager.ensure_future(periodically_call(P['cleanup'], dmain.delete_prev_cancelled_job_group_cancellable_resources_records, db))
        app['sim_on_500'] = lambda method, path, e: w.driver_500.append((method, path, repr(e)[:300]))
        app.freeze()
        w.driver_app = app
        svc.handler = aiohttp_app_handler(app)
        svc.up = True
    await asyncio.get_running_loop().create_task(boot(), context=ctx.copy())


def crash_driver(world):
    """the driver process dies at this instant: none of its tasks or handlers ever runs again (no except / finally),
    the connections it was serving are reset, its database connections are reset by the server (open transactions
    roll back, locks are released) and everything it held in memory is gone.  Only the database, the blob store, the
    cloud and the workers survive."""
    w = world
    loop = asyncio.get_running_loop()
    svc = w.net.services.get('batch-driver')
    loop.crash(w.driver_proc)
    if svc is not None:
        svc.crash()
    n = w.server.kill_proc(w.driver_proc)
    w.driver_app = None
    w.ctx.fault('crash.driver')
    w.ctx.log.add('world', 'driver_crashed', w.driver_gen, n)


async def sigterm_driver(world, grace=5.0):
    """graceful shutdown (SIGTERM): the service stops accepting requests and every task of the process is CANCELLED --
    CancelledError is thrown at whatever await each task is suspended in, so `finally` blocks, transaction exits and
    `except` clauses DO run (unlike a crash).  What has not finished after `grace` simulated seconds is killed."""
    from simkit.loop import PROC
    w = world
    loop = asyncio.get_running_loop()
    proc = w.driver_proc
    svc = w.net.services.get('batch-driver')
    if svc is not None:
        svc.up = False
    tasks = [t for t in asyncio.all_tasks(loop)
             if not t.done() and t.get_context().get(PROC, 'main') == proc]
    tasks.sort(key=lambda t: getattr(t, '_sim_id', 0))
    for t in tasks:
        t.cancel()
    w.ctx.fault('sigterm.driver')
    w.ctx.log.add('world', 'driver_sigterm', w.driver_gen, len(tasks))
    t0 = loop.time()
    while loop.time() - t0 < grace and any(not t.done() for t in tasks):
        await asyncio.sleep(0.05)
    crash_driver(w)


async def restart_driver(world):
    """a new driver process boots from the database (as the deployment's restart does).  A boot that fails -- e.g. a
    database error while the start-up queries run -- kills that incarnation and the next one is started (the
    orchestrator's restart loop)."""
    w = world
    loop = asyncio.get_running_loop()
    for _ in range(60):
        try:
            await start_driver(w)
            break
        except asyncio.CancelledError:
            raise
        except Exception:  # pylint: disable=broad-except
            loop.crash(w.driver_proc)
            svc = w.net.services.get('batch-driver')
            if svc is not None:
                svc.crash()
            w.server.kill_proc(w.driver_proc)
            w.driver_app = None
            w.ctx.probe('driver_boot_failed')
            w.ctx.log.add('world', 'driver_boot_failed', w.driver_gen)
            await asyncio.sleep(2)
    else:
        raise RuntimeError('the driver did not come up after 60 attempts')
    w.ctx.log.add('world', 'driver_restarted', w.driver_gen)
