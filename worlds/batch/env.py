"""Import environment for the batch service: fakes for absent third-party modules, configuration, repo imports."""
import sys
import types

from simkit import shim

_done = False
mods = types.SimpleNamespace()


def setup():
    """idempotent per process: install fakes, import the repository's batch modules (from the live tree)."""
    global _done
    if _done:
        return mods
    shim.install()
    shim._NEVER_STUB.discard('pandas')
    shim._NEVER_STUB.discard('numpy')
    from minimysql import driver as dbdriver
    dbdriver.install()
    _fake_misc()
    import gear.cloud_config as cc
    cc.global_config = {
        'gcp_project': 'sim-project', 'gcp_region': 'us-central1', 'gcp_zone': 'us-central1-a',
        'batch_gcp_regions': '["us-central1", "us-east1"]', 'cloud': 'gcp', 'domain': 'hail.sim',
        'default_namespace': 'default', 'docker_prefix': 'docker.sim', 'docker_root_image': 'ubuntu:22.04',
        'internal_ip': '10.0.0.1', 'ip': '1.2.3.4', 'kubernetes_server_url': 'https://k8s.sim',
        'batch_logs_storage_uri': 'gs://sim-batch', 'batch_gcp_regions_list': ['us-central1', 'us-east1'],
        'organization_domain': 'hail.sim',
    }
    import hailtop.config.deploy_config as dc
    cfg = dc.DeployConfig('k8s', 'default', 'hail.sim', None)
    dc.deploy_config = cfg
    mods.deploy_config = dc.get_deploy_config()
    import hailtop.httpx as httpx
    import hailtop.utils as hutils
    import gear
    import gear.auth
    import gear.database
    mods.httpx = httpx
    mods.hutils = hutils
    mods.gear = gear
    from batch.front_end import front_end
    mods.front_end = front_end
    import batch.batch as bbatch
    mods.bbatch = bbatch
    from batch import inst_coll_config
    mods.inst_coll_config = inst_coll_config
    from batch.file_store import FileStore
    mods.FileStore = FileStore
    from hailtop.batch_client import aioclient
    mods.aioclient = aioclient
    import hailtop.aiocloud.common.session as csession
    mods.csession = csession
    import hailtop.aiocloud.common.credentials as ccred
    mods.ccred = ccred
    _done = True
    return mods


def _fake_misc():
    fm = shim.fake_module

    # aiohttp_session: sessions are not used by API routes; UI routes get an empty session
    class _Sess(dict):
        def invalidate(self):
            self.clear()

    async def get_session(request):
        s = request.get('sim_session')
        if s is None:
            s = _Sess()
            request['sim_session'] = s
        return s

    def setup_(app, storage=None):
        return None

    fm('aiohttp_session', get_session=get_session, setup=setup_, Session=_Sess, session_middleware=lambda s: None)

    class EncryptedCookieStorage:
        def __init__(self, *a, **k):
            pass
    fm('aiohttp_session.cookie_storage', EncryptedCookieStorage=EncryptedCookieStorage)

    # jinja2 / aiohttp_jinja2: templates render to an empty body
    class FileSystemLoader:
        def __init__(self, *a, **k):
            pass

    class _Env:
        def __init__(self):
            self.globals = {}
            self.filters = {}

    def jsetup(app, loader=None, **k):
        return _Env()

    async def render_template_async(name, request, ctx, **k):
        from aiohttp import web
        return web.Response(text='', content_type='text/html')

    def render_template(name, request, ctx, **k):
        from aiohttp import web
        return web.Response(text='', content_type='text/html')

    def render_template(name, request, ctx, status=200, **k):  # noqa: F811
        from aiohttp import web
        return web.Response(text='', content_type='text/html', status=status)

    fm('aiohttp_jinja2', setup=jsetup, render_template=render_template, render_template_async=render_template_async,
       template=lambda name: (lambda f: f), get_env=lambda app: _Env())

    # humanize / dateutil: formatting helpers only
    def naturaldelta(x, *a, **k):
        return str(x)
    fm('humanize', naturaldelta=naturaldelta, naturalsize=lambda x, *a, **k: str(x), naturaltime=naturaldelta,
       precisedelta=naturaldelta)

    import datetime

    class _Parser(types.ModuleType):
        @staticmethod
        def isoparse(s):
            return datetime.datetime.fromisoformat(s.replace('Z', '+00:00'))

        @staticmethod
        def parse(s):
            return datetime.datetime.fromisoformat(s.replace('Z', '+00:00'))
    p = _Parser('dateutil.parser')
    sys.modules['dateutil.parser'] = p
    d = fm('dateutil')
    d.parser = p
