"""Simulated cloud (VM lifecycle) and protocol-level batch workers (contract transcribed from
batch/worker/worker.py: see DESIGN.md 5.1 "SimWorker contract")."""
import asyncio
import contextvars
import json

import aiohttp

from simkit.loop import PROC
from worlds.batch.net import Service, make_httpx_session


class VM:
    def __init__(self, name, location, activation_token, cores, instance_config, max_idle_ms, job_private, created_ms):
        self.name = name
        self.location = location
        self.activation_token = activation_token
        self.cores = cores
        self.instance_config = instance_config
        self.max_idle_ms = max_idle_ms
        self.job_private = job_private
        self.created_ms = created_ms
        self.status = 'PROVISIONING'
        self.started_ms = None
        self.ip = None
        self.worker = None


class SimCloud:
    def __init__(self, world):
        self.w = world
        self.ctx = world.ctx
        self.vms = {}
        self.n_ips = 0
        self.s = world.ctx.stream('cloud')
        self.s_fault = world.ctx.stream('fault:cloud')
        self.rates = {'never_activates': 0.0, 'preempt': 0.0, 'create_fails': 0.0}
        self.boot_ticks = (200, 4000)  # in 1/1024 s
        self.all_workers = []

    def now_ms(self):
        return int((self.w.epoch + asyncio.get_running_loop().time()) * 1000)

    def create_vm(self, name, location, activation_token, cores, instance_config, max_idle_ms, job_private):
        if self.w.faults_on and self.rates.get('create_fails') and self.s_fault.chance(self.rates['create_fails']):
            self.ctx.fault('cloud.create_fails')
            return  # like the real resource manager: the error is logged, the instance row stays pending
        vm = VM(name, location, activation_token, cores, instance_config, max_idle_ms, job_private, self.now_ms())
        self.vms[name] = vm
        self.n_ips += 1
        vm.ip = f'10.1.{self.n_ips // 250}.{self.n_ips % 250 + 1}'
        never = self.w.faults_on and self.rates.get('never_activates') and self.s_fault.chance(self.rates['never_activates'])
        boot = self.s.rint(*self.boot_ticks) / 1024.0
        w = SimWorker(self.w, self, vm)
        vm.worker = w
        self.all_workers.append(w)
        loop = asyncio.get_running_loop()
        ctx = contextvars.copy_context()
        ctx.run(PROC.set, f'worker:{name}')
        w.context = ctx
        if never:
            self.ctx.fault('worker.never_activates')
            vm.status = 'RUNNING'
            vm.started_ms = self.now_ms()
            return
        loop.create_task(w.boot(boot), context=ctx.copy(), name=f'worker-{name}')

    def terminate(self, name, reason):
        vm = self.vms.get(name)
        if vm is None or vm.status == 'TERMINATED':
            return
        vm.status = 'TERMINATED'
        if vm.worker is not None:
            vm.worker.die(reason)
        self.ctx.log.add('cloud', 'vm_terminated', name, reason)

    def delete(self, name):
        vm = self.vms.get(name)
        if vm is None:
            return False
        self.terminate(name, 'deleted')
        del self.vms[name]
        return True

    def preempt_some(self):
        live = [vm for vm in self.vms.values() if vm.status == 'RUNNING' and vm.worker is not None and vm.worker.active]
        if not live:
            return
        vm = live[self.s_fault.draw(len(live))]
        self.ctx.fault('worker.preempt')
        self.terminate(vm.name, 'preempted')


class SimJob:
    def __init__(self, batch_id, job_id, attempt_id, job_group_id, spec, cfg):
        self.batch_id = batch_id
        self.job_id = job_id
        self.attempt_id = attempt_id
        self.job_group_id = job_group_id
        self.spec = spec
        self.cfg = cfg
        self.start_time = None
        self.end_time = None
        self.marked_job_started = False
        self.task = None
        self.deleted = False
        self.state = 'pending'


class SimWorker:
    def __init__(self, world, cloud, vm):
        self.w = world
        self.ctx = world.ctx
        self.cloud = cloud
        self.vm = vm
        self.name = vm.name
        self.s = world.ctx.stream(f'worker:{len(cloud.all_workers)}')
        self.active = False
        self.dead = False
        self.token = None
        self.jobs = {}
        self.tasks = set()
        self.last_updated = None
        self.skew_ms = 0
        self.context = None
        self.http = None
        self.stalled_until = None
        self.n_started = 0

    # ---- clock --------------------------------------------------------------------------------
    def now_ms(self):
        return self.cloud.now_ms() + self.skew_ms

    def headers(self):
        return {'X-Hail-Instance-Name': self.name, 'Authorization': f'Bearer {self.token}'}

    def _spawn(self, coro, name=None):
        t = asyncio.get_running_loop().create_task(coro, name=name)
        self.tasks.add(t)
        t.add_done_callback(self.tasks.discard)
        return t

    def die(self, reason):
        if self.dead:
            return
        self.dead = True
        self.active = False
        svc = self.w.net.services.get(self.vm.ip)
        if svc is not None:
            svc.up = False
        # a dead VM runs nothing any more: crash semantics, no handlers run
        asyncio.get_running_loop().crash(f'worker:{self.name}')
        self.ctx.log.add(self.name, 'worker_dead', reason)

    # ---- lifecycle ------------------------------------------------------------------------------
    async def boot(self, delay):
        m = self.w.mods
        await asyncio.sleep(delay)
        if self.dead:
            return
        self.vm.status = 'RUNNING'
        self.vm.started_ms = self.cloud.now_ms()
        if self.w.faults_on and self.w.worker_fault_rates.get('clock_skew') and \
                self.s.chance(self.w.worker_fault_rates['clock_skew']):
            self.skew_ms = self.s.rint(-5000, 5000)
            self.ctx.fault('clock.skew')
        self.http = make_httpx_session(m, self.w.net, f'worker:{self.name}')
        url = m.deploy_config.url('batch-driver', '/api/v1alpha/instances/activate')
        try:
            resp = await m.hutils.retry_transient_errors(
                self.http.post_read_json, url, json={'ip_address': self.vm.ip},
                headers={'X-Hail-Instance-Name': self.name, 'Authorization': f'Bearer {self.vm.activation_token}'})
        except aiohttp.ClientResponseError as e:
            self.ctx.log.add(self.name, 'activate_refused', e.status)
            self.vm.status = 'TERMINATED'
            self.dead = True
            return
        self.token = resp['token']
        self.active = True
        self.last_updated = self.now_ms()
        svc = Service(self.vm.ip, f'worker:{self.name}')
        svc.handler = self.handle
        svc.up = True
        svc.context = self.context
        self.w.net.add_service(self.vm.ip, svc)
        self.ctx.log.add(self.name, 'worker_active', self.vm.ip)
        self._spawn(self.billing_loop())
        self._spawn(self.idle_loop())

    async def idle_loop(self):
        while self.active:
            await asyncio.sleep(5)
            if self.jobs:
                self.last_updated = self.now_ms()
                continue
            if self.now_ms() - self.last_updated > self.vm.max_idle_ms:
                break
        if self.active:
            await self.shutdown('idle')

    async def shutdown(self, reason):
        """worker exits: posts deactivate once, without retry, then the VM goes away."""
        if not self.active:
            return
        self.active = False
        m = self.w.mods
        self.ctx.log.add(self.name, 'worker_shutdown', reason)
        try:
            await self.http.post(m.deploy_config.url('batch-driver', '/api/v1alpha/instances/deactivate'),
                                 headers=self.headers())
        except asyncio.CancelledError:
            raise
        except Exception:  # pylint: disable=broad-except
            pass
        self.cloud.terminate(self.name, reason)

    async def billing_loop(self):
        m = self.w.mods
        period = self.w.billing_period
        while self.active:
            await asyncio.sleep(period)
            if not self.active:
                return
            attempts = [{'batch_id': j.batch_id, 'job_id': j.job_id, 'attempt_id': j.attempt_id}
                        for j in self.jobs.values() if j.marked_job_started and j.end_time is None]
            body = {'timestamp': self.now_ms(), 'attempts': attempts}
            try:
                await m.hutils.retry_transient_errors(
                    self.http.post, m.deploy_config.url('batch-driver', '/api/v1alpha/billing_update'), json=body,
                    headers=self.headers())
                if attempts:
                    self.ctx.probe('billing_update_with_attempts')
            except asyncio.CancelledError:
                raise
            except Exception:  # pylint: disable=broad-except
                pass

    # ---- server side ------------------------------------------------------------------------------
    async def handle(self, method, path_qs, headers, body):
        path = path_qs.split('?')[0]
        if path == '/healthcheck':
            return 200, 'OK', {'Content-Type': 'application/json'}, json.dumps({'name': self.name}).encode()
        if not self.active:
            return 503, 'Service Unavailable', {}, b''
        if method == 'POST' and path == '/api/v1alpha/batches/jobs/create':
            cfg = json.loads(body.decode())
            return await self.create_job(cfg)
        if method == 'DELETE' and path.startswith('/api/v1alpha/batches/') and path.endswith('/delete'):
            parts = path.split('/')
            bid, jid = int(parts[4]), int(parts[6])
            job = self.jobs.get((bid, jid))
            if job is None:
                return 404, 'Not Found', {}, b''
            self.last_updated = self.now_ms()
            self.delete_job(job)
            return 200, 'OK', {}, b''
        if method == 'POST' and path == '/api/v1alpha/kill':
            self._spawn(self.shutdown('killed'))
            return 200, 'OK', {}, b''
        return 404, 'Not Found', {}, b''

    async def create_job(self, cfg):
        bid, jid = cfg['batch_id'], cfg['job_id']
        if (bid, jid) in self.jobs:
            self.ctx.probe('worker_refused_duplicate_job')
            # remembered for the C39 oracle: an attempt the worker explicitly refused is never run by anybody
            refused = getattr(self.w, 'refused_attempts', None)
            if refused is None:
                refused = self.w.refused_attempts = set()
            if self.jobs[(bid, jid)].attempt_id != cfg['job_spec'].get('attempt_id'):
                # (a re-sent create for the attempt it already runs is refused too, but that attempt IS being run)
                refused.add((bid, jid, cfg['job_spec'].get('attempt_id')))
            return 403, 'Forbidden', {}, b''
        js = cfg['job_spec']
        job = SimJob(bid, jid, js['attempt_id'], js.get('job_group_id', 0), None, cfg)
        self.jobs[(bid, jid)] = job
        self.last_updated = self.now_ms()
        job.task = self._spawn(self.run_job(job), name=f'job-{bid}-{jid}-{job.attempt_id}')
        return 200, 'OK', {}, b''

    def delete_job(self, job):
        job.deleted = True
        self.jobs.pop((job.batch_id, job.job_id), None)
        if job.task is not None and not job.task.done():
            job.task.cancel()

    async def resources_of(self, job):
        m = self.w.mods
        cfg = job.cfg
        try:
            spec = json.loads(await self.w.file_store.read_spec_file(cfg['batch_id'], cfg['token'],
                                                                      cfg['start_job_id'], cfg['job_id']))
            r = spec['resources']
            return self.vm.instance_config.quantified_resources(
                cpu_in_mcpu=r['cores_mcpu'], memory_in_bytes=r['memory_bytes'], extra_storage_in_gib=r['storage_gib'])
        except FileNotFoundError:
            return []

    async def run_job(self, job):
        m = self.w.mods
        s = self.s
        url_started = m.deploy_config.url('batch-driver', '/api/v1alpha/instances/job_started')
        url_complete = m.deploy_config.url('batch-driver', '/api/v1alpha/instances/job_complete')
        resources = await self.resources_of(job)
        # setup, then the job starts
        await asyncio.sleep(s.ticks(200))
        job.start_time = self.now_ms()
        job.state = 'running'
        base = {'version': 6, 'batch_id': job.batch_id, 'job_id': job.job_id, 'attempt_id': job.attempt_id,
                'job_group_id': job.job_group_id, 'start_time': job.start_time, 'resources': resources}

        async def post_started():
            await m.hutils.retry_transient_errors(self.http.post, url_started, json={'status': base},
                                                  headers=self.headers())
            job.marked_job_started = True

        skip_mjs = self.w.faults_on and self.w.worker_fault_rates.get('skip_started') and \
            s.chance(self.w.worker_fault_rates['skip_started'])
        if skip_mjs:
            self.ctx.fault('worker.job_started_lost')

            async def noop():
                raise aiohttp.ServerDisconnectedError()
            mjs = asyncio.ensure_future(noop())
        else:
            mjs = asyncio.ensure_future(post_started())
        # run
        dur = s.rint(1, self.w.max_job_ticks) / 1024.0 if not s.chance(0.1) else s.rint(20, 200)
        if self.w.faults_on and self.w.worker_fault_rates.get('clock_jump') and \
                s.chance(self.w.worker_fault_rates['clock_jump']):
            self.skew_ms += s.rint(-3000, 3000)
            self.ctx.fault('clock.jump')
        try:
            await asyncio.sleep(dur)
        except asyncio.CancelledError:
            if not mjs.done():
                mjs.cancel()
            raise
        outcome = ('succeeded', 'succeeded', 'succeeded', 'failed', 'error')[s.draw(5)]
        forced = self.w.job_outcome(job.batch_id, job.job_id)
        if forced is not None:
            outcome = forced
        job.end_time = max(self.now_ms(), job.start_time)
        job.state = outcome
        status = dict(base)
        status.update({'state': outcome, 'end_time': job.end_time,
                       'status': {'state': outcome, 'worker': self.name, 'container_statuses': {},
                                  'start_time': job.start_time, 'end_time': job.end_time}})
        # mark_complete: the report is posted by an independent task that a later delete does NOT cancel
        # (worker.py: Job.mark_complete -> task_manager.ensure_future(post_job_complete) if not deleted)
        if job.deleted:
            return
        self._spawn(self.post_job_complete(job, mjs, status, url_complete))

    async def post_job_complete(self, job, mjs, status, url_complete):
        s = self.s
        try:
            await mjs
        except asyncio.CancelledError:
            raise
        except Exception:  # pylint: disable=broad-except
            pass
        body = {'status': status, 'marked_job_started': job.marked_job_started}
        delay = 0.1
        n_dup = 0
        if self.w.faults_on and self.w.worker_fault_rates.get('dup_report') and \
                s.chance(self.w.worker_fault_rates['dup_report']):
            n_dup = 1 + s.draw(2)
            self.ctx.fault('worker.dup_report', n_dup)
        if self.w.faults_on and self.w.worker_fault_rates.get('late_report') and \
                s.chance(self.w.worker_fault_rates['late_report']):
            self.ctx.fault('worker.late_report')
            await asyncio.sleep(s.rint(30, 400))
        while True:
            try:
                await self.http.post(url_complete, json=body, headers=self.headers())
                if n_dup > 0:
                    n_dup -= 1
                    await asyncio.sleep(s.ticks(50))
                    continue
                break
            except asyncio.CancelledError:
                raise
            except Exception as e:  # pylint: disable=broad-except
                if isinstance(e, aiohttp.ClientResponseError) and e.status == 404:
                    break
            await asyncio.sleep(delay * (0.7 + 0.6 * s.flt()))
            delay = min(delay * 2, 120.0)
        self.jobs.pop((job.batch_id, job.job_id), None)
        self.last_updated = self.now_ms()
        if self.vm.job_private:
            # job-private workers exit after their job
            self._spawn(self.shutdown('job_private_done'))
