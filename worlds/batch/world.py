"""batchsim: the batch service (front end, driver), database, auth, network, clients in one simulated process."""
import asyncio
import contextvars
import json

from aiohttp import web

from minimysql import driver as dbdriver
from minimysql.loader import load_batch_schema
from simkit import entropy
from simkit.loop import PROC
from worlds.batch import env as benv
from worlds.batch.net import Service, SimNet, aiohttp_app_handler, make_httpx_session

# A front-end boot is a new operating-system process: whatever the module keeps in plain module-level containers
# (a cache someone adds, a registry) starts out as it was at import.  Worker processes of the harness execute many runs
# with one import of the repository, so the pristine content of those containers is recorded at the first boot of the
# process (before any request was served) and put back at every later boot; without this a run's outcome would depend
# on which runs the worker executed before it.
_PRISTINE = {}


def _restore_module_containers(mod):
    import collections
    kinds = (dict, list, set, collections.deque)
    snap = _PRISTINE.get(mod.__name__)
    if snap is None:
        snap = _PRISTINE[mod.__name__] = {
            k: (v, type(v)(v) if not isinstance(v, collections.defaultdict) else dict(v))
            for k, v in vars(mod).items()
            if isinstance(v, kinds) and not k.startswith('__') and type(v).__module__ in ('builtins', 'collections')}
        return
    for k, (obj, content) in snap.items():
        if vars(mod).get(k) is not obj:
            continue
        if isinstance(obj, dict):
            if obj != content or list(obj) != list(content):
                obj.clear()
                obj.update(content)
        elif isinstance(obj, set):
            if obj != content:
                obj.clear()
                obj.update(content)
        elif list(obj) != list(content):
            obj.clear()
            obj.extend(content)

REGIONS = ['us-central1', 'us-east1']


class MemFS:
    """blob store stand-in (durable across service crashes: it belongs to the world)."""

    def __init__(self, latency):
        self.blobs = {}
        self.latency = latency

    async def _lat(self):
        d = self.latency()
        if d:
            await asyncio.sleep(d)

    async def write(self, url, data):
        await self._lat()
        self.blobs[url] = bytes(data)

    async def read(self, url):
        await self._lat()
        if url not in self.blobs:
            raise FileNotFoundError(url)
        return self.blobs[url]

    async def read_range(self, url, start, end, end_inclusive=True):
        await self._lat()
        if url not in self.blobs:
            raise FileNotFoundError(url)
        b = self.blobs[url]
        return b[start:end + 1] if end_inclusive else b[start:end]

    async def exists(self, url):
        return url in self.blobs

    async def remove(self, url):
        self.blobs.pop(url, None)

    async def rmtree(self, sema, url, **kw):
        for k in [k for k in self.blobs if k.startswith(url)]:
            del self.blobs[k]

    async def close(self):
        pass


class SimCreds:
    """client-side credentials: bearer token of a simulated user."""

    def __init__(self, token):
        self.token = token

    async def auth_headers_with_expiration(self):
        return ({'Authorization': f'Bearer {self.token}'} if self.token else {}), None

    async def auth_headers(self):
        return {'Authorization': f'Bearer {self.token}'} if self.token else {}

    async def access_token(self):
        return self.token

    async def close(self):
        pass


class User:
    def __init__(self, i, username, is_developer=False, state='active', projects=()):
        self.id = i
        self.username = username
        self.token = f'tok-{username}'
        self.is_developer = is_developer
        self.state = state
        self.projects = list(projects)

    def userdata(self):
        return {'id': self.id, 'state': self.state, 'username': self.username, 'login_id': f'{self.username}@sim',
                'namespace_name': 'default', 'is_developer': self.is_developer, 'is_service_account': False,
                'hail_credentials_secret_name': f'{self.username}-gsa-key',
                'tokens_secret_name': f'{self.username}-tokens', 'hail_identity': f'{self.username}@sim.iam',
                'display_name': self.username, 'last_login': None}


RARE_CALL_BOOST = {'unschedule_job': 25.0, 'deactivate_instance': 25.0, 'mark_instance_deleted': 25.0,
                   'activate_instance': 15.0, 'mark_job_creating': 15.0, 'cancel_job_group': 15.0,
                   'commit_batch_update': 15.0, 'mark_job_started': 5.0, 'mark_job_complete': 5.0,
                   'schedule_job': 5.0}


class BatchWorld:
    def __init__(self, ctx, *, n_tokens=3, users=None, db_latency_ticks=2, net_delay_ticks=4, with_driver=False):
        self.ctx = ctx
        self.mods = benv.setup()
        self.n_tokens = n_tokens
        self.users = users or [User(1, 'u1', projects=['bp1']), User(2, 'u2', projects=['bp1', 'bp2'])]
        self.db_latency_ticks = db_latency_ticks
        self.net_delay_ticks = net_delay_ticks
        self.with_driver = with_driver
        self.s_db = ctx.stream('db.latency')
        self.s_dbfault = ctx.stream('db.fault')
        self.s_rand = ctx.stream('sql.rand')
        self.s_entropy = ctx.stream('entropy', 'prng')
        self.db_fault_rates = {}
        self.armed = []  # (process-name prefix, callback): see arm_mid_transaction
        self.ack_lost_calls = []  # (procedure, args) of CALLs whose connection was lost after they had committed
        self.faults_on = True
        self.on_commit = []
        self.fe_500 = []
        self.fe_app = None
        self.driver_notifications = []
        self.driver_500 = []
        self.driver_app = None
        self.cloud = None
        self.worker_fault_rates = {}
        self.billing_period = 60.0
        self.max_job_ticks = 3000
        self.forced_outcomes = {}
        self.periods = {'cancel_fast_failing': 10, 'bump': 60, 'refresh_globals': 5, 'compact': 60, 'cleanup': 60}
        self.service_users = [User(100, 'batch', projects=[])]
        self.service_users[0].token = 'tok-batch-service'

    # ---- database -------------------------------------------------------------------------------
    def _db_latency(self, what):
        lat = self.s_db.ticks(self.db_latency_ticks)
        r = self.db_fault_rates.get('stall') if self.faults_on and self.db_fault_rates else None
        if r and what != 'connect' and self.s_dbfault.chance(r):
            # a statement / commit that waits a long time (row-lock waits, slow disk): widens every window between
            # a SELECT and the statement that acts on it.  Inside a transaction the serial lock stays held meanwhile.
            self.ctx.fault('db.stall')
            lat += self.s_dbfault.rint(100, 4000) / 1024
        return lat

    def _db_fault(self, site, conn):
        if not self.faults_on or not self.db_fault_rates:
            return None
        rates = self.db_fault_rates
        # faults are biased towards the rare calls that create in-flight state (a uniform per-statement rate spends
        # almost everything on the driver's polling SELECTs)
        q = (getattr(conn, 'cur_query', None) or '').lstrip()
        boost = 1.0
        if q[:4].upper() == 'CALL':
            proc = q[4:].lstrip().split('(')[0].strip().lower()
            boost = RARE_CALL_BOOST.get(proc, 3.0)
        def ack_lost():
            # the connection dies after a procedure call has (internally) committed: gear.database re-issues the CALL
            if q[:4].upper() == 'CALL':
                self.ack_lost_calls.append((proc, tuple(getattr(conn, 'cur_args', None) or ())))

        if site == 'pre':
            is_write = q[:6].upper() in ('INSERT', 'UPDATE', 'DELETE')
            for k in ('deadlock', 'lock_timeout', 'lost_conn', 'fatal'):
                r = rates.get(k)
                if r and k == 'fatal' and is_write:
                    r *= 10  # plain writes of client-side transactions are rare next to the polling reads
                if r and self.s_dbfault.chance(min(r * boost, 0.2)):
                    self.ctx.fault('db.' + k)
                    return k
        elif site == 'post':
            r = rates.get('lost_conn_after')
            if r and self.s_dbfault.chance(min(r * boost, 0.2)):
                ack_lost()
                self.ctx.fault('db.lost_conn_after_statement')
                return 'lost_conn'
        elif site == 'commit':
            for k in ('lost_conn_before_commit', 'lost_conn_after_commit'):
                r = rates.get(k)
                if r and self.s_dbfault.chance(min(r * boost, 0.2)):
                    self.ctx.fault('db.' + k)
                    ack_lost()
                    return k
        elif site == 'connect':
            r = rates.get('too_many_conn')
            if r and self.s_dbfault.chance(r):
                self.ctx.fault('db.too_many_conn')
                return 'too_many_conn'
        return None

    def arm_mid_transaction(self, proc_prefix, fn):
        """call fn() (once) right after the next plain write statement that a connection of a process whose name starts
        with proc_prefix executes INSIDE an open multi-statement transaction (not a CALL): the moment at which a
        crash / shutdown / cancellation leaves a client-side transaction half done.  Places faults where in-flight
        state exists instead of at a uniformly random instant."""
        self.armed.append((proc_prefix, fn))

    def _after_stmt(self, conn, query, kind):
        if not self.armed or kind != 'write':
            return
        sess = conn.sess
        if not (sess.in_txn and sess.journal) or query.lstrip()[:4].upper() == 'CALL':
            return
        proc = getattr(conn, 'proc', 'main')
        for a in list(self.armed):
            if proc.startswith(a[0]):
                self.armed.remove(a)
                self.ctx.probe('fault_placed_mid_transaction')
                a[1]()
                break

    def build_db(self):
        loop = asyncio.get_running_loop()
        epoch = self.epoch
        eng = load_batch_schema(benv.shim.REPO, rand=self.s_rand.flt, clock=lambda: epoch + loop.time())
        self.eng = eng
        self.server = dbdriver.Server(eng, latency=self._db_latency, fault=self._db_fault)
        self.server.after_stmt = self._after_stmt
        dbdriver.CURRENT_SERVER[0] = self.server
        eng.commit_hooks.append(self._commit_hook)
        self._seed()

    def _commit_hook(self, sess, journal):
        for h in self.on_commit:
            h(sess, journal)

    def sql(self, q, params=None):
        """harness-side direct SQL (own session, autocommit, no latency, invisible to fault injection)."""
        s = self._admin
        r = self.eng.execute(s, q, params)
        if r.cols is not None:
            return [dict(zip(r.cols, row)) for row in r.rows]
        return r.affected

    def _seed(self):
        eng = self.eng
        self._admin = eng.session()
        hooks, eng.commit_hooks = eng.commit_hooks, []
        X = self.sql
        X("INSERT INTO globals (instance_id, internal_token, n_tokens, frozen) VALUES ('siminst', 'itok', %s, 0)",
          (self.n_tokens,))
        X("INSERT INTO feature_flags (compact_billing_tables, oms_agent, dockerhub_proxy) VALUES (%s, 0, 0)",
          (1 if getattr(self, 'compact_billing', False) else 0,))
        X("INSERT INTO inst_colls (name, is_pool, boot_disk_size_gb, max_instances, max_live_instances, cloud, "
          "max_new_instances_per_autoscaler_loop, autoscaler_loop_period_secs, worker_max_idle_time_secs) VALUES "
          "('standard', 1, 10, 8, 8, 'gcp', 4, 15, 30), ('job-private', 0, 10, 8, 8, 'gcp', 4, 15, 30)")
        X("INSERT INTO pools (name, worker_type, worker_cores, worker_local_ssd_data_disk, "
          "worker_external_ssd_data_disk_size_gb, enable_standing_worker, standing_worker_cores, preemptible, "
          "standing_worker_max_idle_time_secs, job_queue_scheduling_window_secs, min_instances, label) VALUES "
          "('standard', 'standard', 4, 1, 0, 0, 4, 1, 60, 150, 0, '')")
        products = []
        for region in REGIONS:
            for fam in ('n1',):
                for p in ('preemptible', 'nonpreemptible'):
                    products += [f'compute/{fam}-{p}/{region}', f'memory/{fam}-{p}/{region}']
            for p in ('preemptible', 'nonpreemptible'):
                products.append(f'disk/local-ssd/{p}/{region}')
            products += [f'disk/pd-ssd/{region}', f'disk/pd-standard/{region}']
        products += ['service-fee', 'ip-fee/preemptible/1024', 'ip-fee/nonpreemptible/1024',
                     'gcp-support-logs-specs-and-firewall-fees']
        for i, p in enumerate(products):
            X("INSERT INTO latest_product_versions (product, version, sku) VALUES (%s, '1', NULL)", (p,))
            X("INSERT INTO resources (resource, rate) VALUES (%s, %s)", (f'{p}/1', 1e-9 * (i + 1)))
        X("UPDATE resources SET deduped_resource_id = resource_id")
        for i, r in enumerate(REGIONS):
            X("INSERT INTO regions (region) VALUES (%s)", (r,))
        bps = sorted({bp for u in self.users for bp in u.projects})
        for bp in bps:
            X("INSERT INTO billing_projects (name, name_cs) VALUES (%s, %s)", (bp, bp))
        for u in self.users:
            for bp in u.projects:
                X("INSERT INTO billing_project_users (billing_project, user, user_cs) VALUES (%s, %s, %s)",
                  (bp, u.username, u.username))
        eng.commit_hooks = hooks

    # ---- services -------------------------------------------------------------------------------
    def _in_proc(self, name):
        ctx = contextvars.copy_context()
        ctx.run(PROC.set, name)
        return ctx

    async def start_auth(self):
        svc = Service('auth', 'auth')
        by_token = {u.token: u for u in self.users + self.service_users}

        async def handler(method, path_qs, headers, body):
            auth = headers.get('Authorization', '')
            tok = auth[len('Bearer '):] if auth.startswith('Bearer ') else None
            u = by_token.get(tok)
            if path_qs.startswith('/api/v1alpha/userinfo'):
                if u is None:
                    return 401, 'Unauthorized', {}, b''
                return 200, 'OK', {'Content-Type': 'application/json'}, json.dumps(u.userdata()).encode()
            if path_qs.startswith('/api/v1alpha/check_system_permission'):
                if u is None:
                    return 401, 'Unauthorized', {}, b''
                ok = u.is_developer or u.username == 'auth'
                return 200, 'OK', {'Content-Type': 'application/json'}, json.dumps({'has_permission': ok}).encode()
            return 404, 'Not Found', {}, b''
        svc.handler = handler
        svc.up = True
        svc.context = self._in_proc('auth')
        self.net.add_service('auth', svc)

    async def start_front_end(self):
        """reproduces front_end.run()/on_startup() with simulated collaborators (harness code)."""
        m = self.mods
        fe = m.front_end
        # every incarnation of the front end is its own simulated process (see crash_front_end)
        self.fe_gen = getattr(self, 'fe_gen', 0) + 1
        self.fe_proc = 'front_end' if self.fe_gen == 1 else f'front_end#{self.fe_gen}'
        _restore_module_containers(fe)
        ctx = self._in_proc(self.fe_proc)
        svc = self.net.services.get('batch') or Service('batch', 'front_end')
        svc.context = ctx
        self.net.add_service('batch', svc)

        async def boot():
            app = web.Application(client_max_size=fe.HTTP_CLIENT_MAX_SIZE,
                                  middlewares=[m.gear.check_csrf_token, fe.unavailable_if_frozen,
                                               m.gear.monitor_endpoints_middleware])
            app.add_routes(fe.routes)
            app[m.gear.CommonAiohttpAppKeys.CLIENT_SESSION] = make_httpx_session(m, self.net, 'front_end')
            db = m.gear.Database()
            await db.async_init()
            app['db'] = db
            row = await db.select_and_fetchone('SELECT instance_id, n_tokens, frozen FROM globals;')
            app['n_tokens'] = row['n_tokens']
            app['instance_id'] = row['instance_id']
            app['hail_credentials'] = SimCreds('tok-batch-service')
            app['default_region'] = REGIONS[0]
            app['frozen'] = row['frozen']
            app['feature_flags'] = await db.select_and_fetchone('SELECT * FROM feature_flags')
            app['regions'] = {r['region']: r['region_id']
                              async for r in db.select_and_fetchall('SELECT region_id, region from regions')}
            app['file_store'] = m.FileStore(self.fs, 'gs://sim-batch', row['instance_id'])
            from hailtop import aiotools
            app['task_manager'] = aiotools.BackgroundTaskManager()
            app['inst_coll_configs'] = await m.inst_coll_config.InstanceCollectionConfigs.create(db)
            app['cancel_batch_state_changed'] = asyncio.Event()
            app['delete_batch_state_changed'] = asyncio.Event()
            from hailtop.utils import retry_long_running, run_if_changed
            app['task_manager'].ensure_future(retry_long_running(
                'cancel_batch_loop', run_if_changed, app['cancel_batch_state_changed'], fe.cancel_batch_loop_body, app))
            app['task_manager'].ensure_future(retry_long_running(
                'delete_batch_loop', run_if_changed, app['delete_batch_state_changed'], fe.delete_batch_loop_body, app))

            async def resolve_qob_jar_url(rev):
                return None
            from gear.time_limited_max_size_cache import TimeLimitedMaxSizeCache
            app[fe.AppKeys.QOB_JAR_RESOLUTION_CACHE] = TimeLimitedMaxSizeCache(
                resolve_qob_jar_url, int(1e10), 100, 'qob')
            app['sim_on_500'] = lambda method, path, e: self.fe_500.append((method, path, repr(e)[:300]))
            # front_end.auth is a module global: its session cache would otherwise carry entries stamped with a
            # previous run's simulated times into this run (worker processes execute many runs)
            try:
                fe.auth._userdata_cache = type(fe.auth)()._userdata_cache
            except Exception:  # pylint: disable=broad-except
                pass
            app.freeze()
            self.fe_app = app
            svc.handler = aiohttp_app_handler(app)
            svc.up = True
        await asyncio.get_running_loop().create_task(boot(), context=ctx.copy())

    def crash_front_end(self):
        """the front-end process dies now: its handlers never run again (no except / finally), the requests it was
        serving are reset, its database connections are reset by the server (open transactions roll back)."""
        loop = asyncio.get_running_loop()
        loop.crash(self.fe_proc)
        svc = self.net.services.get('batch')
        if svc is not None:
            svc.crash()
        n = self.server.kill_proc(self.fe_proc)
        self.fe_app = None
        self.ctx.fault('crash.front_end')
        self.ctx.log.add('world', 'front_end_crashed', self.fe_gen, n)

    async def restart_front_end(self):
        loop = asyncio.get_running_loop()
        for _ in range(60):
            try:
                await self.start_front_end()
                break
            except asyncio.CancelledError:
                raise
            except Exception:  # pylint: disable=broad-except
                # a boot that fails (database error during start-up) kills that incarnation; the next one is started
                loop.crash(self.fe_proc)
                svc = self.net.services.get('batch')
                if svc is not None:
                    svc.crash()
                self.server.kill_proc(self.fe_proc)
                self.fe_app = None
                self.ctx.probe('front_end_boot_failed')
                await asyncio.sleep(2)
        else:
            raise RuntimeError('the front end did not come up after 60 attempts')
        self.ctx.log.add('world', 'front_end_restarted', self.fe_gen)

    async def start_stub_driver(self):
        """front-end-only worlds: a driver that only acknowledges notifications."""
        svc = Service('batch-driver', 'driver')

        async def handler(method, path_qs, headers, body):
            self.driver_notifications.append((method, path_qs))
            return 200, 'OK', {}, b''
        svc.handler = handler
        svc.up = True
        svc.context = self._in_proc('driver')
        self.net.add_service('batch-driver', svc)

    async def start(self, loop, epoch=1_700_000_000.0):
        self.epoch = epoch
        self.net = SimNet(self.ctx)
        self.net.max_delay_ticks = self.net_delay_ticks
        self.fs = MemFS(lambda: self.ctx.stream('fs.latency').ticks(2))
        self.file_store = self.mods.FileStore(self.fs, 'gs://sim-batch', 'siminst')
        entropy.install(self.s_entropy)
        self.build_db()
        await self.start_auth()
        if not self.with_driver:
            await self.start_stub_driver()
        else:
            from worlds.batch.driverworld import start_driver
            await start_driver(self)
        await self.start_front_end()

    def job_outcome(self, batch_id, job_id):
        return self.forced_outcomes.get((batch_id, job_id))

    def stop(self):
        entropy.uninstall()
        dbdriver.CURRENT_SERVER[0] = None

    # ---- clients --------------------------------------------------------------------------------
    def batch_client(self, user, billing_project, src=None):
        m = self.mods
        http = make_httpx_session(m, self.net, src or f'client:{user.username}')
        session = m.csession.Session(credentials=SimCreds(user.token), http_session=http)
        url = m.deploy_config.base_url('batch')
        return m.aioclient.BatchClient(billing_project, url, session, headers={})

    def raw_session(self, user, src=None, raise_for_status=False):
        """hand-built requests: (status, json/body)."""
        return make_httpx_session(self.mods, self.net, src or f'raw:{user.username if user else "anon"}',
                                  raise_for_status=raise_for_status)
