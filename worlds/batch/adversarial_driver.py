"""C08 with the real driver: accepted submissions must actually finish (see adversarial.py)."""
from worlds.batch import adversarial as _a

NAME = 'batch.adversarial_driver'
NO_SHRINK = _a.NO_SHRINK
WALL_LIMIT = _a.WALL_LIMIT
RULE = _a.RULE + '; real driver, simulated cloud and workers; heal phase of 900 simulated seconds'
COMPONENTS = dict(_a.COMPONENTS, driver='real batch driver + SimCloud + SimWorkers')
ASSUMPTIONS = _a.ASSUMPTIONS
nontrivial = _a.nontrivial


def run(ctx):
    ctx.params = dict(ctx.params or {}, with_driver=True)
    return _a.run(ctx)
