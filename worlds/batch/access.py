"""batchsim scenario "access" (C14): every registered route of the real front end x every kind of caller.

The REAL route table (`front_end.routes`) is enumerated at run time and every route is classified FROM THE PROPERTY
TEXT (not from the decorators the code happens to use):

  public         healthcheck, version / cloud information, swagger / openapi / docs, tos / privacy, static, metrics
  batch_read     GET   .../batches/{batch_id}...            billing-project members of the batch
  batch_cancel   .../batches/{batch_id}.../cancel            billing-project members of the batch
  batch_delete   DELETE .../batches/{batch_id}, POST .../delete   billing-project members of the batch
  owner_write    jobs/create, job-groups/create, updates/create, update-fast, commit, close     the batch's owner
  bp_admin       POST .../billing_projects/..., POST .../billing_limits/...    developers (API: also the `auth` identity)
  authenticated  everything else                              any active authenticated user
  (a route none of the rules places is reported as probe `unclassified_route`, listed in extra, treated as
  `authenticated`)

Identities: owner O (bp1), member M (bp1), non-member N (bp2), inactive user I (auth answers with state=inactive, so
gear.auth's own state check runs; I is even a member of bp1), user X in state `deleted` (the real auth service only
answers for active users: 401), unauthenticated U (no / non-Bearer Authorization header), garbage token G, developer
D (bp2, not a member of bp1) and the service identity A (`auth`).  Credentials travel as Bearer token or, as a
browser would send them, as session cookie (+ CSRF cookie / form field or header on POSTs).

The owner's workload (real client library and raw REST, all through the real front end) keeps creating batches with an
open update, committed running batches with job groups, cancelled, complete (zero-job / marked) and deleted batches;
members cancel / delete legitimately; D and A create / close / reopen billing projects and add / remove users (so
membership of bp1 itself changes during the run and the expectation is recomputed from the database for every
request).  Intruder tasks pick (identity, route, target batch / job / group / update, body) at seeded instants.

Revocation: in half of the runs a valid member V polls routes it may use at gaps shorter than the lifetime of
gear.auth's userdata cache (read from the real cache object); at a seeded instant the auth service deactivates V /
deletes it / invalidates its session.  Requests SENT later than lifetime + 2 s after that must be refused and change
nothing (role `revoked`); earlier ones are unjudged (the cache may be stale for its lifetime).  Near misses of the
service identity: active non-developers named 'a', 'au', 'aut', 'th', 'uth', 'h', 'u', 'ut', 'authx', 'xauth' (and
'AUTH', 'Auth' if auth.auth_utils.is_valid_username accepted them; it does not) act as role `lookalike_of_auth`,
mostly on the bp_admin routes.

Oracle for a (identity, route, target) the property refuses: EVERY response the server produced for that request
(also for network-duplicated deliveries) is an error status or a redirect to the login page, and -- legitimate
traffic is held back by a gate and the network is drained around the request -- the digest over ALL database tables
and the blob store is the same before and after, and no transaction with changes committed in between.  A fraction of
the forbidden requests is sent WITHOUT the gate, truly concurrently with the owner's requests: for those only the
response oracle applies.  Permitted pairs are positive controls (probes only; a refused permitted request is not a
C14 violation).

Finding on the unchanged tree (kept, not silenced): `_create_batch_update` answers a request whose token matches an
existing update of the batch BEFORE it checks `batches.user`, so POST .../updates/create by a non-owner member who
presents the owner's token gets 200 + the update's ids (nothing changes).  A member can read that token: GET
.../batches/{id} shows the batch token, which create / create-fast also use as the token of update 1.  Signature
C14/member_allowed/owner_write/replayed_update_token; switch the variant off with params {'token_replay': False}.

Sensitivity (each tried alone in a scratch worktree of the repository with HAIL_REPO_ROOT, `./vcheck C14 quick`; all
caught): m1 `_user_can_access` without the membership condition -> <role>_allowed/{batch_read,batch_cancel,
batch_delete,ui_*} for non_member / developer / auth_service; m2 `_create_batch_update` without `batches.user = %s`
-> <role>_allowed/owner_write and <role>_refused_but_state_changed/owner_write (update-fast answers 404 after
inserting the update); m3 `authenticated_developers_or_auth_only` accepting everybody -> {member,non_member,owner}_
allowed/bp_admin; m4 gear.auth not rejecting state == 'inactive' -> inactive_allowed/*; m5 the admin decorator running
the handler and refusing afterwards -> *_refused_but_state_changed/bp_admin; m6 UI add-user route with
authenticated_users_only -> *_allowed/ui_bp_admin; m7 commit_update without `batches.user = %s` ->
*_allowed/owner_write.
"""
import asyncio
import hashlib
import json
import re

from simkit.core import Violation
from worlds.batch import env as benv
from worlds.batch.net import make_httpx_session
from worlds.batch.world import BatchWorld, SimCreds, User
from worlds.common import simulate

NAME = 'batch.access'
NO_SHRINK = ('entropy',)
WALL_LIMIT = 120
RULE = ('owner workload of 4-12 steps over <= 6 batches (open update / running with groups / cancelled / zero-job or '
        'marked complete / deleted), 2-3 intruder tasks x 4-12 requests each drawn from (9 identities) x (every route of '
        'front_end.routes) x (real or nonexistent batch / job / group / update ids) x (Bearer | session cookie), 1 in 4 '
        'always-forbidden requests ungated (concurrent with the owner); in 1 run of 2 a member that polls at gaps of 0.1-0.8 '
        'cache lifetimes is revoked (inactive | session invalidated | deleted) and judged from lifetime + 2 s on; optional request duplication / response loss, '
        'auth-service outages and transient auth errors; non-trivial run = a forbidden request was checked against a '
        'batch past its creation state (or a fault fired)')
COMPONENTS = {
    'batch.front_end.front_end (all registered routes, access decorators, handlers, SQL text)': 'real',
    'gear.auth (AuthServiceAuthenticator, session cache, login redirect), gear.csrf': 'real',
    'hailtop.batch_client.aioclient (owner workload)': 'real',
    'auth service': 'simulated: token table answering /api/v1alpha/userinfo (401 for unknown tokens and for users '
                    'that are neither active nor inactive), seeded outages / transient errors',
    'aiohttp_session': 'fake: the session is {session_id: value of cookie sim_session} (the real one is an encrypted cookie)',
    'UI templates': 'empty render',
    'batch driver': 'stub that acknowledges notifications',
    'MySQL': 'minimysql executing the repository SQL (serial transactions)',
    'network': 'SimNet (seeded delay, duplicate, lost response)',
}
ASSUMPTIONS = [
    'minimysql semantics (DESIGN.md 4)',
    'the harness builds the front-end Application the way run() does (same middlewares, app.add_routes(routes)); '
    '/metrics and the common static routes that run() adds outside the route table are not served',
    'session cookies cannot be forged: a cookie carries exactly the session id the auth service issued',
    'the simulated auth service answers userinfo only for active users (as auth/auth/auth.py does) and, to reach '
    'gear.auth\'s own check, for the inactive user',
]

PUBLIC_RE = re.compile(r'^/(healthcheck|metrics|swagger|openapi[^/]*|docs(/.*)?|tos|privacy)$|^/api/v\d+alpha/(version|cloud)$'
                       r'|/static/')
OWNER_WRITE_RE = re.compile(r'/(jobs/create|job-groups/create|updates/create|update-fast|commit|close)$')
AUTHENTICATED_RE = re.compile(r'^/api/v\d+alpha/(batches(/completed|/create|/create-fast)?|supported_regions|default_region'
                              r'|billing_projects(/\{billing_project\})?)$|^/?$|^/(batches|billing|billing_limits|billing_projects)$')
ALWAYS_REFUSED = ('unauthenticated', 'garbage_token', 'inactive', 'deleted_user', 'inactive_developer')
LOOKALIKES = ('a', 'au', 'aut', 'th', 'uth', 'h', 'u', 'ut', 'authx', 'xauth', 'AUTH', 'Auth')


def classify(method, path):
    """route class from the property text, or None when no rule places the route."""
    if PUBLIC_RE.search(path):
        return 'public'
    if '{batch_id}' in path:
        if method in ('POST', 'PATCH', 'PUT') and OWNER_WRITE_RE.search(path):
            return 'owner_write'
        if method in ('POST', 'PATCH', 'PUT') and path.endswith('/cancel'):
            return 'batch_cancel'
        if method == 'DELETE' or (method == 'POST' and path.endswith('/delete')):
            return 'batch_delete'
        if method in ('GET', 'HEAD'):
            return 'batch_read'
        return None
    if method != 'GET' and ('billing_projects' in path or 'billing_limits' in path):
        return 'bp_admin'
    if AUTHENTICATED_RE.search(path) and (method == 'GET' or path.endswith(('/create', '/create-fast'))):
        return 'authenticated'
    return None


def job_spec(job_id, group=('absolute', 0)):
    d = {'always_run': False, 'n_max_attempts': 20, 'always_copy_output': False, 'job_id': job_id,
         'absolute_parent_ids': [], 'in_update_parent_ids': [],
         'process': {'command': ['true'], 'image': 'ubuntu:22.04', 'type': 'docker'},
         'resources': {'cpu': '0.25', 'memory': 'standard', 'storage': '1Gi'}}
    d['absolute_job_group_id' if group[0] == 'absolute' else 'in_update_job_group_id'] = group[1]
    return d


def snapshot(w):
    """per-table hash of ALL rows of the database plus the blob store."""
    out = {}
    for name in sorted(w.eng.tables):
        t = w.eng.tables[name]
        if getattr(t, 'temp', False):
            continue
        rows = sorted(repr(r) for r in t.rows.values())
        out[name] = hashlib.sha1('\n'.join(rows).encode()).hexdigest()
    blobs = sorted((k, len(v)) for k, v in w.fs.blobs.items())
    out['#blobs'] = hashlib.sha1(repr(blobs).encode()).hexdigest()
    return out


class Ident:
    def __init__(self, kind, user=None, token=None):
        self.kind = kind
        self.user = user
        self.token = token if token is not None else (user.token if user else None)
        self.username = user.username if user else None


class GatedTransport:
    """every request of a legitimate actor holds the gate while it is in the network / being served."""

    def __init__(self, inner, gate):
        self.inner = inner
        self.gate = gate
        self.closed = False

    async def _request(self, method, url, **kw):
        async with self.gate:
            return await self.inner._request(method, url, **kw)

    async def close(self):
        self.closed = True


def _install_cookie_sessions():
    """the fake aiohttp_session of worlds/batch/env.py gives every request an empty session; here the session is read
    from the cookie `sim_session` (value = session id), which is what the encrypted cookie of the real library holds."""
    import aiohttp_session
    if getattr(aiohttp_session, '_c14_cookie_sessions', False):
        return
    orig = aiohttp_session.get_session

    async def get_session(request):
        s = await orig(request)
        if not request.get('c14_cookie_loaded'):
            request['c14_cookie_loaded'] = True
            sid = request.cookies.get('sim_session')
            if sid is not None and 'session_id' not in s:
                s['session_id'] = sid
        return s
    aiohttp_session.get_session = get_session
    aiohttp_session._c14_cookie_sessions = True


def run(ctx):
    cfg = ctx.stream('cfg')
    O = User(1, 'owner', projects=['bp1'])
    M = User(2, 'member', projects=['bp1'])
    N = User(3, 'nonmember', projects=['bp2'])
    I = User(4, 'inactive', state='inactive', projects=['bp1'])
    X = User(5, 'deleted', state='deleted', projects=['bp1'])
    D = User(6, 'dev', is_developer=True, projects=['bp2'])
    A = User(7, 'auth', projects=[])
    V = User(8, 'victim', projects=['bp1'])  # valid member of bp1 until it is revoked mid-run
    # a developer whose account was deactivated: the developer-only routes must refuse it like any inactive user
    ID = User(9, 'inactivedev', state='inactive', is_developer=True, projects=['bp1'])
    # active non-developers whose names are near misses of the service identity `auth` (those the repository's own
    # username validation accepts)
    benv.setup()
    try:
        from auth.auth_utils import is_valid_username
    except Exception:  # pylint: disable=broad-except
        ctx.probe('username_validation_unavailable')

        def is_valid_username(name):
            return bool(re.fullmatch(r'[A-Za-z0-9]+(-[A-Za-z0-9]+)*', name))
    lookalikes = [User(20 + i, name, projects=[]) for i, name in enumerate(LOOKALIKES) if is_valid_username(name)]
    users = [O, M, N, I, X, D, A, V, ID] + lookalikes
    w = BatchWorld(ctx, n_tokens=(1, 3, 200)[cfg.draw(3)], users=users, with_driver=False)
    token_replay = bool(ctx.params.get('token_replay', True))
    idents = {
        'owner': Ident('owner', O), 'member': Ident('member', M), 'non_member': Ident('non_member', N),
        'inactive': Ident('inactive', I), 'deleted_user': Ident('deleted_user', X),
        'unauthenticated': Ident('unauthenticated'), 'garbage_token': Ident('garbage_token', None, 'garbage'),
        'developer': Ident('developer', D), 'auth_service': Ident('auth_service', A),
        'inactive_developer': Ident('inactive_developer', ID),
    }
    IDENT_ORDER = ['unauthenticated', 'garbage_token', 'inactive', 'non_member', 'member', 'developer', 'deleted_user',
                   'auth_service', 'owner']
    IDENT_WEIGHTS = [3, 3, 3, 4, 4, 3, 1, 2, 2]
    if lookalikes:
        IDENT_ORDER.append('lookalike_of_auth')
        IDENT_WEIGHTS.append(3)
    IDENT_ORDER.append('inactive_developer')
    IDENT_WEIGHTS.append(2)
    revoked_tokens = set()
    st = {'commits': 0, 'commit_tables': [], 'req': 0, 'tok': 0, 'stop': False, 'fs_inflight': 0, 'conc': 0, 'conc_epoch': 0}
    served = {}
    unclassified = []

    def viol(sig, detail):
        raise Violation('C14', 'access', sig, detail)

    async def main(loop):
        _install_cookie_sessions()
        await w.start(loop)
        # front_end.auth is a module global: its session cache would carry entries (stamped with the previous runs'
        # simulated clocks) from run to run inside one worker process and evict this run's entries first
        w.mods.front_end.auth._userdata_cache = type(w.mods.front_end.auth)()._userdata_cache
        log = ctx.log
        m = w.mods
        fe = m.front_end
        base = m.deploy_config.base_url('batch')
        login_url = m.deploy_config.external_url('auth', '/user')
        gate = asyncio.Lock()

        def on_commit(_sess, journal):
            st['commits'] += 1
            for e in journal:
                n = getattr(e[1], 'name', None)
                if n and n not in st['commit_tables']:
                    st['commit_tables'].append(n)
        w.on_commit.append(on_commit)

        # ---- route table (real, enumerated now) ------------------------------------------------------------
        routes = []
        for r in fe.routes:
            method, path = getattr(r, 'method', None), getattr(r, 'path', None)
            if method is None or path is None:
                # StaticDef and friends: static assets, public by the property text
                continue
            cls = classify(method, path)
            if cls is None:
                ctx.probe('unclassified_route')
                unclassified.append(f'{method} {path}')
                cls = 'authenticated'
            routes.append((method, path, cls, not path.startswith('/api/')))
        ctx.extra['n_routes'] = len(routes)
        ctx.extra['unclassified'] = sorted(unclassified)
        checked = [r for r in routes if r[2] != 'public']

        # ---- service wrappers: record what the server answered; auth faults --------------------------------
        bsvc = w.net.services['batch']
        b_orig = bsvc.handler

        async def batch_handler(method, path_qs, headers, body):
            rid = headers.get('X-Sim-Req')
            try:
                res = await b_orig(method, path_qs, headers, body)
            except asyncio.CancelledError:
                raise
            except BaseException as e:  # pylint: disable=broad-except
                if rid is not None:
                    served.setdefault(rid, []).append(('exc', type(e).__name__))
                raise
            if rid is not None:
                served.setdefault(rid, []).append((res[0], (res[2] or {}).get('Location')))
            return res
        bsvc.handler = batch_handler

        asvc = w.net.services['auth']
        a_orig = asvc.handler
        by_token = {u.token: u for u in users}
        s_auth = ctx.stream('fault:auth')
        auth_plan = {'transient': 0.0}

        async def auth_handler(method, path_qs, headers, body):
            a = headers.get('Authorization', '')
            u = by_token.get(a[len('Bearer '):]) if a.startswith('Bearer ') else None
            if auth_plan['transient'] and s_auth.chance(auth_plan['transient']):
                ctx.fault('auth.transient_error')
                return (500, 503)[s_auth.draw(2)], 'Error', {}, b''
            if u is not None and (u.state not in ('active', 'inactive') or u.token in revoked_tokens):
                return 401, 'Unauthorized', {}, b''
            return await a_orig(method, path_qs, headers, body)
        asvc.handler = auth_handler

        # ---- plumbing --------------------------------------------------------------------------------------
        plain_http = make_httpx_session(m, w.net, 'raw:c14', raise_for_status=False)

        # a handler may answer while a blob write it started is still running (asyncio.gather(write spec, insert jobs)
        # in _create_jobs does not cancel the write when the insert fails): blob writes in flight are drained too
        fs_write = w.fs.write

        async def tracked_write(url, data):
            st['fs_inflight'] += 1
            try:
                return await fs_write(url, data)
            finally:
                st['fs_inflight'] -= 1
        w.fs.write = tracked_write

        async def quiesce(limit=240.0):
            t0 = loop.time()
            if st['fs_inflight'] and not w.net.inflight:
                ctx.probe('orphan_blob_write_drained')
            while w.net.inflight or st['fs_inflight'] or st['conc']:
                if loop.time() - t0 > limit:
                    return False
                await asyncio.sleep(1 / 64)
            return True

        def auth_headers(ident, s, ui, method):
            """(headers, form_csrf or None, how)."""
            h = {}
            if ident.kind == 'unauthenticated':
                v = s.draw(4)
                if v == 1:
                    h['Authorization'] = f'Basic {O.token}'
                elif v == 2:
                    h['Authorization'] = f'bearer{O.token}'
                return h, None, 'none'
            tok = ident.token
            if ident.kind == 'garbage_token':
                tok = ('garbage', O.token + 'x', O.token[:-1], '', O.token.upper(), ' ' + O.token)[s.draw(6)]
            use_cookie = s.draw(2 if ui else 6) == 1
            if not use_cookie:
                h['Authorization'] = f'Bearer {tok}'
                return h, None, 'bearer'
            ctx.probe('cookie_auth')
            cookie = f'sim_session={tok}' if tok and ' ' not in tok else 'sim_session=garbage'
            form = None
            if method not in ('GET', 'HEAD'):
                v = s.draw(4)
                if v in (0, 1):
                    cookie += '; _csrf=c14csrf'
                    if v == 0 or not ui:
                        h['X-CSRF-Token'] = 'c14csrf'
                    else:
                        form = 'c14csrf'
                elif v == 2:
                    cookie += '; _csrf=c14csrf'
                    h['X-CSRF-Token'] = 'other'
            h['Cookie'] = cookie
            return h, form, 'cookie'

        async def send(actor, method, path, headers, json_body=None, form=None, gated=True, rid=None):
            """-> (client status or None, json or None, Location, [server side answers])."""
            hdrs = dict(headers)
            if rid is None:
                st['req'] += 1
                rid = f'{actor}-{st["req"]}'
            hdrs['X-Sim-Req'] = rid
            kw = {}
            if form is not None:
                hdrs['Content-Type'] = 'application/x-www-form-urlencoded'
                kw['data'] = '&'.join(f'{k}={v}' for k, v in form)
            elif json_body is not None:
                kw['json'] = json_body
            status = js = loc = None
            try:
                resp = await plain_http.request(method, base + path, headers=hdrs, **kw)
                status = resp.status
                loc = resp.headers.get('Location')
                txt = await resp.text()
                try:
                    js = json.loads(txt) if txt else None
                except ValueError:
                    js = None
            except asyncio.CancelledError:
                raise
            except Violation:
                raise
            except Exception as e:  # pylint: disable=broad-except
                if type(e).__name__ in ('UnsupportedSQL', 'SimulationEscape'):
                    status = 'unsupported'
                else:
                    status = None
            return status, js, loc, rid

        async def call(actor, ident_headers, method, path, json_body=None, form=None):
            """a legitimate actor's request: holds the gate."""
            async with gate:
                return await send(actor, method, path, ident_headers, json_body, form)

        def refused(status, loc):
            if status == 'exc':
                return True  # the handler raised: the client sees a 500 / dropped connection
            if status >= 400:
                return True
            if 300 <= status < 400 and loc and loc.startswith(login_url):
                return True
            return False

        # ---- database views (harness side) -----------------------------------------------------------------
        def batch_row(bid):
            r = w.sql('SELECT id, user, billing_project, state, deleted, n_jobs FROM batches WHERE id = %s', (bid,))
            return r[0] if r else None

        def is_member(username, bp):
            return bool(w.sql('SELECT 1 AS x FROM billing_project_users WHERE billing_project = %s AND user_cs = %s',
                              (bp, username)))

        def lifecycle(bid):
            b = batch_row(bid)
            if b is None:
                return 'nonexistent'
            if b['deleted']:
                return 'deleted'
            if w.sql('SELECT 1 AS x FROM job_groups_cancelled WHERE id = %s AND job_group_id = 0', (bid,)):
                return 'cancelled'
            if w.sql('SELECT 1 AS x FROM batch_updates WHERE batch_id = %s AND NOT committed', (bid,)):
                return 'open_update'
            return 'complete' if b['state'] == 'complete' else 'running'

        def expectation(ident, cls, ui, bid):
            """('forbidden' | 'permitted' | 'unspecified', role label)."""
            k = ident.kind
            if k in ALWAYS_REFUSED:
                return 'forbidden', k
            if cls == 'authenticated':
                return 'permitted', k
            if cls == 'bp_admin':
                if k == 'developer':
                    return 'permitted', k
                if k == 'auth_service':
                    return ('unspecified' if ui else 'permitted'), k
                return 'forbidden', k
            b = batch_row(bid)
            owner = b is not None and b['user'] == ident.username
            member = b is not None and is_member(ident.username, b['billing_project'])
            if k in ('owner', 'member', 'non_member'):
                role = 'owner' if owner else ('member' if member else 'non_member')
            else:
                role = k
            if cls == 'owner_write':
                return ('permitted' if owner else 'forbidden'), role
            return ('permitted' if member else 'forbidden'), role

        # ---- request construction ----------------------------------------------------------------------------
        def fill(path, s, ident):
            """path parameters: real ids of the owner's batches / jobs / groups / updates, sometimes nonexistent."""
            bid = None
            vals = {}
            if '{batch_id}' in path:
                ids = [r['id'] for r in w.sql('SELECT id FROM batches ORDER BY id')]
                if not ids or s.draw(8) == 7:
                    bid = (max(ids) if ids else 0) + 7
                else:
                    bid = ids[s.draw(len(ids))]
                vals['batch_id'] = bid
            for name in re.findall(r'\{(\w+)\}', path):
                if name == 'batch_id':
                    continue
                if name == 'job_id':
                    njobs = w.sql('SELECT COUNT(*) AS n FROM jobs WHERE batch_id = %s', (bid,))[0]['n'] if bid else 0
                    vals[name] = 99 if s.draw(8) == 7 else s.rint(1, max(njobs, 1))
                elif name == 'job_group_id':
                    gs = [r['job_group_id'] for r in w.sql('SELECT job_group_id FROM job_groups WHERE batch_id = %s '
                                                           'ORDER BY job_group_id', (bid,))] if bid else []
                    vals[name] = 50 if (not gs or s.draw(8) == 7) else gs[s.draw(len(gs))]
                elif name == 'update_id':
                    us = [r['update_id'] for r in w.sql('SELECT update_id FROM batch_updates WHERE batch_id = %s ORDER BY '
                                                        'committed, update_id', (bid,))] if bid else []
                    vals[name] = 9 if (not us or s.draw(8) == 7) else us[s.draw(len(us))]
                elif name == 'billing_project':
                    vals[name] = ('bp1', 'bp3', 'bp2', 'bp1', 'nope')[s.draw(5)]
                elif name == 'user':
                    vals[name] = ('nonmember', 'member', 'owner', 'inactive', 'ghost', ident.username or 'ghost')[s.draw(6)]
                elif name == 'container':
                    vals[name] = ('main', 'input', 'output')[s.draw(3)]
                elif name == 'filename':
                    vals[name] = 'batch.js'
                else:
                    vals[name] = '1'
            out = path
            for k, v in vals.items():
                out = out.replace('{' + k + '}', str(v))
            return out, bid, vals

        def fresh_token(tag):
            st['tok'] += 1
            return f'{tag}-{st["tok"]}'

        def body_for(method, path, s, ident, bid, ui):
            """(json body, form fields, variant tag)."""
            if method in ('GET', 'HEAD', 'DELETE'):
                return None, None, ''
            if ui:
                form = []
                if path.endswith('/users/add'):
                    form.append(('user', ('nonmember', 'ghost', ident.username or 'ghost')[s.draw(3)]))
                elif path.endswith('/billing_projects/create'):
                    form.append(('billing_project', ('bp3', 'bp4')[s.draw(2)]))
                elif path.endswith('/edit'):
                    form.append(('limit', ('10', 'None')[s.draw(2)]))
                return None, form, ''
            tag = ''
            tok = fresh_token('i')
            if path.endswith('/updates/create') or path.endswith('/update-fast'):
                # a member can read the batch, and the batch record shows the token that is also the token of the
                # batch's first update: a member can present the owner's own idempotency token
                brow = batch_row(bid) if bid is not None else None
                if token_replay and brow is not None and ident.kind == 'member' and \
                        is_member(ident.username, brow['billing_project']) and s.draw(4) == 3:
                    r = w.sql('SELECT token FROM batches WHERE id = %s', (bid,))  # what GET .../batches/{id} shows
                    if r and r[0]['token']:
                        tok = r[0]['token']
                        tag = 'replayed_update_token'
                upd = {'n_jobs': 1, 'n_job_groups': 0, 'token': tok}
                if path.endswith('/updates/create'):
                    return upd, None, tag
                return {'update': upd, 'bunch': [job_spec(1)], 'job_groups': []}, None, tag
            if path.endswith('/jobs/create'):
                return [job_spec(1)], None, ''
            if path.endswith('/job-groups/create'):
                return [{'job_group_id': 1, 'absolute_parent_id': 0, 'attributes': {'by': 'c14'}}], None, ''
            if path.endswith('/batches/create') or path.endswith('/batches/create-fast'):
                bp = ('bp1', 'bp2')[s.draw(2)]
                if ident.user is not None and ident.user.projects and s.draw(2) == 0:
                    bp = ident.user.projects[0]
                spec = {'billing_project': bp, 'n_jobs': 1, 'n_job_groups': 0, 'token': tok, 'attributes': {'name': 'c14'}}
                if path.endswith('/create'):
                    return spec, None, ''
                return {'batch': spec, 'bunch': [job_spec(1)], 'job_groups': []}, None, ''
            if path.endswith('/edit'):
                return {'limit': (10, None, 0)[s.draw(3)]}, None, ''
            if method == 'POST':
                return ({} if s.draw(2) else None), None, ''
            return None, None, ''

        # ---- one request of an intruder task -----------------------------------------------------------------
        async def intruder_request(actor, s):
            kind = IDENT_ORDER[s.weighted(IDENT_WEIGHTS)]
            if kind == 'lookalike_of_auth':
                ident = Ident(kind, lookalikes[s.draw(len(lookalikes))])
            else:
                ident = idents[kind]
            pool = checked
            if kind == 'lookalike_of_auth':
                if s.draw(3) != 2:
                    pool = [r for r in checked if r[2] == 'bp_admin'] or checked
            elif ident.kind in ('owner', 'member'):
                # mostly the routes that are refused to them
                if s.draw(2) == 0:
                    pool = [r for r in checked if r[2] in ('owner_write', 'bp_admin')] or checked
            elif ident.kind in ('developer', 'auth_service'):
                if s.draw(3) == 2:
                    pool = [r for r in checked if r[2] == 'bp_admin'] or checked
            method, tpath, cls, ui = pool[s.draw(len(pool))]
            concurrent = ident.kind in ALWAYS_REFUSED and s.draw(4) == 3
            label = ('ui_' if ui else '') + cls

            async def attempt():
                path, bid, _vals = fill(tpath, s, ident)
                exp, role = expectation(ident, cls, ui, bid)
                body, form, tag = body_for(method, tpath, s, ident, bid, ui)
                headers, form_csrf, how = auth_headers(ident, s, ui, method)
                if form_csrf is not None:
                    form = (form or []) + [('_csrf', form_csrf)]
                if form is not None and not form:
                    form = None
                lc = lifecycle(bid) if bid is not None else None
                return path, bid, exp, role, body, form, tag, headers, how, lc

            if concurrent:
                path, bid, exp, role, body, form, tag, headers, how, lc = await attempt()
                ctx.probe('concurrent_intruder')
                log.add(actor, 'send', role, label, method, how, 'concurrent', lc or '-')
                st['conc'] += 1
                st['conc_epoch'] += 1
                try:
                    status, _js, loc, rid = await send(actor, method, path, headers, body, form)
                finally:
                    st['conc'] -= 1
                answers = list(served.get(rid, []))
                log.add(actor, 'answer', role, label, str(status), tuple(str(a[0]) for a in answers))
                judge(role, label, method, tpath, tag, exp, status, loc, answers, None, None, 0, [], lc, how)
                return
            async with gate:
                quiet = await quiesce()
                path, bid, exp, role, body, form, tag, headers, how, lc = await attempt()
                if kind == 'lookalike_of_auth':
                    ctx.probe('lookalike_request')
                before = snapshot(w) if quiet else None
                c0 = st['commits']
                epoch0 = st['conc_epoch']
                st['commit_tables'] = []
                log.add(actor, 'send', role, label, method, how, exp, lc or '-')
                status, js, loc, rid = await send(actor, method, path, headers, body, form)
                quiet2 = await quiesce()
                answers = list(served.get(rid, []))
                after = snapshot(w) if (quiet and quiet2) else None
                ncommits = st['commits'] - c0
                tables = list(st['commit_tables'])
                log.add(actor, 'answer', role, label, str(status), tuple(str(a[0]) for a in answers), ncommits)
                if not (quiet and quiet2):
                    ctx.probe('quiesce_timeout')
                    before = after = None
                    ncommits = 0
                elif st['conc_epoch'] != epoch0:
                    # an ungated request of another intruder ran inside this window: a change could not be attributed
                    ctx.probe('window_overlapped_by_ungated_request')
                    before = after = None
                    ncommits = 0
                judge(role, label, method, tpath, tag, exp, status, loc, answers, before, after, ncommits, tables, lc, how)
                if exp == 'permitted' and cls in ('authenticated',) and method == 'POST' and ident.user is not None \
                        and isinstance(js, dict) and status == 200 and body is not None:
                    bp = (body.get('batch') or body).get('billing_project')
                    if bp and not ident.user.is_developer and not is_member(ident.username, bp):
                        # outside the property text (creation is "any active user"); reported, not judged
                        ctx.probe('created_batch_in_foreign_billing_project')

        def judge(role, label, method, tpath, tag, exp, status, loc, answers, before, after, ncommits, tables, lc, how):
            if status == 'unsupported':
                ctx.probe('unsupported_sql')
                if exp == 'forbidden':
                    raise RuntimeError(f'{method} {tpath} as {role}: the handler reached SQL minimysql does not support')
                return
            if exp == 'unspecified':
                ctx.probe('unspecified_pair')
                return
            ok_answers = [a for a in answers if not refused(a[0], a[1])]
            if exp == 'permitted':
                if ok_answers:
                    ctx.probe('permitted_ok')
                    ctx.probe(f'ok:{role}:{label}')
                    if before is not None and before.get('billing_project_users') != after.get('billing_project_users'):
                        ctx.probe('membership_changed')
                else:
                    ctx.probe('permitted_refused')
                return
            # forbidden
            ctx.probe('forbidden_checked')
            if lc is not None:
                ctx.probe('target:' + lc)
            sig_tail = f'{label}/{tag}' if tag else label
            where = f'{method} {tpath} ({how}) as {role}, target batch {lc or "-"}'
            if ok_answers:
                viol(f'C14/{role}_allowed/{sig_tail}',
                     f'{where}: the server answered {[(a[0], a[1]) for a in answers]}; commits during the request: '
                     f'{ncommits} {tables}')
            if not answers:
                ctx.probe('forbidden_not_served')
            if before is not None and (before != after or ncommits):
                changed = sorted(k for k in before if before[k] != after.get(k))
                viol(f'C14/{role}_refused_but_state_changed/{sig_tail}',
                     f'{where}: answered {[(a[0], a[1]) for a in answers]} but tables {changed} changed, {ncommits} '
                     f'transaction(s) with changes committed {tables}')
            ctx.probe('forbidden_refused')
            ctx.probe(f'refused:{role}:{label}')
            if any(a[1] and str(a[1]).startswith(login_url) for a in answers):
                ctx.probe('ui_login_redirect')

        # ---- revocation during the run ------------------------------------------------------------------------
        async def victim():
            """V polls routes it is permitted to use at gaps shorter than the lifetime of gear.auth's userdata cache; at a
            seeded instant the auth service revokes it.  The cache may serve the stale answer for its lifetime; a
            request SENT later than lifetime + margin after the revocation must be refused and change nothing."""
            s = ctx.stream('victim')
            lifetime = fe.auth._userdata_cache.lifetime_ns / 1e9
            margin = 2.0
            vident = Ident('revoked', V)
            pool = [r for r in checked if r[0] == 'GET' and r[2] in ('authenticated', 'batch_read')]
            proven = []
            await first_step.wait()
            n_before = s.rint(2, 6)
            t_rev = None
            i = 0
            while pool:
                gap = lifetime * s.rint(1, 8) / 10  # always shorter than the cache lifetime
                if t_rev is not None or i < n_before:
                    await asyncio.sleep(gap)
                else:
                    k = s.rint(0, 9)
                    await asyncio.sleep(gap * k / 10)
                    mode = ('inactive', 'session_invalidated', 'deleted')[s.draw(3)]
                    if mode == 'inactive':
                        V.state = 'inactive'
                    elif mode == 'deleted':
                        V.state = 'deleted'
                    else:
                        revoked_tokens.add(V.token)
                    t_rev = loop.time()
                    ctx.probe('revocation')
                    log.add('auth', 'revoke', mode)
                    await asyncio.sleep(gap * (10 - k) / 10)
                if t_rev is not None:
                    if not proven or loop.time() > t_rev + 2.6 * lifetime + margin:
                        break
                    method, tpath, cls, ui = proven[s.draw(len(proven))]
                else:
                    method, tpath, cls, ui = pool[s.draw(len(pool))]
                label = ('ui_' if ui else '') + cls
                i += 1
                async with gate:
                    quiet = await quiesce()
                    path, bid, _vals = fill(tpath, s, vident)
                    headers, _f, how = auth_headers(vident, s, ui, method)
                    lc = lifecycle(bid) if bid is not None else None
                    t_send = loop.time()
                    judged = t_rev is not None and t_send > t_rev + lifetime + margin
                    before = snapshot(w) if (quiet and judged) else None
                    c0 = st['commits']
                    epoch0 = st['conc_epoch']
                    st['commit_tables'] = []
                    phase = 'judged' if judged else ('stale_ok' if t_rev is not None else 'valid')
                    log.add('victim', 'send', label, how, phase)
                    status, _js, loc, rid = await send('victim', method, path, headers)
                    quiet2 = await quiesce()
                    answers = list(served.get(rid, []))
                    log.add('victim', 'answer', label, str(status), tuple(str(a[0]) for a in answers))
                    if t_rev is None:
                        if status != 'unsupported' and answers and not any(refused(a[0], a[1]) for a in answers) \
                                and (method, tpath, cls, ui) not in proven:
                            proven.append((method, tpath, cls, ui))
                        elif status == 'unsupported' and (method, tpath, cls, ui) in pool:
                            pool.remove((method, tpath, cls, ui))
                        continue
                    ctx.probe('revoked_polling_request')
                    if not judged or status == 'unsupported':
                        continue
                    after = snapshot(w) if (before is not None and quiet2) else None
                    ncommits = st['commits'] - c0
                    tables = list(st['commit_tables'])
                    if after is None or st['conc_epoch'] != epoch0:
                        before = after = None
                        ncommits = 0
                    judge('revoked', label, method, tpath, '', 'forbidden', status, loc, answers, before, after, ncommits,
                          tables, lc, how)
                    ctx.probe('revoked_refused')

        async def intruder(idx):
            s = ctx.stream(f'intruder{idx}')
            actor = f'intruder{idx}'
            await first_step.wait()
            for _ in range(s.rint(4, 12)):
                await asyncio.sleep(s.ticks(1500))
                await intruder_request(actor, s)

        # ---- the owner's workload ----------------------------------------------------------------------------
        ohdr = {'Authorization': f'Bearer {O.token}'}

        def gated_client(user, bp):
            http = make_httpx_session(m, w.net, f'client:{user.username}')
            http.client_session = GatedTransport(http.client_session, gate)
            session = m.csession.Session(credentials=SimCreds(user.token), http_session=http)
            return m.aioclient.BatchClient(bp, m.deploy_config.base_url('batch'), session, headers={})

        first_step = asyncio.Event()

        async def owner():
            try:
                await owner_steps()
            finally:
                first_step.set()

        async def owner_steps():
            s = ctx.stream('owner')
            opened = []   # (batch id, update id, n_jobs, n_groups) of open updates
            client = gated_client(O, 'bp1')

            def live_batches():
                return [r['id'] for r in w.sql("SELECT id FROM batches WHERE user = 'owner' AND NOT deleted ORDER BY id")]

            for step in range(s.rint(4, 12)):
                if step == 1:
                    first_step.set()
                await asyncio.sleep(s.ticks(1200))
                kinds = ['submit', 'open_new', 'fill_commit', 'cancel', 'open_existing', 'empty', 'delete', 'read',
                         'mark_complete']
                kind = kinds[s.weighted([4, 3, 3, 3, 2, 2, 2, 1, 1])]
                n_batches = w.sql('SELECT COUNT(*) AS n FROM batches')[0]['n']
                if kind in ('submit', 'open_new', 'empty') and n_batches >= 6:
                    kind = 'cancel'
                try:
                    if kind == 'submit':
                        b = client.create_batch(attributes={'name': f'o{step}'})
                        groups = []
                        for gi in range(s.draw(3)):
                            parent = groups[s.draw(len(groups))] if groups and s.draw(2) else None
                            groups.append((parent or b).create_job_group(attributes={'g': f'o{step}g{gi}'}))
                        for _ in range(s.rint(1, 3)):
                            tgt = groups[s.draw(len(groups))] if groups and s.draw(2) else b
                            tgt.create_job('ubuntu:22.04', ['true'],
                                           resources={'cpu': '0.25', 'memory': 'standard', 'storage': '1Gi'})
                        await b.submit(disable_progress_bar=True)
                        log.add('owner', 'submitted', b.id, len(groups))
                    elif kind == 'open_new':
                        nj, ng = s.rint(1, 3), s.draw(2)
                        stt, js, _l, _r = await call('owner', ohdr, 'POST', '/api/v1alpha/batches/create',
                                                     {'billing_project': 'bp1', 'n_jobs': nj, 'n_job_groups': ng,
                                                      'token': fresh_token('ob'), 'attributes': {'name': f'o{step}'}})
                        log.add('owner', 'create', str(stt))
                        if stt == 200:
                            opened.append((js['id'], js['update_id'], nj, ng))
                            ctx.probe('open_update_created')
                    elif kind == 'open_existing':
                        ids = live_batches()
                        if ids:
                            bid = ids[s.draw(len(ids))]
                            nj = s.rint(1, 2)
                            stt, js, _l, _r = await call('owner', ohdr, 'POST', f'/api/v1alpha/batches/{bid}/updates/create',
                                                         {'n_jobs': nj, 'n_job_groups': 0, 'token': fresh_token('ou')})
                            log.add('owner', 'update_create', bid, str(stt))
                            if stt == 200:
                                opened.append((bid, js['update_id'], nj, 0))
                                ctx.probe('open_update_created')
                    elif kind == 'fill_commit':
                        if opened:
                            bid, uid, nj, ng = opened.pop(s.draw(len(opened)))
                            ok = True
                            if ng:
                                stt, _j, _l, _r = await call(
                                    'owner', ohdr, 'POST', f'/api/v1alpha/batches/{bid}/updates/{uid}/job-groups/create',
                                    [{'job_group_id': g, 'absolute_parent_id': 0, 'attributes': {'g': f'o{step}'}}
                                     for g in range(1, ng + 1)])
                                ok = stt == 200
                            if ok:
                                await asyncio.sleep(s.ticks(600))
                                stt, _j, _l, _r = await call(
                                    'owner', ohdr, 'POST', f'/api/v1alpha/batches/{bid}/updates/{uid}/jobs/create',
                                    [job_spec(j, ('in_update', 1) if ng and s.draw(2) else ('absolute', 0))
                                     for j in range(1, nj + 1)])
                                ok = stt == 200
                            if ok and s.draw(4) != 3:
                                await asyncio.sleep(s.ticks(600))
                                stt, _j, _l, _r = await call('owner', ohdr, 'PATCH',
                                                             f'/api/v1alpha/batches/{bid}/updates/{uid}/commit')
                                log.add('owner', 'commit', bid, uid, str(stt))
                                if stt == 200:
                                    ctx.probe('owner_committed')
                            elif ok:
                                opened.append((bid, uid, nj, ng))  # filled, commit later (or never)
                    elif kind == 'cancel':
                        ids = live_batches()
                        if ids:
                            bid = ids[s.draw(len(ids))]
                            gs = [r['job_group_id'] for r in w.sql(
                                'SELECT job_group_id FROM job_groups WHERE batch_id = %s ORDER BY job_group_id', (bid,))]
                            g = gs[s.draw(len(gs))] if gs else 0
                            path = f'/api/v1alpha/batches/{bid}/cancel' if g == 0 else \
                                f'/api/v1alpha/batches/{bid}/job-groups/{g}/cancel'
                            stt, _j, _l, _r = await call('owner', ohdr, 'PATCH', path)
                            log.add('owner', 'cancel', bid, g, str(stt))
                    elif kind == 'delete':
                        ids = live_batches()
                        if ids:
                            bid = ids[s.draw(len(ids))]
                            stt, _j, _l, _r = await call('owner', ohdr, 'DELETE', f'/api/v1alpha/batches/{bid}')
                            log.add('owner', 'delete', bid, str(stt))
                    elif kind == 'empty':
                        stt, js, _l, _r = await call('owner', ohdr, 'POST', '/api/v1alpha/batches/create',
                                                     {'billing_project': 'bp1', 'n_jobs': 0, 'n_job_groups': 0,
                                                      'token': fresh_token('oe'), 'attributes': {'name': f'o{step}'}})
                        log.add('owner', 'create_empty', str(stt))
                    elif kind == 'mark_complete':
                        # no driver in this world: a finished batch is produced by marking one (harness-side SQL)
                        ids = [r['id'] for r in w.sql("SELECT id FROM batches WHERE user = 'owner' AND NOT deleted AND "
                                                      "state = 'running' ORDER BY id")]
                        if ids:
                            async with gate:
                                await quiesce()
                                bid = ids[s.draw(len(ids))]
                                w.sql("UPDATE batches SET state = 'complete' WHERE id = %s", (bid,))
                                w.sql("UPDATE job_groups SET state = 'complete' WHERE batch_id = %s", (bid,))
                                log.add('owner', 'marked_complete', bid)
                    else:
                        ids = live_batches()
                        if ids:
                            bid = ids[s.draw(len(ids))]
                            stt, _j, _l, _r = await call('owner', ohdr, 'GET', f'/api/v1alpha/batches/{bid}')
                            log.add('owner', 'read', bid, str(stt))
                except asyncio.CancelledError:
                    raise
                except Violation:
                    raise
                except Exception as e:  # pylint: disable=broad-except
                    if type(e).__name__ in ('UnsupportedSQL', 'SimulationEscape'):
                        raise
                    log.add('owner', 'step_failed', kind, type(e).__name__)
                    ctx.probe('owner_step_failed')

        async def auth_outages():
            s = s_auth
            for _ in range(s.rint(1, 3)):
                await asyncio.sleep(s.rint(1, 12000) / 1024)
                if st['stop']:
                    return
                asvc.up = False
                ctx.fault('auth.outage')
                log.add('auth', 'down')
                await asyncio.sleep(s.rint(200, 6000) / 1024)
                asvc.up = True
                log.add('auth', 'up')

        # ---- run ----------------------------------------------------------------------------------------------
        plan = ctx.stream('plan')
        if plan.draw(3) == 1:
            w.net.rates.update({k: 0.08 for k in ('duplicate', 'drop_response') if plan.draw(2) == 0})
        tasks = [asyncio.create_task(owner(), name='owner')]
        tasks += [asyncio.create_task(intruder(i), name=f'intruder{i}') for i in range(2 + cfg.draw(2))]
        if cfg.draw(2) == 1:
            tasks.append(asyncio.create_task(victim(), name='victim'))
        side = []
        if plan.draw(4) == 1:
            side.append(asyncio.create_task(auth_outages(), name='auth_outages'))
        if plan.draw(4) == 1:
            auth_plan['transient'] = 0.15
        done, pending = await asyncio.wait(tasks, timeout=1500)
        st['stop'] = True
        asvc.up = True
        for t in list(pending) + side:
            t.cancel()
        for t in done:
            if not t.cancelled() and t.exception() is not None:
                raise t.exception()
        if pending:
            raise RuntimeError('actors did not finish within 1500 simulated seconds')
        w.net.faults_enabled = False
        auth_plan['transient'] = 0.0
        await quiesce()
        states = sorted({lifecycle(r['id']) for r in w.sql('SELECT id FROM batches')})
        ctx.extra['final_states'] = states
        errs = sorted({f'{mm} {re.sub(r"[0-9]+", "N", pp)} {ee[:90]}' for mm, pp, ee in w.fe_500})
        if errs:
            ctx.probe('front_end_500', len(w.fe_500))
            ctx.extra['fe_500'] = errs[:6]

    try:
        _r, outcome = simulate(ctx, main, max_steps=2_000_000, max_time=4000.0)
        if outcome != 'done':
            raise RuntimeError(f'simulation ended with {outcome} at t={ctx.sim_time}')
    finally:
        w.stop()


def nontrivial(r):
    p = r['probes']
    if not p.get('forbidden_checked'):
        return False
    past_creation = any(p.get('target:' + k) for k in ('open_update', 'cancelled', 'complete', 'deleted'))
    return past_creation or bool(r['faults'])
