"""batchsim scenario "cancelscope" (C07): raw REST submissions racing with cancellations of arbitrary groups.

A base batch with nested job groups is committed by the real client library.  Then an `adder` builds further updates
through the REST endpoints the client library uses -- but bunch by bunch, with pauses, the way a large submission is
split over several requests: job groups that name in-update parents of an EARLIER bunch or absolute parents, jobs
placed into in-update or absolute groups, then the commit -- while a `canceller` cancels arbitrary groups (a child
before its ancestor, the whole batch, the same group twice) at seeded instants in between.

Oracles (worlds/batch/oracles.py, family C07): nothing is added beneath a group whose cancellation committed earlier,
re-cancelling inserts nothing, no cancellable job of a cancelled subtree starts, no job outside a cancelled subtree is
marked Cancelled, and every stored-procedure call returns normally.  With the real driver (1 run in 3) the jobs also
run, so the scheduling side of C07 is exercised under the same histories.
"""
import asyncio
import json

from simkit.core import Violation
from worlds.batch.oracles import Oracles
from worlds.batch.world import BatchWorld, User
from worlds.common import simulate

COMPONENTS = {
    'batch front end (REST handlers, validation, SQL text)': 'real',
    'batch driver (scheduler, canceller, instance collections)': 'real in 1 run of 3, else stub that accepts notifications',
    'hailtop.batch_client.aioclient (base batch)': 'real',
    'MySQL': 'minimysql executing the repository SQL (serial transactions)',
    'network': 'SimNet (seeded delay, duplicate, lost response, slow delivery)',
    'workers / cloud': 'SimWorker / SimCloud protocol models (only with the real driver)',
}
ASSUMPTIONS = [
    'transactions are serial; a plain SELECT inside a transaction reads the latest committed state (DESIGN.md 4)',
]
RULE = ('non-trivial run = at least one cancellation committed AND at least one submission request was answered after '
        'it (rejected or accepted)')
NO_SHRINK = ('entropy',)
WALL_LIMIT = 120


def job_spec(job_id, group, in_update_parents=(), always_run=False):
    d = {'always_run': always_run, 'n_max_attempts': 20, 'always_copy_output': False, 'job_id': job_id,
         'absolute_parent_ids': [], 'in_update_parent_ids': list(in_update_parents),
         'process': {'command': ['true'], 'image': 'ubuntu:22.04', 'type': 'docker'},
         'resources': {'cpu': '0.25', 'memory': 'standard', 'storage': '1Gi'}}
    d['absolute_job_group_id' if group[0] == 'absolute' else 'in_update_job_group_id'] = group[1]
    return d


def run(ctx):
    cfg = ctx.stream('cfg')
    users = [User(1, 'u1', projects=['bp1'])]
    with_driver = cfg.draw(3) == 0
    w = BatchWorld(ctx, n_tokens=(1, 3, 200)[cfg.draw(3)], users=users, with_driver=with_driver)
    w.max_job_ticks = (3000, 20000)[cfg.draw(2)]
    user = users[0]
    holder = {}
    st = {'cancels': 0, 'answered_after_cancel': 0, 'done': False, 'commits': []}

    async def main(loop):
        await w.start(loop)
        log = ctx.log
        plan = ctx.stream('plan')
        o = Oracles(w, ctx.params.get('props') or ['C07'])
        holder['o'] = o
        w.on_commit.append(o.on_commit)
        w.server.on_sql_error = o.sql_error
        loop.step_hooks.append(o.raise_pending)

        http = w.raw_session(user)
        base = w.mods.deploy_config.base_url('batch')
        hdr = {'Authorization': f'Bearer {user.token}'}

        async def call(method, path, body=None):
            for _ in range(8):
                try:
                    resp = await http.request(method, base + path, json=body, headers=dict(hdr))
                    txt = await resp.text()
                    try:
                        js = json.loads(txt) if txt else None
                    except ValueError:
                        js = None
                    if st['cancels']:
                        st['answered_after_cancel'] += 1
                    return resp.status, js
                except asyncio.CancelledError:
                    raise
                except Exception:  # pylint: disable=broad-except
                    await asyncio.sleep(0.2)
            return 599, None

        # ---- base batch: nested groups and a few jobs, by the real client ------------------------------------
        s = ctx.stream('base')
        c = w.batch_client(user, 'bp1')
        b = c.create_batch(attributes={'name': 'base'})
        groups = []
        for gi in range(s.rint(1, 3)):
            cands = [(None, 0)] + [(g, d) for g, d in groups if d < 2]
            parent, d = cands[s.draw(len(cands))]
            groups.append(((parent or b).create_job_group(attributes={'u': f'base{gi}'}), d + 1))
        for ji in range(s.rint(1, 5)):
            tgt = b if s.draw(3) == 0 else groups[s.draw(len(groups))][0]
            tgt.create_job('ubuntu:22.04', ['true'], always_run=s.draw(5) == 0,
                           resources={'cpu': '0.25', 'memory': 'standard', 'storage': '1Gi'})
        await b.submit(disable_progress_bar=True)
        bid = b.id
        log.add('base', 'submitted', bid, len(groups))
        if s.draw(2):
            # an unrelated batch of the same user with several committed updates (update numbers repeat across batches)
            b2 = c.create_batch(attributes={'name': 'other'})
            for _u in range(s.rint(2, 4)):
                b2.create_job('ubuntu:22.04', ['true'], resources={'cpu': '0.25', 'memory': 'standard', 'storage': '1Gi'})
                await b2.submit(disable_progress_bar=True)
            ctx.probe('second_batch_with_updates')
        # faults start once the base batch exists (a re-sent create-fast is answered 400 by this front end)
        if plan.draw(2):
            w.net.rates.update({k: 0.05 for k in ('duplicate', 'drop_response', 'slow_request') if plan.draw(2)})
        if plan.draw(3) == 0:
            w.db_fault_rates = {k: v for k, v in {'deadlock': 0.004, 'lost_conn_after': 0.003, 'stall': 0.01,
                                                  'lost_conn_after_commit': 0.004}.items() if plan.draw(2)}

        targets = [bid]  # batches the adders and the canceller work on (fresh batches are appended)

        def committed_groups(tb=None):
            tb = tb or bid
            rows = w.sql("SELECT job_groups.job_group_id AS g, level FROM job_groups "
                         "LEFT JOIN batch_updates ON batch_updates.batch_id = job_groups.batch_id AND "
                         "batch_updates.update_id = job_groups.update_id "
                         "INNER JOIN job_group_self_and_ancestors a ON a.batch_id = job_groups.batch_id AND "
                         "a.job_group_id = job_groups.job_group_id AND a.ancestor_id = 0 "
                         "WHERE job_groups.batch_id = %s AND (job_groups.update_id IS NULL OR batch_updates.committed) "
                         "ORDER BY job_groups.job_group_id", (tb,))
            return [(r['g'], r['level']) for r in rows]

        async def adder(idx):
            a = ctx.stream(f'adder{idx}')
            for ui in range(a.rint(1, 3)):
                await asyncio.sleep(a.ticks(3000))
                n_groups = a.rint(0, 3)
                n_jobs = a.rint(0 if n_groups else 1, 4)
                tb = bid
                if ui == 0 and a.draw(3) == 0:
                    # a batch of its own, built the slow way: update 1 is opened by batches/create and stays open while
                    # its job groups and jobs arrive bunch by bunch (first-update jobs are inserted Ready / counted
                    # through the staging tables, unlike jobs of later updates)
                    stt, js = await call('POST', '/api/v1alpha/batches/create',
                                         {'billing_project': 'bp1', 'n_jobs': n_jobs, 'n_job_groups': n_groups,
                                          'token': f'fresh{idx}', 'attributes': {'name': f'fresh{idx}'}})
                    log.add(f'adder{idx}', 'batch_create', stt)
                    if stt != 200 or js.get('update_id') is None:
                        continue
                    tb = js['id']
                    targets.append(tb)
                    ctx.probe('fresh_batch_with_open_first_update')
                else:
                    stt, js = await call('POST', f'/api/v1alpha/batches/{tb}/updates/create',
                                         {'n_jobs': n_jobs, 'n_job_groups': n_groups, 'token': f'a{idx}u{ui}'})
                    log.add(f'adder{idx}', 'update_create', stt)
                    if stt != 200:
                        continue
                uid = js['update_id']
                known = committed_groups(tb)
                inup = []  # (in-update id, depth) created so far by this update
                gspecs = []
                for gi in range(1, n_groups + 1):
                    spec = {'job_group_id': gi, 'attributes': {'u': f'a{idx}u{ui}g{gi}'}}
                    shallow_inup = [g for g, d in inup if d < 2]
                    if shallow_inup and a.draw(2):
                        p = shallow_inup[a.draw(len(shallow_inup))]
                        spec['in_update_parent_id'] = p
                        depth = dict(inup)[p] + 1
                    else:
                        shallow = [(g, d) for g, d in known if d < 2]
                        p, d = shallow[a.draw(len(shallow))]
                        spec['absolute_parent_id'] = p
                        depth = d + 1
                    inup.append((gi, depth))
                    gspecs.append(spec)
                # bunches: consecutive slices, each its own request, with a pause in between
                ok = True
                i = 0
                while i < len(gspecs) and ok:
                    k = a.rint(1, len(gspecs) - i)
                    stt, _ = await call('POST', f'/api/v1alpha/batches/{tb}/updates/{uid}/job-groups/create',
                                        gspecs[i:i + k])
                    log.add(f'adder{idx}', 'groups_create', uid, i + 1, k, stt)
                    ok = stt == 200
                    if ok and 'C06' in o.props:
                        # the tree the client asked for is the tree completion is propagated along: every group of
                        # this request must hang beneath the parent its spec named
                        start_g = js['start_job_group_id']
                        for spec in gspecs[i:i + k]:
                            gid = start_g + spec['job_group_id'] - 1
                            want = spec['absolute_parent_id'] if 'absolute_parent_id' in spec else \
                                start_g + spec['in_update_parent_id'] - 1
                            got = w.sql('SELECT ancestor_id FROM job_group_self_and_ancestors WHERE batch_id = %s AND '
                                        'job_group_id = %s AND level = 1', (tb, gid))
                            if not got or got[0]['ancestor_id'] != want:
                                ctx.probe('group_parent_mismatch')
                                raise Violation('C06', 'group_tree', 'C06/job_group_attached_to_wrong_parent',
                                                f'job group {(tb, gid)} (update {uid}, in-update id '
                                                f'{spec["job_group_id"]}) was requested beneath group {want} but is '
                                                f'recorded beneath {[r["ancestor_id"] for r in got]}')
                            ctx.probe('group_parent_checked')
                    i += k
                    await asyncio.sleep(a.ticks(2500))
                if ok and n_jobs:
                    jspecs = []
                    for ji in range(1, n_jobs + 1):
                        if inup and a.draw(2):
                            grp = ('in_update', inup[a.draw(len(inup))][0])
                        else:
                            grp = ('absolute', known[a.draw(len(known))][0])
                        par = [a.rint(1, ji - 1)] if ji > 1 and a.draw(2) else []
                        sp = job_spec(ji, grp, par, always_run=a.draw(6) == 0)
                        if a.draw(4) == 0:
                            # a dependency on a job of an EARLIER update, named absolutely or (legal for the validator)
                            # by a non-positive in-update id; the earlier update may be committed, still open (another
                            # adder's), or abandoned -- the front end has to tell them apart
                            # any id below this update's range: a job that exists, or an id that another open update
                            # has reserved but not uploaded yet
                            if js['start_job_id'] > 1:
                                pj = a.rint(1, js['start_job_id'] - 1)
                                if a.draw(3) == 0:
                                    sp['in_update_parent_ids'] = sp['in_update_parent_ids'] + [pj - js['start_job_id'] + 1]
                                    ctx.probe('earlier_parent_as_nonpositive_in_update_id')
                                else:
                                    sp['absolute_parent_ids'] = [pj]
                                ctx.probe('parent_in_earlier_update')
                        jspecs.append(sp)
                    i = 0
                    while i < len(jspecs) and ok:
                        k = a.rint(1, len(jspecs) - i)
                        stt, _ = await call('POST', f'/api/v1alpha/batches/{tb}/updates/{uid}/jobs/create',
                                            jspecs[i:i + k])
                        log.add(f'adder{idx}', 'jobs_create', uid, i + 1, k, stt)
                        ok = stt == 200
                        i += k
                        await asyncio.sleep(a.ticks(2500))
                if ok and a.draw(5) == 4:
                    # the client walks away: the update stays open for the rest of the run
                    ctx.probe('update_abandoned')
                    log.add(f'adder{idx}', 'abandon', uid)
                    continue
                if ok:
                    if a.draw(3) == 0:
                        # a slow client: other adders' updates are created, filled and committed meanwhile
                        await asyncio.sleep(a.rint(2, 20))
                    stt, _ = await call('PATCH', f'/api/v1alpha/batches/{tb}/updates/{uid}/commit')
                    log.add(f'adder{idx}', 'commit', uid, stt)
                    if stt == 200:
                        st['commits'].append(uid)
                        if any(u > uid for u in st['commits']):
                            ctx.probe('update_committed_after_a_later_one')

        async def canceller():
            k = ctx.stream('canceller')
            for _ in range(k.rint(1, 6)):
                await asyncio.sleep(k.ticks(5000))
                cb = targets[k.draw(len(targets))]
                known = committed_groups(cb)
                g = known[k.draw(len(known))][0]
                if k.draw(2) == 1:
                    # a job group of a still-open update, when there is one (the API must refuse to cancel it)
                    allg = w.sql('SELECT job_group_id AS g FROM job_groups WHERE batch_id = %s ORDER BY job_group_id', (cb,))
                    opened = [r['g'] for r in allg if r['g'] not in [x for x, _d in known]]
                    if opened:
                        g = opened[k.draw(len(opened))]
                        ctx.probe('cancel_of_uncommitted_group_requested')
                if g == 0 and k.draw(2):
                    stt, _ = await call('PATCH', f'/api/v1alpha/batches/{cb}/cancel')
                else:
                    stt, _ = await call('PATCH', f'/api/v1alpha/batches/{cb}/job-groups/{g}/cancel')
                log.add('canceller', 'cancel', g, stt)
                if stt == 200:
                    st['cancels'] += 1

        tasks = [asyncio.create_task(adder(i), name=f'adder{i}') for i in range(cfg.rint(1, 3))]
        tasks.append(asyncio.create_task(canceller(), name='canceller'))
        done, pending = await asyncio.wait(tasks, timeout=600)
        for t in pending:
            t.cancel()
        for t in done:
            if t.exception() is not None:
                raise t.exception()
        w.faults_on = False
        w.net.faults_enabled = False
        # in-flight duplicates finish; with the real driver the submitted work gets time to run
        t0 = loop.time()
        while loop.time() - t0 < (300 if with_driver else 20):
            await asyncio.sleep(5)
            if with_driver and not w.sql("SELECT 1 AS x FROM jobs INNER JOIN batch_updates ON jobs.batch_id = "
                                         "batch_updates.batch_id AND jobs.update_id = batch_updates.update_id WHERE "
                                         "batch_updates.committed AND jobs.state IN ('Pending', 'Ready', 'Creating', "
                                         "'Running') LIMIT 1"):
                break
        o.raise_pending()
        if st['cancels']:
            ctx.probe('cancelled_then_submitted', st['answered_after_cancel'])
        ctx.extra['cancels'] = st['cancels']

    try:
        _r, outcome = simulate(ctx, main, max_steps=2_000_000, max_time=3000.0)
        if 'o' in holder:
            holder['o'].raise_pending()
        if outcome != 'done':
            raise RuntimeError(f'simulation ended with {outcome} at t={ctx.sim_time}')
    finally:
        w.stop()


def nontrivial(r):
    return bool(r['probes'].get('cancel_committed')) and bool(r['probes'].get('cancelled_then_submitted'))
