from checks_common import DST

ENGINE = {
    'name': 'batchsim', 'path': 'worlds/batch/ + minimysql/',
    'serves_properties': ['C01', 'C02', 'C03', 'C04', 'C05', 'C06', 'C07', 'C10', 'C39', 'C41'],
    'kind_free_text': 'the real batch front end, driver, SQL routines/triggers and client library in one simulated '
                      'process: minimysql (MySQL-subset interpreter executing the repository SQL text), fake '
                      'aiomysql, SimNet, simulated cloud and protocol-level workers; oracles recount from raw rows '
                      'after every commit',
}

_NOTE = ('Trusted base: minimysql semantics (serial transactions, DESIGN.md 4), the SimWorker protocol model, the '
         'harness reproduction of service start-up, the re-implemented pymysql error mapping. Bounds: <= 2 users, '
         '<= 2 batches each, <= 3 updates, <= 7 jobs per update, job groups nested <= 2, <= 8 instances.')


def _entry(pid, text, oracle, n_quick=600, n_thorough=4800, offset=0, expected=(), extra_scenarios=()):
    return {
        'level': 'exploration',
        'engine': 'batchsim',
        'technique': DST + ': seeded histories of the real batch service on a simulated database/network/cloud; '
                           + oracle,
        'design_ref': f'DESIGN.md section 6 ({pid}), sections 4 and 5.1',
        'level_text': text,
        'level_note': _NOTE,
        'scenarios': [{'module': 'worlds.batch.lifecycle', 'quick': n_quick, 'thorough': n_thorough,
                       'params': {'props': [pid]}, 'seed_offset': offset,
                       'wall_cap': {'quick': 400.0, 'thorough': 3000.0}}] + list(extra_scenarios),
        'expected_probes': list(expected),
    }


def _procs(pid, offset, n_quick=4000):
    """protocol-level fuzz of the stored procedures (worlds/batch/procs.py) as an extra scenario of `pid`."""
    return {'module': 'worlds.batch.procs', 'quick': n_quick, 'thorough': 8 * n_quick, 'seed_offset': offset,
            'params': {'props': [pid]}, 'wall_cap': {'quick': 400.0, 'thorough': 3000.0}}


def _cs(pid, offset, n_quick=1500):
    """raw REST multi-update histories (worlds/batch/cancelscope.py: several updates open at once, bunch-wise
    submission, out-of-order commits, abandoned updates, parents in earlier updates, cancellations in between)."""
    return {'module': 'worlds.batch.cancelscope', 'quick': n_quick, 'thorough': 8 * n_quick, 'seed_offset': offset,
            'params': {'props': [pid]}, 'wall_cap': {'quick': 400.0, 'thorough': 3000.0}}


def _fe_entry(pid, module, text, oracle, n_quick, n_thorough, expected=(), scenarios=None):
    return {
        'level': 'exploration',
        'engine': 'batchsim',
        'technique': DST + ': ' + oracle,
        'design_ref': f'DESIGN.md section 6 ({pid}), sections 4 and 5.1',
        'level_text': text,
        'level_note': _NOTE,
        'scenarios': scenarios or [{'module': module, 'quick': n_quick, 'thorough': n_thorough,
                                    'wall_cap': {'quick': 400.0, 'thorough': 3000.0}}],
        'expected_probes': list(expected),
    }


CHECKS = {
    'C08': _fe_entry('C08', 'worlds.batch.adversarial',
                     'A raw client sends schema-valid but adversarial job specifications (missing / self / later parents, '
                     'parents in never-submitted ranges, job ids outside the reserved range, wrong counts) through every '
                     'submission endpoint of the real front end; committed updates must have closed dependency graphs and '
                     'exactly their reserved ids; rejected submissions must leave the visible state digest unchanged; '
                     'with the real driver the committed batch must actually finish.',
                     'adversarial submissions against the real front end, structural oracle on committed updates, '
                     'state-digest oracle on rejections, bounded liveness with the real driver',
                     0, 0, expected=['mutation_missing_parent', 'mutation_self_parent', 'mutation_ids_not_from_1',
                                     'ghost_range_reserved'],
                     scenarios=[{'module': 'worlds.batch.adversarial', 'quick': 6000, 'thorough': 48000,
                                 'wall_cap': {'quick': 400.0, 'thorough': 3000.0}},
                                {'module': 'worlds.batch.adversarial_driver', 'quick': 150, 'thorough': 1200,
                                 'seed_offset': 5_000_000,
                                 'wall_cap': {'quick': 400.0, 'thorough': 3000.0}}]),
    'C09': _fe_entry('C09', 'worlds.batch.submit',
                     'The real client library submits batches and updates through a network that drops and duplicates '
                     'requests and loses responses (its real retry loop re-sends) while the database injects deadlocks, '
                     'lost connections and ack-lost commits; after every commit and at the end: no duplicate batch / '
                     'update / job / group, contiguous ordered id ranges, counters equal recount, client ids == server ids.',
                     'real client + real front end over a lossy simulated network; exactly-once and id-agreement oracles',
                     12000, 84000, expected=['co_updater_joined', 'submit_raised']),
    'C14': _fe_entry('C14', 'worlds.batch.access',
                     'Every route of the real front_end.routes table is classified from the property text and requested by '
                     'unauthenticated, garbage-token, inactive, deleted, non-member, member, owner, developer and auth-service '
                     'callers (Bearer token or session cookie) against batches in every lifecycle state while the owner works; '
                     'a refused pair must be answered with an error / login redirect on every delivery and leave all tables '
                     'and the blob store unchanged with no committed transaction. Samples histories; not a proof.',
                     'route-table enumeration x caller matrix inside a running service history; response oracle on every '
                     'server-side answer, whole-database digest + commit count around each gated intruder request',
                     6000, 42000, expected=['forbidden_refused', 'permitted_ok', 'cookie_auth', 'ui_login_redirect',
                                             'concurrent_intruder', 'membership_changed', 'target:open_update',
                                             'target:running', 'target:cancelled', 'target:complete', 'target:deleted']),
    'C01': _entry('C01', 'After every committed transaction of seeded service histories the scheduler counters '
                         '(per user / instance collection, and per job group cancellable rows) are compared with a '
                         'recount from the jobs table. Sampling of histories, not a proof.',
                  'counter recount after every commit', offset=0,
                  expected=['cancel_committed', 'job_Ready_to_Running', 'job_Running_to_Ready'],
                  extra_scenarios=[_procs('C01', 2_100_000, n_quick=2000), _cs('C01', 3_100_000)]),
    'C02': _entry('C02', 'After every commit that touches attempts / resources / aggregates, each billing aggregate '
                         '(job, job group incl. ancestors, billing project x user, by date) is compared with '
                         'sum(quantity x billed duration) recomputed from attempts.',
                  'billing recount after every commit', offset=100_000,
                  expected=['billing_update_with_attempts'],
                  extra_scenarios=[_procs('C02', 2_200_000, n_quick=2000)]),
    'C03': _entry('C03', 'Every change of an attempts row (from the transaction journal, so intermediate statements '
                         'inside procedures are seen) is checked against the monotonicity and bound rules.',
                  'transition monitor over every attempts-row change', offset=200_000,
                  extra_scenarios=[_procs('C03', 2_300_000)]),
    'C04': _entry('C04', 'Every job state change is checked against the lifecycle relation; completion tallies are '
                         'recounted after every commit, under duplicated / late / stale worker reports.',
                  'transition monitor + tally recount', offset=300_000,
                  expected=['job_Running_to_Success', 'dup_message', 'stale_report', 'complete_after_unschedule',
                            'unschedule_after_complete', 'started_after_complete', 'double_placement'],
                  extra_scenarios=[_procs('C04', 2_400_000), _cs('C04', 3_400_000)]),
    'C05': _entry('C05', 'Whenever a job becomes Ready all its parents are terminal at that commit; children of '
                         'failed parents are marked cancelled and never start unless always-run.',
                  'dependency monitor at every commit', offset=400_000,
                  extra_scenarios=[_procs('C05', 2_700_000, n_quick=2000), _cs('C05', 3_500_000)]),
    'C06': _entry('C06', 'After every commit batch / job-group state, n_jobs and tallies equal the recount over '
                         'committed jobs of the subtree; what the API reports for a batch / job group (polled by a '
                         'reader throughout the run, and exhaustively at quiescence) agrees with the recount; job '
                         'groups created over several requests hang beneath the parents their specs named.',
                  'completion recount after every commit + reported-status oracle + group-tree agreement',
                  offset=500_000, expected=['status_reported_complete', 'status_reported_incomplete',
                                            'group_parent_checked'],
                  extra_scenarios=[{'module': 'worlds.batch.cancelscope', 'quick': 1500, 'thorough': 12000,
                                    'seed_offset': 550_000, 'params': {'props': ['C06']},
                                    'wall_cap': {'quick': 400.0, 'thorough': 3000.0}}]),
    'C07': _entry('C07', 'After a cancellation commits no cancellable job of the subtree starts, nothing can be added '
                         'beneath it, re-cancelling inserts nothing, and every stored-procedure call made by the driver '
                         'under any combination of cancelled groups returns normally.',
                  'cancellation-scope monitor + procedure health', offset=600_000,
                  expected=['cancel_committed', 'cancel_child_then_ancestor', 'cancelled_then_submitted'],
                  extra_scenarios=[{'module': 'worlds.batch.cancelscope', 'quick': 1500, 'thorough': 12000,
                                    'seed_offset': 650_000, 'wall_cap': {'quick': 400.0, 'thorough': 3000.0}}]),
    'C10': _entry('C10', 'After every commit touching attempts or instances, free cores of each live instance equal '
                         'total minus cores of its un-ended attempts; inactive instances are entirely free.',
                  'free-core recount after every commit', offset=700_000,
                  expected=['deactivate_with_open_attempts', 'double_placement'],
                  extra_scenarios=[_procs('C10', 2_500_000)]),
    'C39': _entry('C39', 'Bounded liveness: once faults stop every committed job is terminal within 900 simulated '
                         'seconds and cancelled batches complete; safety: a job is only completed by its current '
                         'attempt and a Creating/Running job always has one.',
                  'bounded liveness after heal + current-attempt monitor', offset=800_000,
                  expected=['job_Running_to_Ready'],
                  extra_scenarios=[_procs('C39', 2_600_000, n_quick=2000)]),
    'C41': _entry('C41', 'Jobs of uncommitted updates never get attempts, never enter Creating/Running/terminal '
                         'states and never contribute to counters or tallies (recount over committed jobs).',
                  'uncommitted-update monitors + recount', offset=900_000,
                  extra_scenarios=[_procs('C41', 2_800_000, n_quick=2000), _cs('C41', 3_900_000)]),
}
