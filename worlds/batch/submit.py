"""C09 -- submission is idempotent under client retries (real client library + real front end + lossy network).

The real hailtop.batch_client.aioclient submits batches and updates (fast path and multi-bunch path) through the
simulated network, which drops requests, drops responses (the server handled the request; the client's real retry
loop re-sends it), duplicates requests and delays them; the database injects deadlocks, lost connections and ack-lost
commits.  A second client object updates the same batch concurrently.

Oracles: after every commit -- at most one batch per (user, token), one update per (batch, token); update job-id and
group-id ranges contiguous, disjoint and in update order; jobs of an update inside its reserved range and never more
than announced; scheduling counters and tallies equal the recount (no double counting; C01/C06 recount re-attributed).
At the end -- every unique attribute on at most one job / group; after submit() returned normally every client-side
Job.job_id / JobGroup.job_group_id equals the id of the server row carrying that object's unique attribute and the
update is committed with exactly the announced number of jobs.  A submit() that raises is an allowed outcome.
"""
import asyncio

from simkit.core import Violation
from worlds.batch.oracles import Oracles
from worlds.batch.world import BatchWorld, User
from worlds.common import simulate

NAME = 'batch.submit'
NO_SHRINK = ('entropy',)
WALL_LIMIT = 120
RULE = ('1-2 submitters (real aioclient) x 1-3 updates of 0-6 jobs and 0-2 nested job groups, fast path or multi-bunch '
        '(bunch limits 1-3 specs), optional concurrent co-updater on the same batch; network drop_request / '
        'drop_response / duplicate at 5-15 % per request, db deadlock / lost connection / ack-lost commit')
COMPONENTS = {
    'hailtop.batch_client.aioclient (Batch.submit, _create_fast, _update_fast, bunch submission, commit)': 'real',
    'hailtop.aiocloud.common.Session + hailtop.utils.retry_transient_errors + hailtop.httpx': 'real',
    'batch.front_end.front_end (create / update / job-groups / jobs / commit handlers), gear.database': 'real',
    'batch SQL routines and triggers': 'real text on minimysql',
    'batch driver': 'stub that acknowledges notifications (not needed for submission)',
    'network, database server, auth': 'simulated',
}
ASSUMPTIONS = ['minimysql semantics (DESIGN.md 4)', 'SimNet delivers a duplicated request to the same handler a second time',
               'pymysql error mapping re-implemented']
CPUS = ['0.25', '0.5', '1']


async def submitter(ctx, w, idx, user, st, batch_ref=None):
    s = ctx.stream(f'submitter{idx}')
    log = ctx.log
    c = w.batch_client(user, user.projects[0])
    name = f's{idx}'
    if batch_ref is None:
        b = c.create_batch(attributes={'name': name})
    else:
        while 'id' not in batch_ref and not batch_ref.get('failed'):
            await asyncio.sleep(0.05)
        if batch_ref.get('failed'):
            return
        try:
            b = await c.get_batch(batch_ref['id'])
        except Exception as e:  # pylint: disable=broad-except
            log.add(name, 'get_batch_failed', type(e).__name__)
            return
        ctx.probe('co_updater_joined')
    jobs = []
    groups = []
    n_updates = s.rint(1, 3)
    for ui in range(n_updates):
        await asyncio.sleep(s.ticks(200))
        new_groups = []
        for _ in range(s.draw(3)):
            cands = [(None, 0)] + [(g, d) for g, d in groups if d < 2]
            parent, d = cands[s.draw(len(cands))]
            uniq = f'{name}u{ui}g{len(groups)}'
            g = (parent or b).create_job_group(attributes={'u': uniq})
            groups.append((g, d + 1))
            new_groups.append((g, uniq))
        new_jobs = []
        n_jobs = s.draw(7) if (ui > 0 or batch_ref is not None or new_groups) else s.rint(1, 6)
        for _ in range(n_jobs):
            tgt = b if (not groups or s.draw(2) == 0) else groups[s.draw(len(groups))][0]
            parents = []
            for _p in range(s.draw(3) if jobs else 0):
                p = jobs[s.draw(len(jobs))]
                if p not in parents:
                    parents.append(p)
            uniq = f'{name}u{ui}j{len(jobs)}'
            j = tgt.create_job('ubuntu:22.04', ['true'], parents=parents, always_run=s.draw(4) == 0,
                               resources={'cpu': CPUS[s.draw(3)], 'memory': 'standard', 'storage': '1Gi'},
                               attributes={'uniq': uniq})
            jobs.append(j)
            new_jobs.append((j, uniq))
        if not new_jobs and not new_groups and b.is_created:
            continue
        multi = s.draw(2) == 1
        bunch = (4000, s.rint(1, 3)) if multi else (1024 * 1024, 1024)
        log.add(name, 'submit', ui, len(new_groups), len(new_jobs), 'multi' if multi else 'fast')
        try:
            await b.submit(max_bunch_bytesize=bunch[0], max_bunch_size=bunch[1], disable_progress_bar=True)
        except asyncio.CancelledError:
            raise
        except Exception as e:  # pylint: disable=broad-except
            log.add(name, 'submit_raised', ui, type(e).__name__, getattr(e, 'status', None))
            ctx.probe('submit_raised')
            if batch_ref is None and 'id' not in st['refs'][idx]:
                st['refs'][idx]['failed'] = True
            return
        log.add(name, 'submitted', ui, b.id)
        if batch_ref is None:
            st['refs'][idx]['id'] = b.id
        st['acked'].append((b.id, [(j.job_id, u) for j, u in new_jobs], [(g.job_group_id, u) for g, u in new_groups],
                            len(new_jobs), len(new_groups)))
        if s.draw(4) == 0:
            try:
                await b.cancel()
                log.add(name, 'cancelled_batch', b.id)
            except Exception:  # pylint: disable=broad-except
                pass
    if batch_ref is None and s.draw(5) == 0:
        # the owner deletes the batch once everything is submitted: retransmitted copies of its create / update
        # requests that arrive afterwards (late_duplicate) must still be recognised by their tokens
        try:
            await b.delete()
            log.add(name, 'deleted_batch', b.id)
            ctx.probe('batch_deleted_by_owner')
        except Exception:  # pylint: disable=broad-except
            pass


def check_state(w, fail):
    X = w.sql
    for r in X("SELECT user, token, COUNT(*) AS n FROM batches GROUP BY user, token HAVING n > 1"):
        fail('C09/duplicate_batch', f'{r["n"]} batches for user {r["user"]} and one create token')
    for r in X("SELECT batch_id, token, COUNT(*) AS n FROM batch_updates GROUP BY batch_id, token HAVING n > 1"):
        fail('C09/duplicate_update', f'{r["n"]} updates of batch {r["batch_id"]} for one update token')
    ups = X("SELECT batch_id, update_id, start_job_id, n_jobs, start_job_group_id, n_job_groups, committed "
            "FROM batch_updates ORDER BY batch_id, update_id")
    prev = {}
    for u in ups:
        b = u['batch_id']
        p = prev.get(b)
        exp_j = 1 if p is None else p['start_job_id'] + p['n_jobs']
        exp_g = 1 if p is None else p['start_job_group_id'] + p['n_job_groups']
        exp_u = 1 if p is None else p['update_id'] + 1
        if u['update_id'] != exp_u:
            fail('C09/update_ids_not_consecutive', f'batch {b}: update {u["update_id"]} after {p and p["update_id"]}')
        if u['start_job_id'] != exp_j:
            fail('C09/job_id_ranges_not_contiguous', f'batch {b} update {u["update_id"]}: start_job_id '
                 f'{u["start_job_id"]} != {exp_j}')
        if u['start_job_group_id'] != exp_g:
            fail('C09/group_id_ranges_not_contiguous', f'batch {b} update {u["update_id"]}: start_job_group_id '
                 f'{u["start_job_group_id"]} != {exp_g}')
        prev[b] = u
    by_upd = {(u['batch_id'], u['update_id']): u for u in ups}
    cnt = {}
    for j in X("SELECT batch_id, job_id, update_id FROM jobs"):
        u = by_upd.get((j['batch_id'], j['update_id']))
        if u is None:
            fail('C09/job_without_update', f'job {(j["batch_id"], j["job_id"])}')
            continue
        if not u['start_job_id'] <= j['job_id'] < u['start_job_id'] + u['n_jobs']:
            fail('C09/job_outside_reserved_range', f'job {(j["batch_id"], j["job_id"])} of update {j["update_id"]} '
                 f'outside [{u["start_job_id"]}, {u["start_job_id"] + u["n_jobs"]})')
        cnt[(j['batch_id'], j['update_id'])] = cnt.get((j['batch_id'], j['update_id']), 0) + 1
    for k, u in by_upd.items():
        n = cnt.get(k, 0)
        if n > u['n_jobs'] or (u['committed'] and n != u['n_jobs']):
            fail('C09/job_count_differs_from_announced', f'update {k}: {n} job rows, announced {u["n_jobs"]}, '
                 f'committed={u["committed"]}')
    for r in X("SELECT `value`, COUNT(*) AS n FROM job_attributes WHERE `key` = 'uniq' GROUP BY `value` HAVING n > 1"):
        fail('C09/job_duplicated', f'client job {r["value"]} exists {r["n"]} times')
    for r in X("SELECT `value`, COUNT(*) AS n FROM job_group_attributes WHERE `key` = 'u' GROUP BY `value` HAVING n > 1"):
        fail('C09/job_group_duplicated', f'client job group {r["value"]} exists {r["n"]} times')


def run(ctx):
    cfg = ctx.stream('cfg')
    users = [User(1, 'u1', projects=['bp1']), User(2, 'u2', projects=['bp1'])]
    w = BatchWorld(ctx, n_tokens=(1, 2, 5, 200)[cfg.draw(4)], users=users, with_driver=False)
    st = {'acked': [], 'refs': {}}
    holder = {}

    def fail(sig, detail):
        raise Violation('C09', 'idempotence', sig, detail)

    async def main(loop):
        await w.start(loop)
        s = ctx.stream('plan')
        rate = (0.05, 0.1, 0.15)[s.draw(3)]
        w.net.rates.update({k: rate for k in ('drop_request', 'drop_response', 'duplicate', 'late_duplicate')
                            if s.draw(3)})
        if s.draw(2):
            w.db_fault_rates = {k: v for k, v in {'deadlock': 0.01, 'lost_conn': 0.005, 'lost_conn_after': 0.005,
                                                  'lost_conn_after_commit': 0.01, 'lost_conn_before_commit': 0.01}.items()
                                if s.draw(2)}
        o = Oracles(w, ['C09'])
        o.alias = {'C01': 'C09', 'C06': 'C09', 'C04': 'C09'}
        holder['o'] = o
        w.on_commit.append(o.on_commit)
        w.on_commit.append(lambda sess, j: check_state(w, fail) if any(
            t.lname in ('batches', 'batch_updates', 'jobs', 'job_groups') for _o, t, _r, _a, _b in j) else None)
        loop.step_hooks.append(o.raise_pending)
        tasks = []
        n_sub = cfg.rint(1, 2)
        for i in range(n_sub):
            st['refs'][i] = {}
            tasks.append(asyncio.create_task(submitter(ctx, w, i, users[i % 2], st), name=f'sub{i}'))
        if cfg.draw(2):
            tasks.append(asyncio.create_task(submitter(ctx, w, 10, users[0], st, batch_ref=st['refs'][0]), name='co'))
        crash_task = None
        if s.draw(3) == 0:
            # the front-end process dies once or twice while submissions are in flight (mid-transaction, between the
            # commit and the response, between two requests of one submission) and a new one boots a little later
            async def crasher():
                c = ctx.stream('crasher')
                for _ in range(c.rint(1, 2)):
                    await asyncio.sleep(c.ticks(6000))
                    w.crash_front_end()
                    await asyncio.sleep(c.rint(1, 10))
                    await w.restart_front_end()
            crash_task = asyncio.create_task(crasher(), name='crasher')
        done, pending = await asyncio.wait(tasks, timeout=3000)
        if crash_task is not None:
            await crash_task
        for t in pending:
            t.cancel()
        for t in done:
            if t.exception() is not None:
                raise t.exception()
        w.faults_on = False
        w.net.faults_enabled = False
        await asyncio.sleep(30)  # duplicated / in-flight requests finish
        check_state(w, fail)
        o.raise_pending()
        # acknowledged submissions: client ids == server ids
        for bid, jobs, groups, nj, ng in st['acked']:
            for jid, uniq in jobs:
                rows = w.sql("SELECT batch_id, job_id FROM job_attributes WHERE `key` = 'uniq' AND `value` = %s", (uniq,))
                if len(rows) != 1 or rows[0]['batch_id'] != bid or rows[0]['job_id'] != jid:
                    fail('C09/client_job_id_differs_from_server', f'client thinks {uniq} is job {(bid, jid)}; server has '
                         f'{[(r["batch_id"], r["job_id"]) for r in rows]}')
                r2 = w.sql("SELECT committed FROM jobs INNER JOIN batch_updates ON jobs.batch_id = batch_updates.batch_id "
                           "AND jobs.update_id = batch_updates.update_id WHERE jobs.batch_id = %s AND jobs.job_id = %s",
                           (bid, jid))
                if not r2 or not r2[0]['committed']:
                    fail('C09/acknowledged_update_not_committed', f'submit() returned but job {(bid, jid)} is not committed')
            for gid, uniq in groups:
                rows = w.sql("SELECT batch_id, job_group_id FROM job_group_attributes WHERE `key` = 'u' AND `value` = %s",
                             (uniq,))
                if len(rows) != 1 or rows[0]['batch_id'] != bid or rows[0]['job_group_id'] != gid:
                    fail('C09/client_group_id_differs_from_server', f'client thinks {uniq} is group {(bid, gid)}; server '
                         f'has {[(r["batch_id"], r["job_group_id"]) for r in rows]}')
        ctx.extra['acked_updates'] = len(st['acked'])

    try:
        _r, outcome = simulate(ctx, main, max_steps=2_000_000, max_time=5000.0)
        if 'o' in holder:
            holder['o'].raise_pending()
        if outcome != 'done':
            raise RuntimeError(f'simulation ended with {outcome}')
    finally:
        w.stop()


def nontrivial(r):
    return bool(r['faults']) and r['n_events'] >= 3
