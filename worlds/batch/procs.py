"""batchsim scenario "procs": protocol-level fuzz of the batch database layer.

No driver and no workers run.  The real front end (through the real client library / raw REST) creates realistic
batches; then a seeded generator plays "all histories of driver and worker messages" -- duplicated, reordered, late and
stale-attempt messages included -- against the REAL stored procedures and triggers in minimysql.  Every message is ONE
database call issued through a real `gear.Database` with the SQL text and argument order of batch/driver/job.py,
instance.py, main.py (billing update) and canceller.py, so gear's own retry logic re-issues calls when the simulated
database injects deadlocks / lost connections / lost acknowledgements.  The ground-truth oracles of
worlds/batch/oracles.py run after every commit (params['props'] selects which properties may raise).

The generator keeps a small model (instances, attempts, what was sent / answered) and only emits LEGAL messages (see
ASSUMPTIONS).  A message is *selected* against the committed database state exactly like the driver loop that issues it
(scheduler: committed Ready runnable job; canceller: the three canceller SELECTs and the orphaned-attempt sweep) and is
then delivered at once, later (in flight while other messages overtake it), twice, or again much later.

Sensitivity (seeded changes of /verif/seeded, `tools/run_seeded.py <name> <check>`), all caught within 150 runs:
  C04-2  unschedule_job without the job-state guard        -> C04/terminal_state_left/{Success,Failed,Error}_to_Ready
  C10-1  unschedule_job reads the current attempt's end    -> C10/free_cores_mismatch/active
  C39-2  unschedule_job re-queues on any open attempt      -> C39/requeued_with_open_current_attempt (props=['C39'])

Observation on the unchanged tree (params['late_activation_timeout'], off in the registry; replay
replays/C03-C03_billed_decreased-3582.json): mark_job_creating on a pending job-private instance, the group is
cancelled, the canceller marks the Creating job Cancelled (attempt ends, reason 'cancelled', billed = end - start),
then the instance monitor's deactivate_instance(..., 'activation_timeout', ...) arrives (driver restarted between the
canceller's two calls, or both loops acted at the same moment).  attempts_before_update clears start_time because the
REPORT says activation_timeout, then restores the earlier reason, so the stored row keeps reason 'cancelled' with
start_time NULL and its billed time drops to 0.  The C03 oracle identifies activation-timeout reports by the stored
reason and raises C03/billed_decreased; the property text exempts a report that "marks an activation timeout (which
bills nothing)".  Until the oracle can see the report's reason the scenario does not play that one combination.
"""
import asyncio
import base64
import json

from worlds.batch.oracles import TERMINAL, Oracles
from worlds.batch.world import BatchWorld, User
from worlds.common import simulate

NAME = 'batch.procs'
NO_SHRINK = ('entropy',)
WALL_LIMIT = 60
RULE = ('1-2 batches by the real client (2-8 jobs, random parents, always-run flags, job groups nested <= 2, 1-2 '
        'committed updates, sometimes a further update left uncommitted through raw REST, cpu 0.25-2, a fraction '
        'job-private); 1-4 instances (<= 6 with later creations) inserted with the statements of Instance.create, cores '
        '1000-4000 mcpu; then 10-60 generated messages (activate / deactivate / mark_instance_deleted, schedule_job, '
        'mark_job_creating, mark_job_started, mark_job_complete as worker and as canceller, unschedule_job, billing '
        'heartbeat, REST cancel of batch / job group, REST commit of the open update), each one database call; immediate '
        'duplicate p~0.15, replay of an earlier message p~0.1, deferred (overtaken) delivery p~0.25, background delivery '
        'p~0.25; per-instance skewed worker clocks with jumps; database faults (deadlock, lost connection before / after '
        'statement / around commit) in 1 run of 3.  non-trivial run = at least one duplicated, stale or reordered '
        'message was delivered')
COMPONENTS = {
    'batch/sql routines and triggers (latest definitions in migration order)': 'real text, executed by minimysql',
    'gear.database (Database, transaction, retry_transient_mysql_errors, check_call_procedure)': 'real',
    'batch.front_end.front_end (create / update / commit / cancel handlers)': 'real',
    'hailtop.batch_client.aioclient (batch construction)': 'real',
    'batch driver (scheduler, canceller, instance monitors, request handlers)': 'NOT run: replaced by the message '
        'generator, which issues the statements of job.py / instance.py / main.py / canceller.py verbatim',
    'batch worker': 'NOT run: worker reports are generated (per-attempt start / end / outcome fixed at first report)',
    'MySQL server': 'minimysql interpreter (serial transactions)',
    'aiomysql/pymysql': 'fake driver with seeded latency and injected errors',
    'network (client <-> front end)': 'SimNet without faults',
}
ASSUMPTIONS = [
    'minimysql implements the MySQL semantics the batch SQL relies on; transactions are serial (DESIGN.md 4)',
    'legal history: an attempt id is used with exactly one (job, instance) pair and every message about an attempt '
    'names the instance the attempt was placed on',
    'legal history: schedule_job / mark_job_creating are selected like the scheduler does (committed update, job Ready, '
    'always_run or not cancelled; job-private: no attempt on a live instance; pool instance activated earlier) but may '
    'be delivered after the job stopped being Ready, was cancelled, or the instance was deactivated / deleted; a '
    'placement with an already used attempt id only occurs as an immediate re-issue (gear retry) or, for job-private '
    'attempts, as the schedule_job that follows mark_job_creating once the instance is active and the job Creating',
    'legal history: a job-private instance hosts one attempt; mark_job_creating names a job-private instance that has '
    'no attempt yet (any instance state: the worker may activate before the call is delivered)',
    'legal history: worker reports (job_started, job_complete, billing update) exist only for attempts whose placement '
    'was sent to the worker and whose instance answered an activation with rc=0 earlier; they may arrive in any order, '
    'duplicated, never (no job_started), after the job moved to a newer attempt, after unschedule, after the instance '
    'was deactivated / deleted; start, end and outcome of an attempt are fixed when the worker first reports them',
    'legal history: the worker posts the job to the worker BEFORE the schedule_job call, so worker reports may precede '
    'the call and the call may be lost entirely (driver stopped in between): the job is then placed again',
    "legal history: mark_job_complete(... 'Cancelled' ...) and unschedule_job are selected with the canceller's own "
    'conditions (ready: Ready, not always_run, job flag or group / ancestor cancelled; creating / running: state, not '
    "always_run, job flag clear, group 'running' and cancelled, ANY attempt of the job as the canceller's join allows; "
    'orphan sweep: started, open, not the current attempt or job not Creating / Running, instance active); delivery may '
    'be late',
    'legal history: mark_instance_deleted only after a deactivate_instance call for the instance returned; '
    "deactivate reason 'activation_timeout' only for instances that never answered an activation with rc=0; "
    "'deactivated' only for activated instances; 'preempted' carries an event timestamp up to 20 s in the past",
    'worker timestamps come from per-instance clocks: driver clock + skew (|skew| <= 5 s at boot, jumps of <= 3 s), so '
    'an end time may precede an earlier report or the start time',
    "RESTRICTION (not a legality rule): unless params['late_activation_timeout'] is set, deactivate_instance(..., "
    "'activation_timeout', ...) is only played, undelayed, on an instance none of whose attempts has ended.  The legal "
    "history 'attempt ended (canceller marks the Creating job Cancelled / a late worker report), then the activation "
    "timeout of its instance' makes attempts_before_update clear start_time while keeping the earlier reason; the C03 "
    "oracle recognises an activation-timeout report by the stored reason and reports C03/billed_decreased for it, "
    'although the property text exempts reports that mark an activation timeout (see the module docstring)',
]

CPUS = ['0.25', '0.5', '1', '1', '2']
ALPHA = 'abcdefghijklmnopqrstuvwxyz0123456789'

SQL_SCHEDULE_JOB = """
CALL schedule_job(%s, %s, %s, %s);
"""
SQL_MARK_JOB_CREATING = """
CALL mark_job_creating(%s, %s, %s, %s, %s);
"""
SQL_MARK_JOB_STARTED = """
CALL mark_job_started(%s, %s, %s, %s, %s);
"""
SQL_MARK_JOB_COMPLETE = 'CALL mark_job_complete(%s, %s, %s, %s, %s, %s, %s, %s, %s, %s);'
SQL_UNSCHEDULE_JOB = 'CALL unschedule_job(%s, %s, %s, %s, %s, %s);'
SQL_ACTIVATE = 'CALL activate_instance(%s, %s, %s);'
SQL_DEACTIVATE = 'CALL deactivate_instance(%s, %s, %s);'
SQL_MARK_DELETED = 'CALL mark_instance_deleted(%s);'
SQL_INSERT_INSTANCE = """
INSERT INTO instances (name, state, activation_token, token, cores_mcpu,
  time_created, last_updated, version, location, inst_coll, machine_type, preemptible, instance_config)
VALUES (%s, %s, %s, %s, %s, %s, %s, %s, %s, %s, %s, %s, %s);
"""
SQL_INSERT_FREE_CORES = """
INSERT INTO instances_free_cores_mcpu (name, free_cores_mcpu)
VALUES (%s, %s);
"""

KINDS = ('schedule', 'started', 'complete', 'heartbeat', 'unschedule', 'cancel_complete', 'activate', 'deactivate',
         'mark_deleted', 'creating', 'schedule_jp', 'cancel', 'commit', 'create_instance')
WEIGHTS = (16, 9, 12, 5, 12, 7, 6, 2, 2, 7, 8, 2, 2, 1)
FALLBACK = ('schedule', 'creating', 'schedule_jp', 'activate', 'unschedule', 'cancel_complete', 'complete', 'started',
            'heartbeat', 'commit', 'create_instance', 'cancel', 'deactivate', 'mark_deleted')
REPLAYABLE = ('mark_job_started', 'mark_job_complete', 'billing_update', 'unschedule_job', 'cancel_complete',
              'activate_instance', 'deactivate_instance', 'mark_instance_deleted')


class Inst:
    def __init__(self, idx, name, coll, cores, skew):
        self.idx = idx
        self.name = name
        self.coll = coll
        self.cores = cores
        self.skew = skew
        self.activated = False  # an activation was answered with rc = 0 (the worker holds a token)
        self.act_sent = 0
        self.deact_sent = 0
        self.deact_returned = False
        self.attempt = None  # job-private: the one attempt this instance was created for


class Att:
    def __init__(self, aid, job, group, inst, jp):
        self.id = aid
        self.job = job  # (batch_id, job_id)
        self.group = group
        self.inst = inst  # Inst
        self.jp = jp
        self.w_start = None  # worker-side facts, fixed at the first report
        self.w_end = None
        self.w_state = None
        self.gen = set()  # message kinds generated for it
        self.done = set()  # message kinds whose database call returned


def run(ctx):
    props = ctx.params.get('props') or ['C03', 'C04', 'C10']
    late_timeout = bool(ctx.params.get('late_activation_timeout'))
    cfg = ctx.stream('cfg')
    users = [User(1, 'u1', projects=['bp1'])]
    w = BatchWorld(ctx, n_tokens=(1, 3, 200)[cfg.draw(3)], users=users, with_driver=False)
    user = users[0]
    holder = {}

    async def main(loop):
        await w.start(loop)
        log = ctx.log
        o = Oracles(w, props)
        holder['o'] = o
        w.on_commit.append(o.on_commit)
        w.server.on_sql_error = o.sql_error
        loop.step_hooks.append(o.raise_pending)

        m = w.mods
        from gear.database import CallError, transaction
        from hailtop.utils import time_msecs
        from batch.globals import INSTANCE_VERSION
        from minimysql import driver as dbdriver

        db = m.gear.Database()
        await db.async_init()

        http = w.raw_session(user)
        base = m.deploy_config.base_url('batch')
        hdr = {'Authorization': f'Bearer {user.token}'}

        async def rest(method, path, body=None):
            for _ in range(8):
                try:
                    resp = await http.request(method, base + path, json=body, headers=dict(hdr))
                    txt = await resp.text()
                    try:
                        js = json.loads(txt) if txt else None
                    except ValueError:
                        js = None
                    return resp.status, js
                except asyncio.CancelledError:
                    raise
                except Exception:  # pylint: disable=broad-except
                    await asyncio.sleep(0.2)
            return 599, None

        # ---- 1. batches: real client library; optionally one more update left open through raw REST --------
        s = ctx.stream('base')
        c = w.batch_client(user, 'bp1')
        batch_ids = []
        open_updates = []  # [batch_id, update_id, committed?]
        n_jp_jobs = 0
        for bi in range(s.rint(1, 2)):
            b = c.create_batch(attributes={'name': f'p{bi}'})
            jobs, groups = [], []
            for ui in range(s.rint(1, 2)):
                for _ in range(s.draw(3) if ui == 0 else s.draw(2)):
                    cands = [(None, 0)] + [(g, d) for g, d in groups if d < 2]
                    parent, d = cands[s.draw(len(cands))]
                    groups.append(((parent or b).create_job_group(attributes={'u': f'g{len(groups)}'}), d + 1))
                for _ in range(s.rint(2, 6) if ui == 0 else s.rint(1, 2)):
                    tgt = b if (not groups or s.draw(3) == 0) else groups[s.draw(len(groups))][0]
                    parents = []
                    for _p in range(s.draw(3) if jobs else 0):
                        p = jobs[s.draw(len(jobs))]
                        if p not in parents:
                            parents.append(p)
                    if s.draw(5) == 4:
                        res = {'machine_type': 'n1-standard-1', 'storage': '1Gi', 'preemptible': bool(s.draw(2))}
                        n_jp_jobs += 1
                    else:
                        res = {'cpu': CPUS[s.draw(len(CPUS))], 'memory': 'standard', 'storage': '1Gi'}
                    jobs.append(tgt.create_job('ubuntu:22.04', ['true'], parents=parents, always_run=s.draw(5) == 4,
                                               resources=res, attributes={'uniq': f'p{bi}j{len(jobs)}'}))
                await b.submit(disable_progress_bar=True)
            bid = b.id
            batch_ids.append(bid)
            log.add('base', 'submitted', bid, len(jobs), len(groups))
            if s.draw(5) >= 3:
                n_new = s.rint(1, 2)
                stt, js = await rest('POST', f'/api/v1alpha/batches/{bid}/updates/create',
                                     {'n_jobs': n_new, 'n_job_groups': 0, 'token': f'open{bi}'})
                if stt == 200:
                    uid = js['update_id']
                    gids = [0] + [g.job_group_id for g, _d in groups]
                    specs = []
                    for ji in range(1, n_new + 1):
                        d = {'always_run': s.draw(5) == 4, 'n_max_attempts': 20, 'always_copy_output': False,
                             'job_id': ji, 'in_update_parent_ids': [], 'absolute_parent_ids': [],
                             'absolute_job_group_id': gids[s.draw(len(gids))],
                             'process': {'command': ['true'], 'image': 'ubuntu:22.04', 'type': 'docker'},
                             'resources': {'cpu': CPUS[s.draw(len(CPUS))], 'memory': 'standard', 'storage': '1Gi'}}
                        if s.draw(2):
                            d['absolute_parent_ids'] = sorted({s.rint(1, len(jobs)) for _ in range(s.rint(1, 2))})
                        elif ji > 1 and s.draw(2):
                            d['in_update_parent_ids'] = [1]
                        specs.append(d)
                    stt, _ = await rest('POST', f'/api/v1alpha/batches/{bid}/updates/{uid}/jobs/create', specs)
                    log.add('base', 'open_update', bid, uid, n_new, stt)
                    if stt == 200:
                        open_updates.append([bid, uid, False])
                        ctx.probe('open_update')

        # ---- model + committed-state views (raw rows, like the oracles) ------------------------------------------
        insts = []  # Inst
        atts = []  # Att
        used_ids = set()
        history = []  # delivered, replayable messages
        in_flight = []  # selected, not yet delivered
        tasks = []
        n = {'messages': 0, 'cancels': 0, 'delivered': 0}
        g = ctx.stream('gen')
        sd = ctx.stream('dup')
        st_ = ctx.stream('time')
        sc = ctx.stream('clock')
        sid = ctx.stream('ids')

        def view():
            """committed state as the driver's SELECTs would see it."""
            committed, ancestors, _explicitly, eff, _batch = o.snapshot()
            J, A, I, G = o.jobs, o.attempts, o.inst, o.jg
            jobs = {}
            for r in J.rows():
                key = (r[J.col('batch_id')], r[J.col('job_id')])
                jobs[key] = {
                    'key': key, 'state': r[J.col('state')], 'attempt_id': r[J.col('attempt_id')],
                    'group': r[J.col('job_group_id')], 'always_run': bool(r[J.col('always_run')]),
                    'cancelled': bool(r[J.col('cancelled')]), 'inst_coll': r[J.col('inst_coll')],
                    'committed': (key[0], r[J.col('update_id')]) in committed,
                    'group_cancelled': eff.get((key[0], r[J.col('job_group_id')]), False),
                }
            attempts = {}
            for r in A.rows():
                attempts[(r[A.col('batch_id')], r[A.col('job_id')], r[A.col('attempt_id')])] = {
                    'instance_name': r[A.col('instance_name')], 'start_time': r[A.col('start_time')],
                    'end_time': r[A.col('end_time')]}
            inst_state = {r[I.col('name')]: r[I.col('state')] for r in I.rows()}
            group_state = {(r[G.col('batch_id')], r[G.col('job_group_id')]): r[G.col('state')] for r in G.rows()}
            return {'jobs': jobs, 'attempts': attempts, 'inst_state': inst_state, 'group_state': group_state,
                    'eff': eff}

        def pick(stream, xs):
            return xs[stream.draw(len(xs))]

        def new_attempt_id():
            aid = ''.join(ALPHA[sid.draw(len(ALPHA))] for _ in range(6))
            k = 0
            while aid in used_ids:
                k += 1
                aid = f'{aid[:3]}{k:03d}'
            used_ids.add(aid)
            return aid

        def worker_now(inst):
            if sc.draw(10) == 9:
                inst.skew += sc.rint(-3000, 3000)
                ctx.fault('clock.jump')
            return time_msecs() + inst.skew

        by_id = {}

        # ---- execution: ONE database call per message, as the driver issues it ---------------------------------
        async def call(fetch, sql, args, name=None):
            try:
                return await fetch(sql, args, name) if name is not None else await fetch(sql, args)
            except asyncio.CancelledError:
                raise
            except CallError as e:
                ctx.probe('call_error')
                return {'rc': e.rv.get('rc'), 'call_error': True}
            except dbdriver.Error as e:
                # a statement failed inside the server (sql_error hook recorded it): the driver logs and goes on
                ctx.probe('call_raised')
                log.add('gen', 'raised', type(e).__name__, e.args[0] if e.args else None)
                return None

        def rc_of(rv):
            return None if rv is None else rv.get('rc')

        async def deliver(msg, how):
            k = msg['k']
            n['delivered'] += 1
            if how != 'first':
                ctx.probe('dup_message')
            a = msg.get('att')
            v = view()
            if a is not None and k in ('mark_job_started', 'mark_job_complete'):
                j = v['jobs'].get(a.job)
                if j is not None and (j['attempt_id'] != a.id or j['state'] in TERMINAL) and \
                        (a.job + (a.id,)) in v['attempts']:
                    ctx.probe('stale_report')
            if k == 'schedule_job':
                if any(key[:2] == a.job and key[2] != a.id and x['end_time'] is None
                       for key, x in v['attempts'].items()):
                    ctx.probe('double_placement')
                rv = await call(db.execute_and_fetchone, SQL_SCHEDULE_JOB, (a.job[0], a.job[1], a.id, a.inst.name),
                                'schedule_job')
                a.done.add('placed')
                log.add('gen', k, a.job[0], a.job[1], a.id, a.inst.idx, how, rc_of(rv))
            elif k == 'mark_job_creating':
                if any(key[:2] == a.job and key[2] != a.id and x['end_time'] is None
                       for key, x in v['attempts'].items()):
                    ctx.probe('double_placement')
                rv = await call(db.execute_and_fetchone, SQL_MARK_JOB_CREATING,
                                (a.job[0], a.job[1], a.id, a.inst.name, time_msecs()), 'mark_job_creating')
                a.done.add('creating')
                log.add('gen', k, a.job[0], a.job[1], a.id, a.inst.idx, how, rc_of(rv))
            elif k == 'mark_job_started':
                if 'complete' in a.done:
                    ctx.probe('started_after_complete')
                rv = await call(db.execute_and_fetchone, SQL_MARK_JOB_STARTED,
                                (a.job[0], a.job[1], a.id, a.inst.name, a.w_start), 'mark_job_started')
                a.done.add('started')
                log.add('gen', k, a.job[0], a.job[1], a.id, a.inst.idx, how, rc_of(rv))
            elif k == 'mark_job_complete':
                if 'unschedule' in a.done:
                    ctx.probe('complete_after_unschedule')
                if v['inst_state'].get(a.inst.name) in ('inactive', 'deleted'):
                    ctx.probe('report_after_deactivate')
                status = {'state': a.w_state, 'worker': a.inst.name, 'container_statuses': {},
                          'start_time': a.w_start, 'end_time': a.w_end}
                rv = await call(db.execute_and_fetchone, SQL_MARK_JOB_COMPLETE,
                                (a.job[0], a.job[1], a.id, a.inst.name, a.w_state, json.dumps(status), a.w_start,
                                 a.w_end, 'completed', time_msecs()), 'mark_job_complete')
                a.done.add('complete')
                log.add('gen', k, a.job[0], a.job[1], a.id, a.inst.idx, a.w_state, a.w_end - a.w_start, how, rc_of(rv))
            elif k == 'cancel_complete':
                # the canceller: Ready job (no attempt) or Creating job (one of its attempts, end_time = now)
                if a is None:
                    b_, j_ = msg['job']
                    rv = await call(db.execute_and_fetchone, SQL_MARK_JOB_COMPLETE,
                                    (b_, j_, None, None, 'Cancelled', None, None, None, 'cancelled', time_msecs()),
                                    'mark_job_complete')
                    log.add('gen', 'cancel_ready', b_, j_, how, rc_of(rv))
                else:
                    now = time_msecs()
                    rv = await call(db.execute_and_fetchone, SQL_MARK_JOB_COMPLETE,
                                    (a.job[0], a.job[1], a.id, a.inst.name, 'Cancelled', None, None, now, 'cancelled',
                                     now), 'mark_job_complete')
                    a.done.add('cancel_complete')
                    log.add('gen', 'cancel_creating', a.job[0], a.job[1], a.id, a.inst.idx, how, rc_of(rv))
            elif k == 'unschedule_job':
                if 'complete' in a.done:
                    ctx.probe('unschedule_after_complete')
                rv = await call(db.execute_and_fetchone, SQL_UNSCHEDULE_JOB,
                                (a.job[0], a.job[1], a.id, a.inst.name, time_msecs(), 'cancelled'))
                a.done.add('unschedule')
                log.add('gen', k, a.job[0], a.job[1], a.id, a.inst.idx, msg['why'], how, rc_of(rv))
            elif k == 'billing_update':
                where, args = [], [msg['ts']]
                for x in msg['atts']:
                    where.append('(batch_id = %s AND job_id = %s AND attempt_id = %s)')
                    args += [x.job[0], x.job[1], x.id]
                    j = v['jobs'].get(x.job)
                    if j is not None and j['attempt_id'] != x.id and (x.job + (x.id,)) in v['attempts']:
                        ctx.probe('stale_report')
                where_query = f'WHERE {" OR ".join(where)}'
                rv = await call(db.execute_update, f"""
UPDATE attempts
SET rollup_time = %s
{where_query};
""", args)
                log.add('gen', k, msg['inst'].idx, len(msg['atts']), how, rv if isinstance(rv, int) else None)
            elif k == 'activate_instance':
                i = msg['inst']
                rv = await call(db.check_call_procedure, SQL_ACTIVATE, (i.name, f'10.1.0.{i.idx + 1}', time_msecs()),
                                'activate_instance')
                if rv is not None and rv.get('rc') == 0:
                    i.activated = True
                log.add('gen', k, i.idx, how, rc_of(rv))
            elif k == 'deactivate_instance':
                i = msg['inst']
                if any(x['instance_name'] == i.name and x['end_time'] is None for x in v['attempts'].values()) and \
                        v['inst_state'].get(i.name) in ('pending', 'active'):
                    ctx.probe('deactivate_with_open_attempts')
                ts = time_msecs() - msg['age']
                rv = await call(db.execute_and_fetchone, SQL_DEACTIVATE, (i.name, msg['reason'], ts),
                                'deactivate_instance')
                i.deact_returned = True
                log.add('gen', k, i.idx, msg['reason'], how, rc_of(rv))
            elif k == 'mark_instance_deleted':
                i = msg['inst']
                rv = await call(db.execute_and_fetchone, SQL_MARK_DELETED, (i.name,))
                log.add('gen', k, i.idx, how, rc_of(rv))
            elif k == 'cancel':
                b_, g_ = msg['group']
                if g_ is None:
                    stt, _ = await rest('PATCH', f'/api/v1alpha/batches/{b_}/cancel')
                else:
                    stt, _ = await rest('PATCH', f'/api/v1alpha/batches/{b_}/job-groups/{g_}/cancel')
                log.add('gen', k, b_, g_, how, stt)
            elif k == 'commit':
                u = msg['update']
                stt, _ = await rest('PATCH', f'/api/v1alpha/batches/{u[0]}/updates/{u[1]}/commit')
                if stt == 200:
                    u[2] = True
                log.add('gen', k, u[0], u[1], how, stt)
            else:
                raise AssertionError(k)
            if how == 'first' and k in REPLAYABLE:
                history.append(msg)

        async def create_instance(s_):
            """the two statements of Instance.create in one transaction."""
            idx = len(insts)
            jp = n_jp_jobs > 0 and s_.draw(2) == 1
            cores = 1000 if jp else 1000 * s_.rint(1, 4)
            name = f'{"jp" if jp else "pool"}-i{idx}'
            skew = s_.rint(-5000, 5000) if s_.draw(2) else 0
            inst = Inst(idx, name, 'job-private' if jp else 'standard', cores, skew)
            now = time_msecs()
            config = base64.b64encode(json.dumps({'sim': True, 'cores': cores // 1000}).encode()).decode()

            @transaction(db)
            async def insert(tx):
                await tx.just_execute(SQL_INSERT_INSTANCE,
                                      (name, 'pending', f'atok{idx}', f'tok{idx}', cores, now, now, INSTANCE_VERSION,
                                       'us-central1-a', inst.coll, 'n1-standard-1' if jp else f'n1-standard-{cores // 1000}',
                                       not jp or bool(s_.draw(2)), config))
                await tx.just_execute(SQL_INSERT_FREE_CORES, (name, cores))
            try:
                await insert()
            except dbdriver.IntegrityError as e:
                # the commit was acknowledged late (injected lost connection after commit): gear's transaction retry
                # ran the INSERT again and met its own row (1062).  The instance exists, as it would for the driver.
                if not (e.args and e.args[0] == 1062 and w.sql('SELECT 1 AS x FROM instances WHERE name = %s', (name,))):
                    raise
                ctx.probe('instance_insert_reissued_after_commit')
            insts.append(inst)
            log.add('gen', 'create_instance', idx, inst.coll, cores)
            return inst

        # ---- 2. instances -----------------------------------------------------------------------------------------
        si = ctx.stream('inst')
        boot = []
        for _ in range(si.rint(1, 4)):
            inst = await create_instance(si)
            if si.draw(4) != 3:
                boot.append(inst)

        # ---- 4. database faults (1 run in 3); calls go through gear.database, whose retry loop re-issues them ----
        plan = ctx.stream('plan')
        if plan.draw(3) == 2:
            rates = {'deadlock': 0.004, 'lost_conn': 0.002, 'lost_conn_after': 0.002, 'lost_conn_after_commit': 0.004,
                     'lost_conn_before_commit': 0.004}
            w.db_fault_rates = {k: v for k, v in rates.items() if plan.draw(2)} or {'lost_conn_after_commit': 0.004}
            ctx.probe('db_faults_on')

        # ---- 3. the generator ----------------------------------------------------------------------------------------
        def runnable(j):
            return j['committed'] and j['state'] == 'Ready' and (j['always_run'] or not (j['cancelled'] or
                                                                                        j['group_cancelled']))

        def worker_atts(v):
            """attempts a worker holds: placement sent and the instance holds an activation token."""
            return [a for a in atts if 'placed' in a.gen and a.inst.activated]

        def ensure_started(a):
            # the worker starts the job shortly after it received it
            if a.w_start is None:
                a.w_start = worker_now(a.inst) + sc.rint(0, 200)

        def gen(kind, v, direct=True):
            """select like the driver loop that issues `kind`; returns a list of messages (or None)."""
            jobs = sorted(v['jobs'].values(), key=lambda j: j['key'])
            if kind == 'schedule':
                cands = [j for j in jobs if j['inst_coll'] == 'standard' and runnable(j)]
                pool = [i for i in insts if i.coll == 'standard' and i.activated]
                live = [i for i in pool if v['inst_state'].get(i.name) == 'active']
                if live and g.draw(5) != 4:
                    pool = live
                if not cands or not pool:
                    return None
                j = pick(g, cands)
                a = Att(new_attempt_id(), j['key'], j['group'], pick(g, pool), False)
                atts.append(a)
                by_id[a.id] = a
                a.gen.add('placed')
                ensure_started(a)
                if g.draw(10) == 9:
                    # the job was posted to the worker, the driver stopped before the schedule_job call
                    log.add('gen', 'schedule_call_lost', a.job[0], a.job[1], a.id, a.inst.idx)
                    ctx.probe('schedule_call_lost')
                    return []
                return [{'k': 'schedule_job', 'att': a}]
            if kind == 'creating':
                free = [i for i in insts if i.coll == 'job-private' and i.attempt is None]
                cands = []
                for j in jobs:
                    if j['inst_coll'] != 'job-private' or not runnable(j):
                        continue
                    if any(key[:2] == j['key'] and v['inst_state'].get(x['instance_name']) in ('pending', 'active')
                           for key, x in v['attempts'].items()):
                        continue
                    cands.append(j)
                if not cands or not free:
                    return None
                j = pick(g, cands)
                inst = pick(g, free)
                a = Att(new_attempt_id(), j['key'], j['group'], inst, True)
                inst.attempt = a
                atts.append(a)
                by_id[a.id] = a
                a.gen.add('creating')
                return [{'k': 'mark_job_creating', 'att': a}]
            if kind == 'schedule_jp':
                cands = []
                for a in atts:
                    j = v['jobs'].get(a.job)
                    if a.jp and 'creating' in a.done and j['state'] == 'Creating' and j['attempt_id'] == a.id and \
                            (j['always_run'] or not j['cancelled']) and a.inst.activated and \
                            v['inst_state'].get(a.inst.name) == 'active' and \
                            v['group_state'].get((a.job[0], a.group)) == 'running':
                        cands.append(a)
                if not cands:
                    return None
                a = pick(g, cands)
                a.gen.add('placed')
                ensure_started(a)
                return [{'k': 'schedule_job', 'att': a}]
            if kind == 'started':
                cands = worker_atts(v)
                fresh = [a for a in cands if 'started' not in a.gen]
                if fresh and g.draw(4) != 3:
                    cands = fresh
                elif not fresh and g.draw(4) != 3:
                    return None
                if not cands:
                    return None
                a = pick(g, cands)
                ensure_started(a)
                a.gen.add('started')
                return [{'k': 'mark_job_started', 'att': a}]
            if kind == 'complete':
                cands = worker_atts(v)
                fresh = [a for a in cands if 'complete' not in a.gen]
                if fresh and g.draw(4) != 3:
                    cands = fresh
                elif not fresh and g.draw(4) != 3:
                    return None
                if not cands:
                    return None
                a = pick(g, cands)
                return complete_of(a)
            if kind == 'heartbeat':
                cands = [i for i in insts if i.activated and any(
                    a.inst is i and 'started' in a.gen and 'complete' not in a.gen for a in atts)]
                if not cands:
                    return None
                i = pick(g, cands)
                running = [a for a in atts if a.inst is i and 'started' in a.gen and 'complete' not in a.gen]
                return [{'k': 'billing_update', 'inst': i, 'atts': running, 'ts': worker_now(i)}]
            if kind == 'unschedule':
                cands = []  # (attempt, why)
                for key, x in sorted(v['attempts'].items()):
                    a = by_id.get(key[2])
                    j = v['jobs'].get(key[:2])
                    if a is None or j is None or x['instance_name'] is None:
                        continue
                    if j['state'] == 'Running' and not j['always_run'] and not j['cancelled'] and \
                            j['group_cancelled'] and v['group_state'].get((key[0], j['group'])) == 'running':
                        cands.append((a, 'running'))
                    elif x['start_time'] is not None and x['end_time'] is None and \
                            (j['state'] not in ('Running', 'Creating') or j['attempt_id'] != key[2]) and \
                            v['inst_state'].get(x['instance_name']) == 'active':
                        cands.append((a, 'orphan'))
                if not cands:
                    return None
                a, why = pick(g, cands)
                msgs = [{'k': 'unschedule_job', 'att': a, 'why': why}]
                if 'placed' in a.gen and a.inst.activated and g.draw(5) >= 3:
                    # the worker finishes the job at about the same moment: both orders
                    other = complete_of(a)
                    msgs = msgs + other if g.draw(2) else other + msgs
                return msgs
            if kind == 'cancel_complete':
                cands = []
                for j in jobs:
                    if j['always_run']:
                        continue
                    if j['state'] == 'Ready' and (j['cancelled'] or j['group_cancelled']) and \
                            v['group_state'].get((j['key'][0], j['group'])) == 'running':
                        cands.append((j, None))
                    elif j['state'] == 'Creating' and not j['cancelled'] and j['group_cancelled'] and \
                            v['group_state'].get((j['key'][0], j['group'])) == 'running':
                        for key, x in sorted(v['attempts'].items()):
                            if key[:2] == j['key'] and key[2] in by_id:
                                cands.append((j, by_id[key[2]]))
                if not cands:
                    return None
                j, a = pick(g, cands)
                return [{'k': 'cancel_complete', 'att': a, 'job': j['key']}]
            if kind == 'activate':
                cands = [i for i in insts if not i.act_sent] or (list(insts) if direct and g.draw(3) == 2 else [])
                if not cands:
                    return None
                i = pick(g, cands)
                i.act_sent += 1
                return [{'k': 'activate_instance', 'inst': i}]
            if kind == 'deactivate':
                cands = [i for i in insts if not i.deact_sent] or (list(insts) if direct and g.draw(3) == 2 else [])
                busy = [i for i in cands if any(x['instance_name'] == i.name and x['end_time'] is None
                                                for x in v['attempts'].values())]
                if busy and g.draw(3) != 2:
                    cands = busy
                if not cands:
                    return None
                i = pick(g, cands)
                reasons = ['not_responding', 'terminated', 'preempted', 'deleted']
                if i.activated:
                    reasons.insert(0, 'deactivated')
                else:
                    reasons.append('activation_timeout')
                if i.attempt is not None and 'cancel_complete' in i.attempt.done:
                    reasons.insert(0, 'cancelled')
                reason = pick(g, reasons)
                i.deact_sent += 1
                age = g.rint(0, 20000) if reason == 'preempted' else 0
                msg = {'k': 'deactivate_instance', 'inst': i, 'reason': reason, 'age': age}
                if reason == 'activation_timeout' and not late_timeout:
                    msg['sync'] = True
                return [msg]
            if kind == 'mark_deleted':
                cands = [i for i in insts if i.deact_returned]
                if not cands:
                    return None
                return [{'k': 'mark_instance_deleted', 'inst': pick(g, cands)}]
            if kind == 'cancel':
                if n['cancels'] >= 2:
                    return None
                groups = sorted(k2 for k2, st in v['group_state'].items())
                fresh = [k2 for k2 in groups if not v['eff'].get(k2, False)]
                if fresh and g.draw(4) != 3:
                    groups = fresh
                inner = [k2 for k2 in groups if k2[1] != 0]
                if inner and g.draw(3) != 2:
                    groups = inner
                # a cancellation that meets work in progress is what the canceller's creating / running loops need
                hot = sorted({(j['key'][0], j['group']) for j in jobs if j['state'] in ('Creating', 'Running')
                              and not j['group_cancelled'] and not j['always_run']})
                if hot and g.draw(3) != 2:
                    groups = hot
                if not groups:
                    return None
                b_, g_ = pick(g, groups)
                n['cancels'] += 1
                return [{'k': 'cancel', 'group': (b_, None if (g_ == 0 and g.draw(2)) else g_)}]
            if kind == 'commit':
                cands = [u for u in open_updates if not u[2]]
                if not cands:
                    return None
                return [{'k': 'commit', 'update': pick(g, cands)}]
            if kind == 'create_instance':
                if len(insts) >= 6:
                    return None
                return [{'k': 'create_instance'}]
            raise AssertionError(kind)

        def complete_of(a):
            ensure_started(a)
            if a.w_end is None:
                a.w_end = worker_now(a.inst)
                a.w_state = ('Success', 'Success', 'Success', 'Failed', 'Error')[sc.draw(5)]
            a.gen.add('complete')
            msgs = [{'k': 'mark_job_complete', 'att': a}]
            if 'started' not in a.done and g.draw(4) == 3:
                # job_started still travelling (slow request / duplicate) when job_complete arrives
                a.gen.add('started')
                msgs.append({'k': 'mark_job_started', 'att': a})
            return msgs

        async def emit(msg):
            """deliver now, in the background (gear retries overlap with later messages), or leave it in flight."""
            if msg['k'] == 'create_instance':
                await create_instance(g)
                return
            if msg.get('sync'):
                # (see ASSUMPTIONS, last entry) an activation timeout is only played on an instance none of whose
                # attempts has ended, and nothing that could end one or activate the instance may overtake the call
                i = msg['inst']
                if tasks:
                    await asyncio.wait(tasks)
                v = view()
                if i.activated or any(x['instance_name'] == i.name and x['end_time'] is not None
                                      for x in v['attempts'].values()) or \
                        any(q.get('att') is not None and q['att'].inst is i for q in in_flight):
                    msg['reason'] = 'terminated'
                    ctx.probe('activation_timeout_replaced')
                await deliver(msg, 'first')
                return
            d = sd.draw(8)
            if d == 7 or d == 6:
                in_flight.append(msg)
                ctx.probe('deferred')
                return
            if d == 5 or d == 4:
                tasks.append(asyncio.create_task(deliver(msg, 'first'), name=f'msg{n["messages"]}'))
                return
            await deliver(msg, 'first')
            if sd.draw(20) >= 17:
                await deliver(msg, 'dup')

        n_messages = g.rint(10, 60)
        ctx.extra['planned_messages'] = n_messages
        for inst in boot:
            # most workers boot and activate before anything else happens
            n['messages'] += 1
            inst.act_sent += 1
            await asyncio.sleep(st_.ticks(3000))
            await emit({'k': 'activate_instance', 'inst': inst})
        while n['messages'] < n_messages:
            n['messages'] += 1
            await asyncio.sleep(st_.ticks(3000) if st_.draw(8) != 7 else st_.rint(5, 60))
            for t in [t for t in tasks if t.done()]:
                tasks.remove(t)
                if t.exception() is not None:
                    raise t.exception()
            r = sd.draw(20)
            if r == 19 and history:
                await deliver(pick(sd, history), 'replay')
                continue
            if r >= 15 and in_flight:
                await deliver(in_flight.pop(sd.draw(len(in_flight))), 'first')
                ctx.probe('late_delivery')
                continue
            v = view()
            if not any(i.act_sent for i in insts) and g.draw(5) != 4:
                k0 = KINDS.index('activate')
            else:
                k0 = g.weighted(list(WEIGHTS))
            msgs = gen(KINDS[k0], v)
            if msgs is None:
                # nothing to select for that loop right now: the next loop that has work runs
                for kind in FALLBACK:
                    msgs = gen(kind, v, direct=False)
                    if msgs is not None:
                        break
            for msg in msgs or []:
                await emit(msg)
        # everything still in flight arrives, in a seeded order; background deliveries finish
        while in_flight:
            await asyncio.sleep(st_.ticks(2000))
            await deliver(in_flight.pop(sd.draw(len(in_flight))), 'first')
            ctx.probe('late_delivery')
        if tasks:
            done, pending = await asyncio.wait(tasks, timeout=600)
            for t in done:
                if t.exception() is not None:
                    raise t.exception()
            if pending:
                raise RuntimeError(f'{len(pending)} database calls did not return within 600 simulated seconds')
        w.faults_on = False
        await asyncio.sleep(2)
        o.raise_pending()
        ctx.extra['messages'] = n['delivered']
        ctx.extra['commits'] = o.n_commits
        ctx.extra['attempts'] = len(atts)

    try:
        _r, outcome = simulate(ctx, main, max_steps=2_000_000, max_time=6000.0)
        if 'o' in holder:
            holder['o'].raise_pending()
        if outcome != 'done':
            raise RuntimeError(f'simulation ended with {outcome} at t={ctx.sim_time}')
    finally:
        w.stop()
    if w.fe_500:
        ctx.extra['http_500'] = w.fe_500[:3]
        ctx.probe('http_500', len(w.fe_500))


NONTRIVIAL_PROBES = ('dup_message', 'stale_report', 'complete_after_unschedule', 'unschedule_after_complete',
                     'started_after_complete', 'deactivate_with_open_attempts', 'double_placement')


def nontrivial(r):
    return any(r['probes'].get(p) for p in NONTRIVIAL_PROBES)
