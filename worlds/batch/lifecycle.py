"""batchsim main scenario: clients submit, update, cancel and read batches while the real driver schedules them on
simulated workers under network / database / worker / cloud faults; then faults stop (heal) and the system must
finish.  Serves C01-C07, C10, C39, C41 (params['props'] selects which oracles may raise; params['focus'] biases the
workload)."""
import asyncio

from simkit.core import Violation
from worlds.batch.oracles import TERMINAL, Oracles
from worlds.batch.world import BatchWorld, User
from worlds.common import simulate

NAME = 'batch.lifecycle'
NO_SHRINK = ('entropy',)
WALL_LIMIT = 120
RULE = ('1-2 users x 1-2 batches, 1-3 updates per batch, 1-7 jobs per update in random DAGs over nested job groups '
        '(depth <= 2), always-run flags, fast and multi-bunch submission, cancels of batch / arbitrary groups at seeded '
        'instants, real driver + 1 pool + job-private manager, 4-core workers; per-run swarm of fault kinds '
        '(net drop/dup, db deadlock/lost connection/ack-lost commit, worker preemption, never-activating VMs, lost '
        'job_started, duplicated and late job_complete, clock skew/jump); chaos phase then heal phase (<= 900 sim s)')
COMPONENTS = {
    'batch.front_end.front_end (handlers, _create_*, _commit_update, cancel)': 'real',
    'batch.driver.main handlers + maintenance loops, batch.driver.job, canceller, instance, instance_collection (Pool, '
    'PoolScheduler, JobPrivateInstanceManager)': 'real',
    'batch/sql routines and triggers (latest definitions in migration order)': 'real text, executed by minimysql',
    'gear.database, gear.auth, hailtop.utils retry/loops, hailtop.httpx, hailtop.batch_client.aioclient': 'real',
    'MySQL server': 'minimysql interpreter (serial transactions)',
    'aiomysql/pymysql': 'fake driver with seeded latency and injected errors',
    'network': 'SimNet (in-process, seeded delay, drop, duplicate)',
    'auth service, kubernetes, blob store, cloud VMs': 'simulator fakes',
    'batch worker': 'SimWorker protocol model (activate, job create/delete, job_started, job_complete, billing)',
    'front-end / driver application start-up': 'harness reproduction of on_startup()',
}
ASSUMPTIONS = [
    'minimysql implements the MySQL semantics the batch SQL relies on (DESIGN.md 4.2/4.4)',
    'transactions execute serially (a legal InnoDB execution); lock-order deadlocks are injected, not derived',
    'SimWorker follows the worker contract transcribed from batch/worker/worker.py',
    'pymysql error-class mapping re-implemented from pymysql 1.1.2 (package not available offline)',
]

CPUS = ['0.25', '0.5', '1', '1', '2']


def _plan(ctx, w):
    s = ctx.stream('plan')
    plan = {}
    kinds = {
        'net': s.draw(2) == 1,
        'db': s.draw(2) == 1,
        'worker': s.draw(2) == 1,
        'cloud': s.draw(2) == 1,
    }
    if kinds['net']:
        w_rates = {'drop_request': 0.03, 'drop_response': 0.03, 'duplicate': 0.03, 'cancel_handler': 0.03,
                   'slow_request': 0.03}
        plan['net'] = {k: v for k, v in w_rates.items() if s.draw(2)}
    if kinds['db']:
        rates = {'deadlock': 0.004, 'lost_conn': 0.002, 'lost_conn_after': 0.002, 'lost_conn_after_commit': 0.004,
                 'lost_conn_before_commit': 0.004, 'too_many_conn': 0.005, 'stall': 0.004,
                 'fatal': 0.0008}
        plan['db'] = {k: v for k, v in rates.items() if s.draw(2)}
    if kinds['worker']:
        rates = {'clock_skew': 0.5, 'clock_jump': 0.1, 'skip_started': 0.15, 'dup_report': 0.2, 'late_report': 0.08}
        plan['worker'] = {k: v for k, v in rates.items() if s.draw(2)}
    if kinds['cloud']:
        rates = {'never_activates': 0.15, 'preempt': 1.0, 'create_fails': 0.1}
        plan['cloud'] = {k: v for k, v in rates.items() if s.draw(2)}
    plan['crash'] = s.draw(3) == 1  # up to two crash/restarts of the driver process in this run
    plan['crash_fe'] = s.draw(4) == 1  # ... and of the front-end process
    return plan


async def client_actor(ctx, w, idx, user, st):
    """one user: builds batches with the real client library."""
    s = ctx.stream(f'client{idx}')
    c = w.batch_client(user, user.projects[0])
    log = ctx.log
    n_batches = s.rint(1, 2)
    for bi in range(n_batches):
        await asyncio.sleep(s.ticks(2000))
        b = c.create_batch(attributes={'name': f'c{idx}b{bi}'})
        jobs = []
        groups = []  # (JobGroup, depth)
        n_updates = s.rint(1, 3)
        for ui in range(n_updates):
            if ui > 0 and s.draw(3) == 0:
                # a late update: the jobs of the earlier updates have (mostly) finished -- succeeded, failed or been
                # cancelled because a parent failed -- when this update names them as parents and commits
                await asyncio.sleep(s.rint(30, 120))
                ctx.probe('late_update_after_earlier_jobs_finished')
            n_new_groups = s.draw(3) if ui < 2 else 0
            for _ in range(n_new_groups):
                cands = [(None, 0)] + [(g, d) for g, d in groups if d < 2]
                parent, d = cands[s.draw(len(cands))]
                g = (parent or b).create_job_group(attributes={'u': f'g{len(groups)}'})
                groups.append((g, d + 1))
            n_jobs = s.rint(1, 7) if (ui == 0 or s.draw(4)) else 0
            for _ in range(n_jobs):
                tgt = b if (not groups or s.draw(3) == 0) else groups[s.draw(len(groups))][0]
                k = s.draw(3) if jobs else 0
                parents = []
                for _p in range(k):
                    p = jobs[s.draw(len(jobs))]
                    if p not in parents:
                        parents.append(p)
                if s.draw(8) == 0:
                    # job-private instance (own VM, Creating state, whole-machine resources registered first)
                    res = {'machine_type': 'n1-standard-1', 'storage': '1Gi', 'preemptible': bool(s.draw(2))}
                    ctx.probe('job_private_job')
                else:
                    res = {'cpu': CPUS[s.draw(len(CPUS))], 'memory': 'standard', 'storage': '1Gi'}
                # a small attempt budget in some jobs: preemptions / lost workers then reach the "too many prior
                # attempts" path (the job must end in Error, nothing else may be touched)
                nmax = (20, 20, 20, 1, 2, 3)[s.draw(6)]
                j = tgt.create_job('ubuntu:22.04', ['true'], parents=parents, always_run=s.draw(5) == 0,
                                   resources=res, attributes={'uniq': f'c{idx}b{bi}j{len(jobs)}'},
                                   n_max_attempts=nmax)
                jobs.append(j)
            if not b._jobs and not b._job_groups and b.is_created:
                continue
            bunch = (1024 * 1024, 1024) if s.draw(3) else (s.rint(300, 3000), s.rint(1, 3))
            log.add(f'client{idx}', 'submit', bi, ui, len(b._job_groups), len(b._jobs))
            try:
                await b.submit(max_bunch_bytesize=bunch[0], max_bunch_size=bunch[1], disable_progress_bar=True)
                log.add(f'client{idx}', 'submitted', bi, ui, b.id)
                st['batches'].setdefault(b.id, {'groups': []})
            except asyncio.CancelledError:
                raise
            except Exception as e:  # pylint: disable=broad-except
                # an allowed outcome (e.g. update on a cancelled batch, exhausted retries): the client stops here
                log.add(f'client{idx}', 'submit_failed', bi, ui, type(e).__name__, getattr(e, 'status', None))
                ctx.probe('submit_failed')
                break
            # interleave cancels and reads with the next update
            for _ in range(s.draw(3)):
                # sometimes wait long enough for jobs to be running when the cancel / read arrives
                await asyncio.sleep(s.ticks(3000) if s.draw(3) else s.rint(5, 40))
                act = s.draw(6)
                try:
                    if act == 0:
                        log.add(f'client{idx}', 'cancel_batch', b.id)
                        await b.cancel()
                    elif act == 1 and groups:
                        submitted = [g for g, _d in groups if g.is_submitted]
                        if submitted:
                            g = submitted[s.draw(len(submitted))]
                            log.add(f'client{idx}', 'cancel_group', b.id, g.job_group_id)
                            await g.cancel()
                    elif act == 2:
                        stt = await b.status()
                        log.add(f'client{idx}', 'status', b.id, stt['state'], stt['n_jobs'], stt['n_completed'])
                    elif act == 3 and groups:
                        submitted = [g for g, _d in groups if g.is_submitted]
                        if submitted:
                            g = submitted[s.draw(len(submitted))]
                            stt = await g.status()
                            log.add(f'client{idx}', 'group_status', b.id, g.job_group_id, stt['state'], stt['n_jobs'])
                except asyncio.CancelledError:
                    raise
                except Exception as e:  # pylint: disable=broad-except
                    log.add(f'client{idx}', 'op_failed', type(e).__name__, getattr(e, 'status', None))
    st['clients_done'] += 1


async def legacy_actor(ctx, w, user, st):
    """an old client: deprecated endpoints (batches/create, jobs/create with absolute `parent_ids`, close)."""
    import json as _json
    s = ctx.stream('legacy')
    log = ctx.log
    http = w.raw_session(user)
    base = w.mods.deploy_config.base_url('batch')
    hdr = {'Authorization': f'Bearer {user.token}'}

    async def call(method, path, body=None):
        for _ in range(6):
            try:
                resp = await http.request(method, base + path, json=body, headers=dict(hdr))
                txt = await resp.text()
                return resp.status, (_json.loads(txt) if txt and txt[0] in '{[' else None)
            except asyncio.CancelledError:
                raise
            except Exception:  # pylint: disable=broad-except
                await asyncio.sleep(0.5)
        return 599, None
    await asyncio.sleep(s.ticks(3000))
    n = s.rint(2, 6)
    stt, js = await call('POST', '/api/v1alpha/batches/create',
                         {'billing_project': user.projects[0], 'n_jobs': n, 'token': f'legacy-{s.draw(10 ** 6)}',
                          'attributes': {'name': 'legacy'}})
    if stt != 200:
        log.add('legacy', 'create_failed', stt)
        return
    bid = js['id']
    specs = []
    modern = s.draw(2) == 1  # a REST client that writes current-format specs itself
    for i in range(1, n + 1):
        parents = sorted({s.rint(1, i - 1) for _ in range(s.draw(3))}) if i > 1 else []
        if modern:
            # in update 1 an absolute id and an in-update id name the same job: a hand-written client may mix them
            ab = [p for p in parents if s.draw(2)]
            spec = {'always_run': s.draw(5) == 0, 'n_max_attempts': 20, 'always_copy_output': False, 'job_id': i,
                    'absolute_parent_ids': ab, 'in_update_parent_ids': [p for p in parents if p not in ab],
                    'absolute_job_group_id': 0}
            if ab and len(ab) < len(parents):
                ctx.probe('raw_mixed_parent_kinds')
        else:
            spec = {'always_run': s.draw(5) == 0, 'job_id': i, 'parent_ids': parents}
        spec['process'] = {'command': ['true'], 'image': 'ubuntu:22.04', 'type': 'docker'}
        spec['resources'] = {'cpu': CPUS[s.draw(len(CPUS))], 'memory': 'standard', 'storage': '1Gi'}
        specs.append(spec)
    half = s.rint(1, n)
    for chunk in (specs[:half], specs[half:]):
        if chunk:
            stt, _ = await call('POST', f'/api/v1alpha/batches/{bid}/jobs/create', chunk)
            log.add('legacy', 'jobs_create', bid, len(chunk), stt)
            if stt != 200:
                return
    stt, _ = await call('PATCH', f'/api/v1alpha/batches/{bid}/close')
    log.add('legacy', 'close', bid, stt)
    ctx.probe('legacy_batch_closed' if stt == 200 else 'legacy_close_failed')
    if stt != 200:
        # (the deprecated close endpoint of this tree always answers 500: its query names a column `deleted` that
        # job_groups does not have; a REST client can still commit update 1 through the current endpoint)
        stt, _ = await call('PATCH', f'/api/v1alpha/batches/{bid}/updates/1/commit')
        log.add('legacy', 'commit', bid, stt)
        ctx.probe('legacy_batch_committed' if stt == 200 else 'legacy_commit_failed')
    if s.draw(3) == 0:
        await asyncio.sleep(s.rint(1, 30))
        stt, _ = await call('PATCH', f'/api/v1alpha/batches/{bid}/cancel')
        log.add('legacy', 'cancel', bid, stt)


async def chaos_actor(ctx, w, st):
    s = ctx.stream('chaos')
    loop_ = asyncio.get_running_loop()
    cloud_rates = st['plan'].get('cloud', {})
    while not st['heal']:
        await asyncio.sleep(5 + s.ticks(20000))
        if st['heal']:
            return
        if cloud_rates.get('preempt') and s.draw(3) == 0:
            w.cloud.preempt_some()
        if st['plan'].get('crash') and st['crashes'] < 2 and s.draw(4) == 0:
            # the driver process dies (mid-transaction, mid-request, between a database call and the in-memory update
            # that mirrors it, ...) and a new one boots from the database a little later
            from worlds.batch.driverworld import crash_driver, restart_driver
            st['crashes'] += 1
            st['driver_down'] = True
            st['restart_task'] = None
            if s.draw(2):
                # half of the stops are placed INSIDE a client-side transaction of the driver: wait (bounded) until
                # one of its connections has executed a write of a still-open multi-statement transaction
                fut = loop_.create_future()
                w.arm_mid_transaction('driver', lambda: None if fut.done() else fut.set_result(None))
                try:
                    await asyncio.wait_for(fut, 45)
                except asyncio.TimeoutError:
                    w.armed.clear()
            if s.draw(2):
                # graceful shutdown: tasks are cancelled (their finally / transaction exits run), then the rest dies
                from worlds.batch.driverworld import sigterm_driver
                await sigterm_driver(w)
            else:
                crash_driver(w)
            await asyncio.sleep(s.rint(1, 25))
            # the restart is its own task: cancelling this actor (heal) must not cancel a boot that is under way
            st['restart_task'] = asyncio.ensure_future(restart_driver(w))
            await asyncio.shield(st['restart_task'])
            st['driver_down'] = False
        if st['plan'].get('crash_fe') and st['fe_crashes'] < 2 and s.draw(4) == 0:
            # the front-end process dies (mid-submission, mid-commit, mid-cancel) and comes back later
            st['fe_crashes'] += 1
            st['fe_down'] = True
            st['fe_restart'] = None
            if s.draw(2):
                fut = loop_.create_future()
                w.arm_mid_transaction('front_end', lambda: None if fut.done() else fut.set_result(None))
                try:
                    await asyncio.wait_for(fut, 45)
                except asyncio.TimeoutError:
                    w.armed.clear()
            w.crash_front_end()
            await asyncio.sleep(s.rint(1, 15))
            st['fe_restart'] = asyncio.ensure_future(w.restart_front_end())
            await asyncio.shield(st['fe_restart'])
            st['fe_down'] = False


def run(ctx):
    props = ctx.params.get('props') or ([ctx.prop] if ctx.prop else [])
    cfg = ctx.stream('cfg')
    n_tokens = (1, 2, 3, 5, 200)[cfg.draw(5)]
    n_users = cfg.rint(1, 2)
    users = [User(1, 'u1', projects=['bp1']), User(2, 'u2', projects=['bp1', 'bp2'])][:n_users]
    w = BatchWorld(ctx, n_tokens=n_tokens, users=users, with_driver=True)
    w.compact_billing = cfg.draw(2) == 1
    w.billing_period = (60.0, 20.0, 7.0)[cfg.draw(3)]
    w.max_job_ticks = (3000, 20000, 200)[cfg.draw(3)]
    # tuning knobs of the driver's periodic maintenance are varied per run too (a compaction every minute hardly ever
    # overlaps a billing heartbeat in a 2-3 minute history)
    w.periods['compact'] = (60, 15, 4)[cfg.draw(3)]
    w.periods['cleanup'] = (60, 15, 4)[cfg.draw(3)]
    st = {'batches': {}, 'clients_done': 0, 'heal': False, 'plan': None, 'crashes': 0, 'driver_down': False,
          'fe_crashes': 0, 'fe_down': False}
    orc = {}

    async def main(loop):
        await w.start(loop)
        plan = _plan(ctx, w)
        st['plan'] = plan
        w.net.rates.update(plan.get('net', {}))
        w.db_fault_rates = plan.get('db', {})
        w.worker_fault_rates = plan.get('worker', {})
        w.cloud.rates.update(plan.get('cloud', {}))
        o = Oracles(w, props)
        orc['o'] = o
        w.on_commit.append(o.on_commit)
        w.server.on_sql_error = o.sql_error
        loop.step_hooks.append(o.raise_pending)
        clients = [asyncio.create_task(client_actor(ctx, w, i, u, st), name=f'client{i}') for i, u in enumerate(users)]
        if cfg.draw(3) == 0:
            clients.append(asyncio.create_task(legacy_actor(ctx, w, users[0], st), name='legacy'))
        chaos = asyncio.create_task(chaos_actor(ctx, w, st), name='chaos')

        async def memory_sampler():
            while True:
                await asyncio.sleep(5)
                o.check_memory(loop.time())
        sampler = asyncio.create_task(memory_sampler(), name='memory-sampler')

        by_name = {u.username: u for u in users}
        sessions = {}

        async def read_status(b, g, quiescent=False, as_listing=False):
            """GET the batch / job group as its owner and hand the answer to the C06 'reported' oracle."""
            owner = w.sql('SELECT user FROM batches WHERE id = %s AND NOT deleted', (b,))
            if not owner or owner[0]['user'] not in by_name:
                return
            u = by_name[owner[0]['user']]
            if u.username not in sessions:
                sessions[u.username] = w.raw_session(u)
            path = f'/api/v1alpha/batches/{b}' if g == 0 else f'/api/v1alpha/batches/{b}/job-groups/{g}'
            listing = as_listing and not quiescent
            if listing:
                # the same record through the listing endpoint (children of group g)
                path = f'/api/v1alpha/batches/{b}/job-groups/{g}/job-groups'
            t_sent = loop.time()
            try:
                resp = await sessions[u.username].request(
                    'GET', w.mods.deploy_config.base_url('batch') + path,
                    headers={'Authorization': f'Bearer {u.token}'})
                txt = await resp.text()
                if resp.status != 200 or not txt.startswith('{'):
                    return
                import json as _json
                rep = _json.loads(txt)
            except asyncio.CancelledError:
                raise
            except Exception:  # pylint: disable=broad-except
                return
            if listing:
                for child in rep.get('job_groups') or []:
                    if isinstance(child, dict) and child.get('job_group_id') is not None:
                        ctx.probe('status_reported_through_listing')
                        o.check_reported(b, child['job_group_id'], child, t_sent)
                return
            o.check_reported(b, g, rep, t_sent, quiescent=quiescent)

        async def status_reader():
            r = ctx.stream('reader')
            while True:
                await asyncio.sleep(1 + r.ticks(12000))
                groups = w.sql('SELECT job_groups.batch_id AS b, job_groups.job_group_id AS g FROM job_groups '
                               'LEFT JOIN batch_updates ON batch_updates.batch_id = job_groups.batch_id AND '
                               'batch_updates.update_id = job_groups.update_id '
                               'WHERE job_groups.update_id IS NULL OR batch_updates.committed '
                               'ORDER BY job_groups.batch_id, job_groups.job_group_id')
                if groups:
                    k = groups[r.draw(len(groups))]
                    await read_status(k['b'], k['g'], as_listing=r.draw(4) == 3)
        reader = asyncio.create_task(status_reader(), name='status-reader')
        done, pending = await asyncio.wait(clients, timeout=400)
        for t in done:
            if t.exception() is not None:
                raise t.exception()
        # keep the faults flowing while the submitted work runs (bounded), then heal
        chaos_extra = cfg.rint(0, 6) * 50
        t0 = loop.time()
        while loop.time() - t0 < chaos_extra:
            await asyncio.sleep(10)
            if not w.sql("SELECT 1 AS x FROM jobs WHERE state IN ('Pending', 'Ready', 'Creating', 'Running') LIMIT 1"):
                break
        # ---- heal: no new faults; partitions healed; every submitted request may finish ----------------------
        st['heal'] = True
        w.faults_on = False
        w.net.faults_enabled = False
        ctx.log.add('world', 'heal', len(pending))
        if chaos.done() and not chaos.cancelled() and chaos.exception() is not None:
            raise chaos.exception()
        chaos.cancel()
        await asyncio.sleep(0)
        if st['driver_down']:
            from worlds.batch.driverworld import restart_driver
            if st.get('restart_task') is not None:
                await st['restart_task']
            else:
                if w.driver_app is not None:
                    # this actor was stopped in the middle of a graceful shutdown: finish the old incarnation off
                    from worlds.batch.driverworld import crash_driver
                    crash_driver(w)
                await restart_driver(w)
        st['driver_down'] = False
        if st['fe_down']:
            if st.get('fe_restart') is not None:
                await st['fe_restart']
            else:
                await w.restart_front_end()
        st['fe_down'] = False
        if pending:
            d2, p2 = await asyncio.wait(pending, timeout=300)
            for t in d2:
                if t.exception() is not None:
                    raise t.exception()
            for t in p2:
                t.cancel()
        chaos.cancel()
        t_heal = loop.time()
        budget = 900.0
        while True:
            rows = w.sql("SELECT jobs.batch_id, jobs.job_id, jobs.state, jobs.always_run FROM jobs "
                         "INNER JOIN batch_updates ON jobs.batch_id = batch_updates.batch_id AND "
                         "jobs.update_id = batch_updates.update_id WHERE batch_updates.committed")
            left = [r for r in rows if r['state'] not in TERMINAL]
            if not left:
                break
            if loop.time() - t_heal > budget:
                if 'C39' not in props:
                    ctx.probe('liveness_budget_exceeded_not_judged_here')
                    break
                sample = [(r['batch_id'], r['job_id'], r['state']) for r in left[:5]]
                states = sorted({r['state'] for r in left})
                raise Violation('C39', 'liveness', 'C39/jobs_not_terminal_after_heal/' + '+'.join(states),
                                f'{len(left)} committed jobs not terminal {budget:.0f} s after faults stopped: {sample}; '
                                f'instances {w.sql("SELECT name, state FROM instances WHERE NOT removed")}')
            await asyncio.sleep(5)
        ctx.extra['heal_seconds'] = round(loop.time() - t_heal, 1)
        # quiescent: every committed job is terminal and no fault is active.  What the API reports must now agree
        # with the recount exactly (completion, job count, tallies) for every batch and job group.
        reader.cancel()
        if not left:
            await asyncio.sleep(15)
            for k in w.sql('SELECT job_groups.batch_id AS b, job_groups.job_group_id AS g FROM job_groups '
                           'LEFT JOIN batch_updates ON batch_updates.batch_id = job_groups.batch_id AND '
                           'batch_updates.update_id = job_groups.update_id '
                           'WHERE job_groups.update_id IS NULL OR batch_updates.committed '
                           'ORDER BY job_groups.batch_id, job_groups.job_group_id'):
                await read_status(k['b'], k['g'], quiescent=True)
        # cancelled batches are complete; always-run jobs of cancelled batches ran
        for r in w.sql("SELECT b.id, b.state FROM batches b INNER JOIN job_groups_cancelled c ON c.id = b.id AND "
                       "c.job_group_id = 0"):
            if r['state'] != 'complete' and 'C39' in props:
                raise Violation('C39', 'liveness', 'C39/cancelled_batch_not_complete', f'batch {r["id"]} is {r["state"]}')
        o.raise_pending()
        ctx.extra['commits'] = o.n_commits

    try:
        _r, outcome = simulate(ctx, main, max_steps=3_000_000, max_time=4000.0)
        if 'o' in orc:
            orc['o'].raise_pending()
        if outcome != 'done':
            raise RuntimeError(f'simulation ended with {outcome} at t={ctx.sim_time}')
    finally:
        w.stop()
    if w.fe_500 or w.driver_500:
        ctx.extra['http_500'] = (w.fe_500 + w.driver_500)[:3]
        ctx.probe('http_500', len(w.fe_500) + len(w.driver_500))


def nontrivial(r):
    return r['n_events'] >= 8 and (bool(r['faults']) or any(k.startswith('job_') for k in r['probes']))
