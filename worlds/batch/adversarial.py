"""C08 -- accepted job graphs can always finish; bad dependencies / ids are rejected and leave the batch unchanged.

A raw client sends hand-built (schema-valid) specification lists to the real front end through create-fast,
update-fast, and updates/create + jobs/create (+ commit), with one adversarial mutation per submission: a parent that
does not exist, a parent equal to the job itself, a later parent, a parent in a reserved-but-never-submitted range,
duplicated parents, job ids that do not start at the update's first id / run past its reserved range, or none
(control).  Submissions are interleaved with a well-behaved real client on the same batch, and requests may be
duplicated or lose their response (the raw client re-sends).

Oracle: if the update ends up committed -- every job_parents row of its jobs points to an existing job of the same
batch with a smaller id, its job ids are exactly [start_job_id, start_job_id + n_jobs), hence the batch can complete;
with the driver running (params with_driver, thorough tier) the batch does complete after heal.  If the submission
is answered with an error status -- the visible state digest (committed jobs, groups, counts, tallies, scheduler
counters) is what it was before the first request of that submission.
"""
import asyncio
import json

from simkit.core import Violation
from worlds.batch.oracles import TERMINAL
from worlds.batch.world import BatchWorld, User
from worlds.common import simulate

NAME = 'batch.adversarial'
NO_SHRINK = ('entropy',)
WALL_LIMIT = 120
RULE = ('base batch of 1-4 committed jobs (real client), then 1-3 raw submissions of 1-4 jobs / 0-1 groups via '
        'create-fast | update-fast | updates/create + jobs/create + commit, each with one mutation from {missing parent, '
        'self parent, later parent, parent in never-submitted range, duplicate parents, ids not starting at 1, ids beyond '
        'n_jobs, fewer jobs than announced, none}; optional request duplication / response loss')
COMPONENTS = {
    'batch.front_end.front_end (create-fast, update-fast, updates/create, jobs/create, commit) + validate.py': 'real',
    'batch SQL (commit_batch_update, triggers)': 'real text on minimysql',
    'raw client': 'simulator actor sending schema-valid JSON',
    'well-behaved client': 'real hailtop.batch_client.aioclient',
    'driver': 'stub (quick) / real driver + sim workers (params with_driver)',
}
ASSUMPTIONS = ['minimysql semantics (DESIGN.md 4)']
MUTATIONS = ['none', 'missing_parent', 'self_parent', 'later_parent', 'parent_in_unsubmitted_range', 'duplicate_parents',
             'ids_not_from_1', 'ids_beyond_n_jobs', 'fewer_jobs_than_announced', 'none']


def job_spec(job_id, in_update_parents=(), absolute_parents=(), always_run=False, group=('absolute', 0), uniq=None):
    d = {'always_run': always_run, 'n_max_attempts': 20, 'always_copy_output': False, 'job_id': job_id,
         'absolute_parent_ids': list(absolute_parents), 'in_update_parent_ids': list(in_update_parents),
         'process': {'command': ['true'], 'image': 'ubuntu:22.04', 'type': 'docker'},
         'resources': {'cpu': '0.25', 'memory': 'standard', 'storage': '1Gi'}}
    d['absolute_job_group_id' if group[0] == 'absolute' else 'in_update_job_group_id'] = group[1]
    if uniq:
        d['attributes'] = {'uniq': uniq}
    return d


def digest(w, upto=None):
    X = w.sql
    jobs = X("SELECT jobs.batch_id, jobs.job_id, jobs.state, jobs.cancelled, jobs.n_pending_parents FROM jobs INNER JOIN "
             "batch_updates u ON jobs.batch_id = u.batch_id AND jobs.update_id = u.update_id WHERE u.committed "
             "ORDER BY jobs.batch_id, jobs.job_id")
    groups = X("SELECT g.batch_id, g.job_group_id, g.state, g.n_jobs FROM job_groups g LEFT JOIN batch_updates u ON "
               "g.batch_id = u.batch_id AND g.update_id = u.update_id WHERE u.committed OR g.job_group_id = 0 "
               "ORDER BY g.batch_id, g.job_group_id")
    batches = X("SELECT id, state, n_jobs, deleted FROM batches ORDER BY id")
    tallies = X("SELECT t.* FROM job_groups_n_jobs_in_complete_states t INNER JOIN job_groups g ON g.batch_id = t.id AND "
                "g.job_group_id = t.job_group_id LEFT JOIN batch_updates u ON g.batch_id = u.batch_id AND "
                "g.update_id = u.update_id WHERE u.committed OR g.job_group_id = 0 ORDER BY t.id, t.job_group_id")
    counters = X("SELECT user, inst_coll, CAST(SUM(n_ready_jobs) AS SIGNED) a, CAST(SUM(ready_cores_mcpu) AS SIGNED) b, "
                 "CAST(SUM(n_running_jobs) AS SIGNED) c, CAST(SUM(n_cancelled_ready_jobs) AS SIGNED) d "
                 "FROM user_inst_coll_resources GROUP BY user, inst_coll ORDER BY user, inst_coll")
    parents = X("SELECT p.batch_id, p.job_id, p.parent_id FROM job_parents p INNER JOIN jobs ON jobs.batch_id = p.batch_id "
                "AND jobs.job_id = p.job_id INNER JOIN batch_updates u ON jobs.batch_id = u.batch_id AND "
                "jobs.update_id = u.update_id WHERE u.committed ORDER BY p.batch_id, p.job_id, p.parent_id")
    if upto is not None:
        # a rejected create-fast may leave an empty batch shell behind (it adds no jobs to any batch): compare only
        # the batches that existed before, and require the shell to be empty
        def keep(rows, key):
            return [r for r in rows if r[key] <= upto]
        shell_jobs = [r for r in jobs if r['batch_id'] > upto]
        jobs, groups, batches, tallies, parents = (keep(jobs, 'batch_id'), keep(groups, 'batch_id'), keep(batches, 'id'),
                                                   keep(tallies, 'id'), keep(parents, 'batch_id'))
        return json.dumps([jobs, groups, batches, tallies, counters, parents, shell_jobs], sort_keys=True, default=str)
    return json.dumps([jobs, groups, batches, tallies, counters, parents, []], sort_keys=True, default=str)


def check_committed(w, fail):
    X = w.sql
    for u in X("SELECT batch_id, update_id, start_job_id, n_jobs FROM batch_updates WHERE committed"):
        ids = [r['job_id'] for r in X("SELECT job_id FROM jobs WHERE batch_id = %s AND update_id = %s ORDER BY job_id",
                                      (u['batch_id'], u['update_id']))]
        want = list(range(u['start_job_id'], u['start_job_id'] + u['n_jobs']))
        if ids != want:
            fail('C08/committed_update_job_ids_not_its_range', f'update {(u["batch_id"], u["update_id"])}: job ids {ids} '
                 f'!= reserved range {want[:1]}..{want[-1:]}')
    rows = X("SELECT p.batch_id, p.job_id, p.parent_id, pj.job_id AS found FROM job_parents p INNER JOIN jobs ON "
             "jobs.batch_id = p.batch_id AND jobs.job_id = p.job_id INNER JOIN batch_updates u ON jobs.batch_id = "
             "u.batch_id AND jobs.update_id = u.update_id LEFT JOIN jobs pj ON pj.batch_id = p.batch_id AND "
             "pj.job_id = p.parent_id WHERE u.committed")
    for r in rows:
        if r['found'] is None:
            fail('C08/committed_job_with_missing_parent', f'job {(r["batch_id"], r["job_id"])} depends on job '
                 f'{r["parent_id"]} which does not exist: the batch can never complete')
        elif r['parent_id'] == r['job_id']:
            fail('C08/committed_job_depends_on_itself', f'job {(r["batch_id"], r["job_id"])}')
        elif r['parent_id'] > r['job_id']:
            fail('C08/committed_job_depends_on_later_job', f'job {(r["batch_id"], r["job_id"])} -> {r["parent_id"]}')


def run(ctx):
    cfg = ctx.stream('cfg')
    users = [User(1, 'u1', projects=['bp1'])]
    with_driver = bool(ctx.params.get('with_driver'))
    w = BatchWorld(ctx, n_tokens=(1, 3, 200)[cfg.draw(3)], users=users, with_driver=with_driver)
    user = users[0]

    def fail(sig, detail):
        raise Violation('C08', 'accepted_graphs', sig, detail)

    async def main(loop):
        await w.start(loop)
        s = ctx.stream('raw')
        log = ctx.log
        if s.draw(3) == 0:
            w.net.rates.update({'duplicate': 0.1, 'drop_response': 0.1})
        http = w.raw_session(user)
        base = w.mods.deploy_config.base_url('batch')
        hdr = {'Authorization': f'Bearer {user.token}'}

        async def call(method, path, body=None):
            for _ in range(8):
                try:
                    resp = await http.request(method, base + path, json=body, headers=dict(hdr))
                    txt = await resp.text()
                    try:
                        js = json.loads(txt) if txt else None
                    except ValueError:
                        js = None
                    return resp.status, js
                except asyncio.CancelledError:
                    raise
                except Exception:  # pylint: disable=broad-except
                    await asyncio.sleep(0.2)
            return 599, None

        # base batch by the well-behaved client
        c = w.batch_client(user, 'bp1')
        b = c.create_batch(attributes={'name': 'base'})
        nb = s.rint(1, 4)
        bj = []
        for i in range(nb):
            bj.append(b.create_job('ubuntu:22.04', ['true'], parents=[bj[s.draw(len(bj))]] if bj and s.draw(2) else [],
                                   resources={'cpu': '0.25', 'memory': 'standard', 'storage': '1Gi'}))
        await b.submit(disable_progress_bar=True)
        bid = b.id
        next_job = nb + 1
        tok_n = 0
        for si in range(s.rint(1, 3)):
            mut = MUTATIONS[s.draw(len(MUTATIONS))]
            path_kind = s.draw(3)  # 0 update-fast, 1 updates/create + jobs/create + commit, 2 create-fast (new batch)
            n = s.rint(1, 4)
            announced = n
            specs = []
            for i in range(1, n + 1):
                inp = [s.rint(1, i - 1)] if i > 1 and s.draw(2) else []
                ab = [s.rint(1, next_job - 1)] if path_kind != 2 and s.draw(3) == 0 else []
                specs.append(job_spec(i, inp, ab, always_run=s.draw(5) == 0, uniq=f'r{si}j{i}'))
            victim = specs[s.draw(n)]
            if mut == 'missing_parent':
                if path_kind == 2 or s.draw(2):
                    victim['in_update_parent_ids'] = [n + 1 + s.draw(3)]
                else:
                    victim['absolute_parent_ids'] = [next_job + n + 5 + s.draw(5)]
            elif mut == 'self_parent':
                victim['in_update_parent_ids'] = [victim['job_id']]
            elif mut == 'later_parent':
                if victim['job_id'] == n:
                    victim = specs[0]
                if n == 1:
                    mut = 'none'
                else:
                    victim['in_update_parent_ids'] = [s.rint(victim['job_id'] + 1, n)]
            elif mut == 'parent_in_unsubmitted_range':
                if path_kind == 2:
                    mut = 'none'
                else:
                    # reserve a range that is never filled, then depend on it from the next update
                    tok_n += 1
                    stt, js = await call('POST', f'/api/v1alpha/batches/{bid}/updates/create',
                                         {'n_jobs': 2, 'n_job_groups': 0, 'token': f'ghost{si}-{tok_n}'})
                    if stt == 200:
                        ghost = js['start_job_id']
                        next_job = ghost + 2
                        if s.draw(2):
                            victim['absolute_parent_ids'] = [ghost]
                        else:
                            # the same dependency written as a zero / negative in-update id: the front end converts
                            # it to start_job_id + p - 1, which lands in the earlier, never-filled range
                            victim['in_update_parent_ids'] = [ghost - next_job + 1]
                            ctx.probe('ghost_parent_as_negative_in_update_id')
                        ctx.probe('ghost_range_reserved')
                    else:
                        mut = 'none'
            elif mut == 'duplicate_parents':
                if victim['job_id'] == 1 and path_kind == 2:
                    mut = 'none'
                elif victim['job_id'] > 1:
                    victim['in_update_parent_ids'] = [1, 1]
                else:
                    victim['absolute_parent_ids'] = [1, 1]
            elif mut == 'ids_not_from_1':
                k = 1 + s.rint(1, 3)
                for sp in specs:
                    sp['job_id'] += k
                    sp['in_update_parent_ids'] = []
            elif mut == 'ids_beyond_n_jobs':
                announced = max(n - 1, 1)
                if announced == n:
                    specs.append(job_spec(n + 1, [], [], uniq=f'r{si}j{n + 1}'))
            elif mut == 'fewer_jobs_than_announced':
                announced = n + 1
            tok_n += 1
            token = f'raw{si}-{tok_n}'
            max_bid = max([r['id'] for r in w.sql('SELECT id FROM batches')] or [0])
            before = digest(w, max_bid)
            # the event KIND carries the mutation and the endpoint, so that the (actor, kind) fingerprint of a run
            # distinguishes what was submitted, not just how many submissions there were
            log.add('raw', f'submit:{mut}:{("update-fast", "multi", "create-fast")[path_kind]}', si, n, announced)
            statuses = []
            if path_kind == 0:
                stt, js = await call('POST', f'/api/v1alpha/batches/{bid}/update-fast',
                                     {'update': {'n_jobs': announced, 'n_job_groups': 0, 'token': token}, 'bunch': specs,
                                      'job_groups': []})
                statuses.append(stt)
                if stt == 200:
                    next_job = js['start_job_id'] + announced
            elif path_kind == 1:
                stt, js = await call('POST', f'/api/v1alpha/batches/{bid}/updates/create',
                                     {'n_jobs': announced, 'n_job_groups': 0, 'token': token})
                statuses.append(stt)
                if stt == 200:
                    uid = js['update_id']
                    next_job = js['start_job_id'] + announced
                    half = max(1, len(specs) // 2) if s.draw(2) else len(specs)
                    for chunk in (specs[:half], specs[half:]):
                        if chunk:
                            stt, _ = await call('POST', f'/api/v1alpha/batches/{bid}/updates/{uid}/jobs/create', chunk)
                            statuses.append(stt)
                    stt, _ = await call('PATCH', f'/api/v1alpha/batches/{bid}/updates/{uid}/commit')
                    statuses.append(stt)
            else:
                stt, js = await call('POST', '/api/v1alpha/batches/create-fast',
                                     {'batch': {'billing_project': 'bp1', 'n_jobs': announced, 'n_job_groups': 0,
                                                'token': token, 'attributes': {'name': f'raw{si}'}},
                                      'bunch': [dict(sp, absolute_parent_ids=[]) for sp in specs], 'job_groups': []})
                statuses.append(stt)
            log.add('raw', 'answered:' + ','.join(str(x) for x in statuses), si, mut)
            await asyncio.sleep(0.5)
            check_committed(w, fail)
            after = digest(w, max_bid)
            rejected = any(400 <= x < 600 for x in statuses)
            accepted_all = all(x == 200 for x in statuses)
            if mut != 'none':
                ctx.probe('mutation_' + mut)
                ctx.fault('input.' + mut)
                if accepted_all:
                    ctx.probe('bad_submission_fully_accepted')
            if rejected and after != before and path_kind != 1:
                fail(f'C08/rejected_submission_changed_batch/{mut}', f'statuses {statuses}; visible state changed')
            if rejected and path_kind == 1 and statuses[-1] != 200 and after != before:
                fail(f'C08/rejected_submission_changed_batch/{mut}', f'statuses {statuses}; visible state changed')
        check_committed(w, fail)
        if with_driver:
            w.faults_on = False
            w.net.faults_enabled = False
            t0 = loop.time()
            while loop.time() - t0 < 900:
                left = w.sql("SELECT 1 AS x FROM jobs INNER JOIN batch_updates u ON jobs.batch_id = u.batch_id AND "
                             "jobs.update_id = u.update_id WHERE u.committed AND jobs.state NOT IN "
                             "('Success','Failed','Error','Cancelled') LIMIT 1")
                if not left:
                    break
                await asyncio.sleep(10)
            else:
                rows = w.sql("SELECT jobs.batch_id, jobs.job_id, jobs.state, jobs.n_pending_parents FROM jobs INNER JOIN "
                             "batch_updates u ON jobs.batch_id = u.batch_id AND jobs.update_id = u.update_id WHERE "
                             "u.committed AND jobs.state NOT IN ('Success','Failed','Error','Cancelled')")
                fail('C08/committed_batch_cannot_finish', f'jobs never finish: {rows[:5]}')

    try:
        _r, outcome = simulate(ctx, main, max_steps=2_000_000, max_time=5000.0)
        if outcome != 'done':
            raise RuntimeError(f'simulation ended with {outcome}')
    finally:
        w.stop()


def nontrivial(r):
    return bool(r['faults'])
