#!/bin/sh
# offline setup: nothing to download or build; verify the interpreter and byte-compile-check the framework
cd "$(dirname "$0")" || exit 1
test -x /venv/bin/python || { echo "missing /venv/bin/python"; exit 1; }
/venv/bin/python - <<'PY' || exit 1
import sys, compileall, os
sys.dont_write_bytecode = True
import aiohttp, sortedcontainers, yaml  # needed by the repository code under test
ok = True
for root, _d, files in os.walk('.'):
    if '.git' in root or 'seeded' in root:
        continue
    for f in files:
        if f.endswith('.py'):
            p = os.path.join(root, f)
            try:
                compile(open(p).read(), p, 'exec')
            except SyntaxError as e:
                print('syntax error', p, e); ok = False
sys.exit(0 if ok else 1)
PY
mkdir -p evidence replays
# the SQL interpreter agrees with documented MySQL semantics on its micro-test suite (known divergences listed there)
PYTHONHASHSEED=0 /venv/bin/python -m minimysql.tests.test_semantics >/tmp/verif-sqltests.log 2>&1 || { tail -20 /tmp/verif-sqltests.log; echo "minimysql semantics tests failed"; exit 1; }
echo "setup ok"
