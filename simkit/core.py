"""Run context, event log, violations: what a scenario sees during one simulated run."""
import hashlib
import traceback

from .choice import ChoiceSource


class Violation(Exception):
    def __init__(self, prop, oracle, signature, detail=''):
        super().__init__(f'{prop} {oracle} {signature}: {detail}')
        self.prop = prop
        self.oracle = oracle
        self.signature = signature  # stable class of the failure, e.g. C40/leak/cancelled_waiter
        self.detail = detail


class HarnessError(Exception):
    pass


class EventLog:
    __slots__ = ('events', 'seq', 'clock', 'frozen')

    def __init__(self):
        self.frozen = False
        self.events = []
        self.seq = 0
        self.clock = None  # callable -> sim time

    def add(self, actor, kind, *payload):
        if self.frozen:
            return 0
        self.seq += 1
        t = self.clock() if self.clock is not None else 0.0
        self.events.append((self.seq, t, actor, kind, payload))
        return self.seq

    def digest(self):
        h = hashlib.sha256()
        for e in self.events:
            h.update(repr(e).encode())
            h.update(b'\n')
        return h.hexdigest()[:32]

    def fingerprint(self):
        """the interleaving up to data values: (actor, kind) sequence."""
        h = hashlib.sha256()
        for e in self.events:
            h.update(f'{e[2]}|{e[3]};'.encode())
        return h.hexdigest()[:16]

    def render(self, limit=60):
        out = []
        for seq, t, actor, kind, payload in self.events[:limit]:
            p = ' '.join(_short(x) for x in payload)
            out.append(f'#{seq} t={t:.4f} {actor} {kind} {p}'.rstrip())
        if len(self.events) > limit:
            out.append(f'... {len(self.events) - limit} more events')
        return out


def _short(x):
    s = repr(x) if not isinstance(x, str) else x
    return s if len(s) <= 120 else s[:117] + '...'


class RunCtx:
    """everything one run may consult: choices, tier, counters, log."""

    def __init__(self, seed, tier='quick', replay=None, prop=None, params=None):
        self.seed = seed
        self.tier = tier
        self.prop = prop
        self.params = params or {}
        self.choices = ChoiceSource(seed, replay)
        self.log = EventLog()
        self.faults = {}
        self.probes = {}
        self.sim_time = 0.0
        self.steps = 0
        self.components = {}
        self.extra = {}

    def stream(self, label, exhaust='zero'):
        return self.choices.stream(label, exhaust)

    def fault(self, kind, n=1):
        self.faults[kind] = self.faults.get(kind, 0) + n

    def probe(self, name, n=1):
        self.probes[name] = self.probes.get(name, 0) + n

    def violation(self, prop, oracle, signature, detail=''):
        raise Violation(prop, oracle, signature, detail)


class RunTimeout(BaseException):
    pass


def _alarm(_sig, _frm):
    raise RunTimeout()


def execute(scenario, seed, tier='quick', replay=None, prop=None, params=None, want_choices=False, want_trace=False,
            wall_limit=None):
    """one run -> plain dict result (picklable)."""
    import signal
    import threading
    ctx = RunCtx(seed, tier, replay, prop, params)
    res = {'seed': seed, 'status': 'ok'}
    limit = wall_limit if wall_limit is not None else getattr(scenario, 'WALL_LIMIT', 300)
    use_alarm = threading.current_thread() is threading.main_thread()
    if use_alarm:
        old = signal.signal(signal.SIGALRM, _alarm)
        signal.setitimer(signal.ITIMER_REAL, limit)
    try:
        scenario.run(ctx)
    except RunTimeout:
        res['status'] = 'error'
        res['error'] = f'run exceeded the wall-clock limit of {limit} s (harness guard)'
    except Violation as v:
        res['status'] = 'violation'
        res['violation'] = {'property': v.prop, 'oracle': v.oracle, 'signature': v.signature, 'detail': v.detail}
    except BaseException as e:  # pylint: disable=broad-except
        if isinstance(e, (KeyboardInterrupt, SystemExit)):
            raise
        res['status'] = 'error'
        res['error'] = ''.join(traceback.format_exception(type(e), e, e.__traceback__))[-6000:]
    finally:
        if use_alarm:
            signal.setitimer(signal.ITIMER_REAL, 0)
            signal.signal(signal.SIGALRM, old)
    res['digest'] = ctx.log.digest()
    res['fingerprint'] = ctx.log.fingerprint()
    res['n_events'] = len(ctx.log.events)
    res['faults'] = ctx.faults
    res['probes'] = ctx.probes
    res['sim_time'] = ctx.sim_time
    res['steps'] = ctx.steps
    res['n_draws'] = ctx.choices.n_draws
    res['extra'] = ctx.extra
    if res['status'] != 'ok' or want_choices:
        res['choices'] = ctx.choices.recorded()
    if res['status'] != 'ok' or want_trace:
        res['trace'] = ctx.log.render(200)
    return res
