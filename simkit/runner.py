"""Seeded sweeps across processes, shrinking, replay files, evidence, known findings."""
import concurrent.futures
import faulthandler
import importlib
import json
import logging
import multiprocessing
import os
import subprocess
import sys
import time

from .core import execute
from .loop import _real_time

VERIF = os.path.dirname(os.path.dirname(os.path.abspath(__file__)))
_mono = _real_time['monotonic']


def load_scenario(modname):
    return importlib.import_module(modname)


def _quiet():
    logging.disable(logging.CRITICAL)
    sys.unraisablehook = lambda *a, **k: None
    import warnings
    warnings.simplefilter('ignore')


def _worker_init():
    _quiet()
    faulthandler.enable()


def _run_chunk(modname, seeds, tier, prop, params, wall_cap):
    faulthandler.dump_traceback_later(wall_cap, exit=True)
    try:
        scn = load_scenario(modname)
        out = []
        for s in seeds:
            r = execute(scn, s, tier, None, prop, params)
            out.append(r)
        return out
    finally:
        faulthandler.cancel_dump_traceback_later()


# ---------------------------------------------------------------------------------------------
# shrinking
# ---------------------------------------------------------------------------------------------

def _same_class(res, signature):
    return res['status'] == 'violation' and res['violation']['signature'] == signature


def shrink(modname, seed, tier, prop, params, choices, signature, budget_s=40.0):
    scn = load_scenario(modname)
    t0 = _mono()
    tries = 0

    def test(cand):
        nonlocal tries
        tries += 1
        r = execute(scn, seed, tier, cand, prop, params)
        return _same_class(r, signature)

    def out_of_time():
        return _mono() - t0 > budget_s

    cur = {k: list(v) for k, v in choices.items()}
    frozen = set(getattr(scn, 'NO_SHRINK', ()))
    # normalise: replaying the recorded choices must fail the same way
    if not test(cur):
        return None, tries
    # 1. empty whole streams
    for label in sorted(cur, key=lambda k: -len(cur[k])):
        if out_of_time():
            break
        if not cur[label] or label in frozen:
            continue
        cand = dict(cur)
        cand[label] = []
        if test(cand):
            cur = cand
    # 2. per stream: truncate, delete spans, zero, lower
    improved = True
    while improved and not out_of_time():
        improved = False
        for label in sorted(cur):
            xs = cur[label]
            if not xs or label in frozen:
                continue
            # truncate (binary search on the tail)
            lo, hi = 0, len(xs)
            while lo < hi and not out_of_time():
                mid = (lo + hi) // 2
                cand = dict(cur)
                cand[label] = xs[:mid]
                if test(cand):
                    hi = mid
                else:
                    lo = mid + 1
            if hi < len(xs):
                cand = dict(cur)
                cand[label] = xs[:hi]
                if test(cand):
                    cur = cand
                    xs = cur[label]
                    improved = True
            # delete spans
            size = max(len(xs) // 2, 1)
            while size >= 1 and not out_of_time():
                i = 0
                while i + size <= len(xs) and not out_of_time():
                    cand = dict(cur)
                    cand[label] = xs[:i] + xs[i + size:]
                    if test(cand):
                        cur = cand
                        xs = cur[label]
                        improved = True
                    else:
                        i += size
                if size == 1:
                    break
                size //= 2
            # zero / lower individual draws
            for i in range(len(xs)):
                if out_of_time():
                    break
                if xs[i] == 0:
                    continue
                cand = dict(cur)
                ys = list(xs)
                ys[i] = 0
                cand[label] = ys
                if test(cand):
                    cur = cand
                    xs = ys
                    improved = True
                    continue
                lo, hi = 0, xs[i]
                # smallest value that still fails (not monotone in general; best effort)
                while hi - lo > 1 and not out_of_time():
                    mid = (lo + hi) // 2
                    ys = list(xs)
                    ys[i] = mid
                    cand = dict(cur)
                    cand[label] = ys
                    if test(cand):
                        hi = mid
                    else:
                        lo = mid
                if hi < xs[i]:
                    ys = list(xs)
                    ys[i] = hi
                    cand = dict(cur)
                    cand[label] = ys
                    if test(cand):
                        cur = cand
                        xs = ys
                        improved = True
    # strip trailing zeros (equivalent under replay)
    unstripped = cur
    cur = dict(cur)
    for label in list(cur):
        if label in frozen:
            continue  # identity-like streams fall back to a PRNG, not to zeros, when exhausted
        xs = cur[label]
        while xs and xs[-1] == 0:
            xs = xs[:-1]
        cur[label] = xs
    cur = {k: v for k, v in cur.items() if v}
    if not test(cur):
        cur = unstripped
        if not test(cur):
            return None, tries
    return cur, tries


def _shrink_job(modname, seed, tier, prop, params, choices, signature, budget_s):
    faulthandler.dump_traceback_later(budget_s * 4 + 120, exit=True)
    try:
        cur, tries = shrink(modname, seed, tier, prop, params, choices, signature, budget_s)
        if cur is None:
            return None
        scn = load_scenario(modname)
        r = execute(scn, seed, tier, cur, prop, params, want_choices=True, want_trace=True)
        r['shrink_tries'] = tries
        r['min_choices'] = cur
        return r
    finally:
        faulthandler.cancel_dump_traceback_later()


def write_replay(prop, modname, tier, params, res, min_choices, dirname=None):
    dirname = dirname or os.path.join(VERIF, 'replays')
    os.makedirs(dirname, exist_ok=True)
    sig = res['violation']['signature']
    safe = sig.replace('/', '_').replace(' ', '_')[:80]
    path = os.path.join(dirname, f'{prop}-{safe}-{res["seed"]}.json')
    doc = {
        'property': prop,
        'scenario': modname,
        'tier': tier,
        'params': params,
        'seed': res['seed'],
        'choices': min_choices,
        'signature': sig,
        'oracle': res['violation']['oracle'],
        'detail': res['violation']['detail'],
        'event_digest': res['digest'],
        'trace': res.get('trace', []),
    }
    with open(path, 'w') as f:
        json.dump(doc, f, indent=1)
    return path


def replay_file(path, quiet=False):
    """returns (reproduced, result)."""
    with open(path) as f:
        doc = json.load(f)
    scn = load_scenario(doc['scenario'])
    r = execute(scn, doc['seed'], doc['tier'], {k: list(v) for k, v in doc['choices'].items()}, doc['property'],
                doc.get('params') or {}, want_trace=True)
    ok = _same_class(r, doc['signature']) and r['digest'] == doc['event_digest']
    return ok, r, doc


def replay_in_fresh_interpreter(path, hashseed='0'):
    env = dict(os.environ)
    env['PYTHONHASHSEED'] = hashseed
    env['VERIF_REEXEC'] = '1'
    p = subprocess.run([sys.executable, '-m', 'simkit.cli', 'replay', path, '--quiet'], cwd=VERIF, env=env,
                       capture_output=True, text=True, timeout=600)
    return p.returncode == 1 and 'VIOLATION' in p.stdout, p.stdout + p.stderr


# ---------------------------------------------------------------------------------------------
# known findings
# ---------------------------------------------------------------------------------------------

def load_known(prop):
    path = os.path.join(VERIF, 'known_findings.json')
    if not os.path.exists(path):
        return []
    with open(path) as f:
        doc = json.load(f)
    return [e for e in doc.get('findings', []) if e.get('property') == prop]


# ---------------------------------------------------------------------------------------------
# sweep
# ---------------------------------------------------------------------------------------------

class Sweep:
    def __init__(self, prop, tier, base_seed, procs):
        self.prop = prop
        self.tier = tier
        self.base_seed = base_seed
        self.procs = procs
        self.results = []  # light-weight aggregated info only
        self.evaluations = 0
        self.fingerprints = set()
        self.nontrivial_fps = set()
        self.faults = {}
        self.probes = {}
        self.sim_time = 0.0
        self.steps = 0
        self.n_events = 0
        self.errors = []
        self.violations = {}  # signature -> first result
        self.violation_counts = {}
        self.samples = []
        self.digests = {}  # (scenario, seed) -> digest for determinism test
        self.per_scenario = {}
        self.timed_out = False

    def absorb(self, modname, scn, r):
        self.evaluations += 1
        ps = self.per_scenario.setdefault(modname, {'runs': 0, 'violations': 0, 'errors': 0})
        ps['runs'] += 1
        self.fingerprints.add(r['fingerprint'])
        nt = getattr(scn, 'nontrivial', None)
        is_nt = nt(r) if nt is not None else (bool(r['faults']) or bool(r['probes']))
        if is_nt:
            self.nontrivial_fps.add(r['fingerprint'])
        for k, v in r['faults'].items():
            self.faults[k] = self.faults.get(k, 0) + v
        for k, v in r['probes'].items():
            self.probes[k] = self.probes.get(k, 0) + v
        self.sim_time += r['sim_time']
        self.steps += r['steps']
        self.n_events += r['n_events']
        if r['status'] == 'error':
            ps['errors'] += 1
            if len(self.errors) < 5:
                self.errors.append((modname, r['seed'], r['error']))
        elif r['status'] == 'violation':
            ps['violations'] += 1
            sig = r['violation']['signature']
            self.violation_counts[sig] = self.violation_counts.get(sig, 0) + 1
            if sig not in self.violations:
                self.violations[sig] = (modname, r)

    def run(self, modname, n_runs, params=None, wall_cap=600.0, chunk=None, seed_offset=0):
        scn = load_scenario(modname)
        params = params or {}
        seeds = [self.base_seed * 1_000_003 + seed_offset + i for i in range(n_runs)]
        if chunk is None:
            chunk = max(1, min(500, n_runs // (self.procs * 4) or 1))
        chunks = [seeds[i:i + chunk] for i in range(0, len(seeds), chunk)]
        t0 = _mono()
        ctx = multiprocessing.get_context('fork')
        with concurrent.futures.ProcessPoolExecutor(self.procs, mp_context=ctx, initializer=_worker_init) as ex:
            futs = [ex.submit(_run_chunk, modname, c, self.tier, self.prop, params, wall_cap + 60) for c in chunks]
            try:
                for f in concurrent.futures.as_completed(futs, timeout=wall_cap):
                    for r in f.result():
                        self.absorb(modname, scn, r)
                        if len(self.digests) < 64:
                            self.digests[(modname, r['seed'])] = r['digest']
            except concurrent.futures.TimeoutError:
                self.timed_out = True
                for f in futs:
                    f.cancel()
                for p in list(ex._processes.values()):  # pylint: disable=protected-access
                    p.terminate()
            except concurrent.futures.process.BrokenProcessPool as e:
                self.errors.append((modname, -1, f'worker died: {e!r}'))
        # a few written-out samples (re-run two seeds in a worker to get their traces)
        if len(self.samples) < 4 and seeds:
            with concurrent.futures.ProcessPoolExecutor(1, mp_context=ctx, initializer=_worker_init) as ex:
                for s in seeds[:2]:
                    r = ex.submit(_sample_job, modname, s, self.tier, self.prop, params).result(timeout=wall_cap)
                    self.samples.append({'scenario': modname, 'seed': s, 'status': r['status'],
                                         'faults': r['faults'], 'probes': r['probes'], 'trace': r['trace'][:40]})
        return _mono() - t0


def _sample_job(modname, seed, tier, prop, params):
    scn = load_scenario(modname)
    return execute(scn, seed, tier, None, prop, params, want_trace=True)


def determinism_check(sweep, n=6):
    """re-run a sample of seeds in fresh interpreters (same and different PYTHONHASHSEED)."""
    items = sorted(sweep.digests.items())[:n]
    if not items:
        return {'checked': 0, 'mismatch_same_hashseed': 0, 'mismatch_other_hashseed': 0}
    by_mod = {}
    for (mod, seed), d in items:
        by_mod.setdefault(mod, []).append((seed, d))
    out = {'checked': 0, 'mismatch_same_hashseed': 0, 'mismatch_other_hashseed': 0}
    for hs, key in (('0', 'mismatch_same_hashseed'), ('4242', 'mismatch_other_hashseed')):
        for mod, lst in by_mod.items():
            env = dict(os.environ)
            env['PYTHONHASHSEED'] = hs
            env['VERIF_REEXEC'] = '1'
            args = [sys.executable, '-m', 'simkit.cli', 'digest', mod, sweep.tier, sweep.prop] + [str(s) for s, _ in lst]
            p = subprocess.run(args, cwd=VERIF, env=env, capture_output=True, text=True, timeout=900)
            if p.returncode != 0:
                raise RuntimeError(f'determinism subprocess failed: {p.stdout}\n{p.stderr}')
            got = dict(line.split() for line in p.stdout.strip().splitlines() if line.strip())
            for s, d in lst:
                out['checked'] += 1
                if got.get(str(s)) != d:
                    out[key] += 1
    return out
