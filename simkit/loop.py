"""Deterministic virtual-time asyncio event loop.

* no selector, no sockets, no threads: every handle runs from one FIFO ready queue;
* timers are totally ordered by (when, seq); when nothing is ready the clock jumps
  to the next timer;
* time is kept on a 2^-20 s grid so that every instant is an exactly representable
  double;
* run_in_executor runs the function inline at a later simulated instant;
* tasks/futures get deterministic hashes and names (sets of tasks iterate
  reproducibly);
* handles carry the simulated process (PROC context variable) that created them;
  handles of crashed processes are never run again (no except/finally runs).
"""
import asyncio
import collections
import contextvars
import heapq
import math
import time as _time
from asyncio import events

TICKS_PER_S = 1 << 20

PROC = contextvars.ContextVar('sim_proc', default='main')


class SimDeadlock(Exception):
    pass


class SimStepCap(Exception):
    pass


class SimulationEscape(Exception):
    """repository code reached a seam the simulator does not own (harness error)."""


class SimTimerHandle(events.TimerHandle):
    __slots__ = ('_seq',)

    def __init__(self, when, seq, callback, args, loop, context=None):
        super().__init__(when, callback, args, loop, context)
        self._seq = seq

    def __lt__(self, other):
        return (self._when, self._seq) < (other._when, other._seq)

    def __le__(self, other):
        return (self._when, self._seq) <= (other._when, other._seq)

    def __gt__(self, other):
        return (self._when, self._seq) > (other._when, other._seq)

    def __ge__(self, other):
        return (self._when, self._seq) >= (other._when, other._seq)

    def __eq__(self, other):
        return self is other

    __hash__ = None


class SimTask(asyncio.Task):
    def __init__(self, coro, *, loop, name=None, context=None):
        loop._obj_counter += 1
        self._sim_id = loop._obj_counter
        super().__init__(coro, loop=loop, name=name or f'sim-{self._sim_id}', context=context)

    def __hash__(self):
        return self._sim_id


class SimFuture(asyncio.Future):
    def __init__(self, *, loop):
        loop._obj_counter += 1
        self._sim_id = loop._obj_counter
        super().__init__(loop=loop)

    def __hash__(self):
        return self._sim_id


def _task_factory(loop, coro, context=None, **kw):
    t = SimTask(coro, loop=loop, context=context, name=kw.get('name'))
    # every task stays strongly referenced until the run is torn down: a task of a crashed process (or one whose
    # future was dropped) must not be finalised -- its `finally` blocks run -- at whatever instant the garbage
    # collector happens to find it, because that instant depends on the allocation history of the process
    loop.created_tasks.append(t)
    return t


class SimLoop(asyncio.BaseEventLoop):
    def __init__(self, *, start=0.0, max_steps=2_000_000, max_time=None, executor_delay=None):
        super().__init__()
        self._now = float(start)
        self._timer_seq = 0
        self._obj_counter = 0
        self.steps = 0
        self.max_steps = max_steps
        self.max_time = max_time
        self.executor_delay = executor_delay  # callable -> seconds, or None
        self.crashed = set()
        self.graveyard = []
        self.created_tasks = []
        self.step_hooks = []  # callables run after every loop iteration
        self.idle_hooks = []  # callables run when no handle is ready (before the clock jumps)
        self.set_task_factory(_task_factory)
        self.clock_jumps = 0

    # -- clock ---------------------------------------------------------------------------------
    def time(self):
        return self._now

    @staticmethod
    def quantize(t):
        return math.ceil(t * TICKS_PER_S - 1e-9) / TICKS_PER_S

    # -- scheduling ----------------------------------------------------------------------------
    def call_at(self, when, callback, *args, context=None):
        if when is None:
            raise TypeError('when cannot be None')
        self._check_closed()
        self._timer_seq += 1
        when = self.quantize(when)
        if when < self._now:
            when = self._now
        timer = SimTimerHandle(when, self._timer_seq, callback, args, self, context)
        heapq.heappush(self._scheduled, timer)
        timer._scheduled = True
        return timer

    def call_later(self, delay, callback, *args, context=None):
        if delay is None:
            raise TypeError('delay must not be None')
        return self.call_at(self._now + max(delay, 0), callback, *args, context=context)

    def call_soon_threadsafe(self, callback, *args, context=None):
        return self.call_soon(callback, *args, context=context)

    def _write_to_self(self):
        pass

    def _process_events(self, event_list):
        pass

    def create_future(self):
        return SimFuture(loop=self)

    def run_in_executor(self, executor, func, *args):
        fut = self.create_future()

        def run():
            if fut.cancelled():
                return
            try:
                r = func(*args)
            except BaseException as e:  # pylint: disable=broad-except
                if isinstance(e, (SimDeadlock, SimStepCap, SimulationEscape)):
                    raise
                fut.set_exception(e)
            else:
                fut.set_result(r)

        delay = self.executor_delay() if self.executor_delay is not None else 0.0
        self.call_later(delay, run)
        return fut

    # sockets / subprocesses are not available in the simulation
    def _make_socket_transport(self, *a, **k):
        raise SimulationEscape('socket transport requested')

    async def create_connection(self, *a, **k):
        raise SimulationEscape('create_connection')

    async def getaddrinfo(self, *a, **k):
        raise SimulationEscape('getaddrinfo')

    async def create_server(self, *a, **k):
        raise SimulationEscape('create_server')

    async def subprocess_exec(self, *a, **k):
        raise SimulationEscape('subprocess_exec')

    async def subprocess_shell(self, *a, **k):
        raise SimulationEscape('subprocess_shell')

    async def shutdown_default_executor(self, timeout=None):
        return None

    # -- crash support -------------------------------------------------------------------------
    def crash(self, proc):
        self.crashed.add(proc)

    def revive(self, proc):
        self.crashed.discard(proc)

    def _dead(self, handle):
        if not self.crashed:
            return False
        ctx = handle._context
        try:
            p = ctx.get(PROC, 'main') if ctx is not None else 'main'
        except Exception:  # pylint: disable=broad-except
            p = 'main'
        return p in self.crashed

    # -- the loop ------------------------------------------------------------------------------
    def _run_once(self):
        sched = self._scheduled
        ready = self._ready
        while sched and sched[0]._cancelled:
            h = heapq.heappop(sched)
            h._scheduled = False
        if not ready:
            for hook in self.idle_hooks:
                hook()
        if not ready:
            while sched and sched[0]._cancelled:
                h = heapq.heappop(sched)
                h._scheduled = False
            if not sched:
                raise SimDeadlock('no runnable handle and no timer pending')
            when = sched[0]._when
            if when > self._now:
                if self.max_time is not None and when > self.max_time:
                    raise SimStepCap(f'simulated time cap {self.max_time} reached')
                self._now = when
                self.clock_jumps += 1
        now = self._now
        while sched and sched[0]._when <= now:
            h = heapq.heappop(sched)
            h._scheduled = False
            if not h._cancelled:
                ready.append(h)
        ntodo = len(ready)
        for _ in range(ntodo):
            h = ready.popleft()
            if h._cancelled:
                continue
            if self._dead(h):
                self.graveyard.append(h)
                continue
            self.steps += 1
            h._run()
        h = None
        if self.steps > self.max_steps:
            raise SimStepCap(f'step cap {self.max_steps} reached')
        for hook in self.step_hooks:
            hook()

    def pending_timers(self):
        return sum(1 for h in self._scheduled if not h._cancelled)


_TIME_NAMES = ('time', 'time_ns', 'monotonic', 'monotonic_ns', 'perf_counter', 'perf_counter_ns')
_real_time = {n: getattr(_time, n) for n in _TIME_NAMES}
_real_sleep = _time.sleep


class SimClock:
    """Patches the time module to read the loop's clock while active."""

    def __init__(self, loop, epoch=1_700_000_000.0):
        self.loop = loop
        self.epoch = float(epoch)

    def _t(self):
        return self.loop._now

    def install(self):
        lp = self.loop
        ep = self.epoch
        ep_ticks = int(round(ep * TICKS_PER_S))
        NS = 1_000_000_000

        def ticks():
            return int(round(lp._now * TICKS_PER_S))

        _time.time = lambda: ep + lp._now
        _time.time_ns = lambda: (ep_ticks + ticks()) * NS // TICKS_PER_S
        _time.monotonic = lambda: lp._now
        _time.monotonic_ns = lambda: ticks() * NS // TICKS_PER_S
        _time.perf_counter = lambda: lp._now
        _time.perf_counter_ns = lambda: ticks() * NS // TICKS_PER_S

        def _sleep(s):
            raise SimulationEscape(f'blocking time.sleep({s}) under simulation')

        _time.sleep = _sleep

    def uninstall(self):
        for n, f in _real_time.items():
            setattr(_time, n, f)
        _time.sleep = _real_sleep


def run_sim(main_factory, *, start=0.0, epoch=1_700_000_000.0, max_steps=2_000_000, max_time=None,
            executor_delay=None, setup=None):
    """Run `await main_factory(loop)` to completion on a fresh SimLoop with a patched clock."""
    loop = SimLoop(start=start, max_steps=max_steps, max_time=max_time, executor_delay=executor_delay)
    clock = SimClock(loop, epoch)
    clock.install()
    old = None
    try:
        try:
            old = asyncio.get_event_loop_policy()._local._loop  # type: ignore[attr-defined]
        except Exception:  # pylint: disable=broad-except
            old = None
        asyncio.set_event_loop(loop)
        if setup is not None:
            setup(loop)
        return loop.run_until_complete(main_factory(loop))
    finally:
        clock.uninstall()
        try:
            # drop everything without running it: the run is over
            loop._ready.clear()
            loop._scheduled.clear()
            loop.graveyard.clear()
        finally:
            asyncio.set_event_loop(None)
            loop.close()
