"""One integer decides everything: seeded, recorded, replayable choice streams.

A ChoiceSource owns named streams.  Each stream is a PRNG seeded with
H(seed, label); every draw is recorded.  In replay mode a stream returns the
recorded values (clamped into range) and 0 -- the "boring" choice -- once its
list is exhausted, which is what makes truncation/deletion shrinking work.
"""
import hashlib
import random

_SCALE_BITS = 30
_SCALE = 1 << _SCALE_BITS


def _h(seed, label):
    d = hashlib.sha256(f'{seed}\x00{label}'.encode()).digest()
    return int.from_bytes(d[:8], 'big')


class Stream:
    __slots__ = ('label', 'rng', 'replay', 'pos', 'rec', 'src', 'exhaust')

    def __init__(self, src, label, seed, replay, exhaust='zero'):
        self.exhaust = exhaust
        self.src = src
        self.label = label
        self.rng = random.Random(_h(seed, label)) if replay is None else None
        self.replay = replay
        self.pos = 0
        self.rec = []

    def draw(self, n):
        """int in [0, n)."""
        if n <= 1 or self.src.frozen:
            return 0
        if self.replay is None:
            v = self.rng.randrange(n)
        else:
            if self.pos < len(self.replay):
                v = self.replay[self.pos]
                if v >= n:
                    v = n - 1
                elif v < 0:
                    v = 0
            elif self.exhaust == 'prng':
                # identity-like streams (tokens, names): zeros would collide; fall back to a fixed PRNG
                if self.rng is None:
                    self.rng = random.Random(_h(self.src.seed, self.label) ^ 0x5bd1e995)
                v = self.rng.randrange(n)
            else:
                v = 0
            self.pos += 1
        self.rec.append(v)
        self.src.n_draws += 1
        return v

    def flt(self):
        """float in [0, 1) on a 2^-30 grid; 0 is the boring value."""
        return self.draw(_SCALE) / _SCALE

    def chance(self, p):
        """True with probability p; a replayed 0 is always False."""
        if p <= 0:
            return False
        k = int(p * _SCALE)
        if k <= 0:
            k = 1
        return self.draw(_SCALE) >= _SCALE - k

    def pick(self, seq):
        return seq[self.draw(len(seq))]

    def rint(self, lo, hi):
        """int in [lo, hi] inclusive; lo is the boring value."""
        return lo + self.draw(hi - lo + 1)

    def weighted(self, weights):
        """index drawn by integer weights; index 0 is boring."""
        tot = sum(weights)
        v = self.draw(tot)
        acc = 0
        for i, w in enumerate(weights):
            acc += w
            if v < acc:
                return i
        return len(weights) - 1

    def shuffle(self, xs):
        xs = list(xs)
        for i in range(len(xs) - 1):
            j = i + self.draw(len(xs) - i)
            xs[i], xs[j] = xs[j], xs[i]
        return xs

    def ticks(self, max_ticks, tick=1.0 / 1024):
        """a delay of 0..max_ticks ticks; 0 is boring."""
        return self.draw(max_ticks + 1) * tick


class ChoiceSource:
    def __init__(self, seed, replay=None):
        """replay: None (generate) or dict label -> list of ints."""
        self.seed = seed
        self.replay = replay
        self.streams = {}
        self.n_draws = 0
        self.frozen = False  # set at the end of a run: teardown code must not consume or record choices

    def stream(self, label, exhaust='zero'):
        s = self.streams.get(label)
        if s is None:
            rp = None
            if self.replay is not None:
                rp = self.replay.get(label, [])
            s = self.streams[label] = Stream(self, label, self.seed, rp, exhaust)
        return s

    def recorded(self):
        return {k: list(s.rec) for k, s in self.streams.items() if s.rec}
