"""Load repository packages from /repo's working tree without their third-party dependencies.

install() is idempotent.  It puts the repository's python roots on sys.path, sets the
environment variables read at import time, injects `hailtop.version`, installs functional
fakes registered by the worlds, and appends a fallback finder that stubs every top-level
module PathFinder cannot find.  Touching a stub on a simulated path raises
SimulationEscape (a harness error), so a stub never silently stands in for behaviour.
"""
import importlib.abc
import importlib.machinery
import json as _json
import os
import sys
import types

from .loop import SimulationEscape

REPO = os.environ.get('HAIL_REPO_ROOT', '/repo')

ENV = {
    'HAIL_DEFAULT_NAMESPACE': 'default',
    'HAIL_SCOPE': 'deploy',
    'CLOUD': 'gcp',
    'HAIL_DOCKER_ROOT_IMAGE': 'ubuntu:22.04',
    'HAIL_DOCKER_PREFIX': 'docker.sim',
    'KUBERNETES_SERVER_URL': 'https://k8s.sim',
    'INTERNAL_GATEWAY_IP': '10.0.0.1',
    'HAIL_BATCH_STORAGE_URI': 'gs://sim-batch',
    'HAIL_SHA': 'simsha',
    'HAIL_QUERY_STORAGE_URI': 'gs://sim-query',
    'HAIL_QUERY_ACCEPTABLE_JAR_SUBFOLDER': '/jars',
    'HAIL_BATCH_WORKER_IMAGE': 'docker.sim/batch-worker:sim',
    'HAIL_CI_GITHUB_CONTEXT': 'ci-sim',
    'HAIL_CI_UTILS_IMAGE': 'docker.sim/ci-utils:sim',
    'HAIL_BUILDKIT_IMAGE': 'docker.sim/buildkit:sim',
    'HAIL_CI_STORAGE_URI': 'gs://sim-ci',
    'HAIL_DOMAIN': 'hail.sim',
    'HAIL_PRODUCTION_DOMAIN': 'hail.sim',
}

ROOTS = ['hail/python', 'gear', 'web_common', 'batch', 'ci', 'auth']


class _StubMeta(type):
    def __getattr__(cls, name):
        if name.startswith('__') and name.endswith('__'):
            raise AttributeError(name)
        sub = _make_stub_class(f'{cls.__qualname__}.{name}')
        setattr(cls, name, sub)
        return sub

    def __call__(cls, *args, **kwargs):
        # decorator use: @stub or @stub(...)  -> pass-through
        if len(args) == 1 and not kwargs and (isinstance(args[0], types.FunctionType) or isinstance(args[0], type)):
            return args[0]
        if cls.__dict__.get('_stub_instantiable', False) or issubclass(cls, BaseException) and cls.__dict__.get('_is_exc'):
            return super().__call__(*args, **kwargs)
        return _StubInstance(cls.__qualname__)

    def __getitem__(cls, item):
        return cls

    def __or__(cls, other):
        return cls

    def __ror__(cls, other):
        return cls

    def __iter__(cls):
        return iter(())


class _StubInstance:
    """result of calling a stub: usable as a decorator, raises on real use."""

    def __init__(self, name):
        object.__setattr__(self, '_n', name)

    def __call__(self, *args, **kwargs):
        if len(args) == 1 and not kwargs and (isinstance(args[0], (types.FunctionType, type))):
            return args[0]
        return _StubInstance(self._n + '()')

    def __getattr__(self, name):
        if name.startswith('__') and name.endswith('__'):
            raise AttributeError(name)
        return _StubInstance(f'{self._n}.{name}')

    def __await__(self):
        raise SimulationEscape(f'awaited stub {self._n}')

    def __iter__(self):
        return iter(())

    def __bool__(self):
        return False

    def __repr__(self):
        return f'<stub {self._n}>'


def _make_stub_class(qualname):
    return _StubMeta(qualname.rsplit('.', 1)[-1], (Exception,), {'__qualname__': qualname, '__module__': 'simstub'})


class StubModule(types.ModuleType):
    def __getattr__(self, name):
        if name.startswith('__') and name.endswith('__'):
            raise AttributeError(name)
        full = f'{self.__name__}.{name}'
        if full in sys.modules:
            return sys.modules[full]
        v = _make_stub_class(full)
        setattr(self, name, v)
        return v


# optional imports that library code guards with try/except: must stay missing
_NEVER_STUB = {'winreg', 'msvcrt', 'nt', 'brotlicffi', 'brotli', 'aiodns', 'backports', 'cchardet', 'chardet',
               'charset_normalizer', 'pydantic_core', 'aiodocker', 'IPython', 'zstandard', 'zstd',
               'readline', 'pwd_', 'annotationlib', 'simplejson', 'ujson', 'colorama', 'curses',
               'pygments_', 'exceptiongroup', 'tomli', 'importlib_metadata', 'importlib_resources', 'numpy', 'pandas',
               'async_timeout', 'cython', 'Cython'}


class _StubFinder(importlib.abc.MetaPathFinder, importlib.abc.Loader):
    def __init__(self):
        self.stub_roots = set()

    def find_spec(self, fullname, path=None, target=None):
        root = fullname.split('.')[0]
        if root not in self.stub_roots:
            if '.' in fullname or root.startswith('_') or root in _NEVER_STUB:
                return None
            try:
                if importlib.machinery.PathFinder.find_spec(root) is not None:
                    return None
            except Exception:  # pylint: disable=broad-except
                return None
            self.stub_roots.add(root)
        return importlib.machinery.ModuleSpec(fullname, self, is_package=True)

    def create_module(self, spec):
        m = StubModule(spec.name)
        m.__path__ = []
        m.__sim_stub__ = True
        return m

    def exec_module(self, module):
        pass


_FINDER = None
_installed = False


def fake_module(name, **attrs):
    """create (or fetch) a functional fake module and register it in sys.modules."""
    m = sys.modules.get(name)
    if m is None or getattr(m, '__sim_stub__', False):
        m = types.ModuleType(name)
        m.__path__ = []
        m.__sim_fake__ = True
        sys.modules[name] = m
        if '.' in name:
            parent, _, leaf = name.rpartition('.')
            p = sys.modules.get(parent) or fake_module(parent)
            setattr(p, leaf, m)
    for k, v in attrs.items():
        setattr(m, k, v)
    return m


def _install_orjson():
    class JSONDecodeError(ValueError):
        pass

    def dumps(obj, default=None, option=None):
        return _json.dumps(obj, default=default, separators=(',', ':')).encode()

    def loads(s):
        if isinstance(s, (bytes, bytearray, memoryview)):
            s = bytes(s).decode()
        try:
            return _json.loads(s)
        except ValueError as e:
            raise JSONDecodeError(str(e)) from e

    fake_module('orjson', dumps=dumps, loads=loads, JSONDecodeError=JSONDecodeError, JSONEncodeError=TypeError,
                OPT_INDENT_2=1, OPT_SORT_KEYS=2)


def _install_prometheus():
    class _Metric:
        def __init__(self, *a, **k):
            pass

        def labels(self, *a, **k):
            return self

        def inc(self, *a, **k):
            pass

        def dec(self, *a, **k):
            pass

        def set(self, *a, **k):
            pass

        def observe(self, *a, **k):
            pass

        def clear(self):
            pass

        def remove(self, *a, **k):
            pass

        def time(self):
            import contextlib
            return contextlib.nullcontext()

    fake_module('prometheus_client', Counter=_Metric, Gauge=_Metric, Summary=_Metric, Histogram=_Metric,
                Enum=_Metric, Info=_Metric)

    def ptime(metric, future=None):
        if future is None:
            def deco(f):
                return f
            return deco

        async def measure(future):
            return await future

        return measure(future)

    def track_inprogress(metric, future=None):
        if future is None:
            return lambda f: f
        return future

    aio = fake_module('prometheus_async.aio', time=ptime, track_inprogress=track_inprogress)
    fake_module('prometheus_async', aio=aio)
    web = fake_module('prometheus_async.aio.web')
    fake_module('prometheus_client.context_managers', Timer=_Metric)

    async def server_stats(request):
        from aiohttp import web as _w
        return _w.Response(text='')

    web.server_stats = server_stats


def _install_misc():
    fake_module('uvloop', install=lambda: None)

    def nest_apply(loop=None):
        return None

    fake_module('nest_asyncio', apply=nest_apply)


def install(extra_env=None):
    global _FINDER, _installed
    if _installed:
        return
    _installed = True
    for k, v in ENV.items():
        os.environ.setdefault(k, v)
    if extra_env:
        os.environ.update(extra_env)
    for r in reversed(ROOTS):
        p = os.path.join(REPO, r)
        if p not in sys.path:
            sys.path.insert(0, p)
    sys.dont_write_bytecode = True
    ver = types.ModuleType('hailtop.version')
    ver.__version__ = '0.2.sim-simsha'
    ver.__pip_version__ = '0.2.sim'
    ver.__revision__ = 'simsha'
    sys.modules['hailtop.version'] = ver
    _install_orjson()
    _install_prometheus()
    _install_misc()
    _FINDER = _StubFinder()
    sys.meta_path.append(_FINDER)


def stubbed_roots():
    return sorted(_FINDER.stub_roots) if _FINDER else []
