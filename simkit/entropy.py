"""Route the process-wide entropy sources (random module functions, secrets, uuid4, os.urandom) to a choice stream."""
import os
import random
import secrets
import uuid

_saved = {}


class _Patched:
    def __init__(self, stream):
        self.s = stream

    def random(self):
        return self.s.flt()

    def randrange(self, start, stop=None, step=1):
        if stop is None:
            start, stop = 0, start
        n = (stop - start + step - 1) // step
        if n <= 0:
            raise ValueError('empty range for randrange()')
        return start + step * self.s.draw(n)

    def randint(self, a, b):
        return a + self.s.draw(b - a + 1)

    def choice(self, seq):
        if not len(seq):
            raise IndexError('Cannot choose from an empty sequence')
        return seq[self.s.draw(len(seq))]

    def uniform(self, a, b):
        return a + (b - a) * self.s.flt()

    def shuffle(self, x):
        for i in range(len(x) - 1, 0, -1):
            j = self.s.draw(i + 1)
            x[i], x[j] = x[j], x[i]

    def sample(self, population, k):
        pool = list(population)
        out = []
        for _ in range(k):
            out.append(pool.pop(self.s.draw(len(pool))))
        return out

    def choices(self, population, weights=None, k=1):
        if weights is not None:
            raise NotImplementedError
        return [population[self.s.draw(len(population))] for _ in range(k)]

    def urandom(self, n):
        return bytes(self.s.draw(256) for _ in range(n))

    def token_bytes(self, n=32):
        return self.urandom(n)

    def token_hex(self, n=32):
        return self.urandom(n).hex()

    def token_urlsafe(self, n=32):
        import base64
        return base64.urlsafe_b64encode(self.urandom(n)).rstrip(b'=').decode()

    def uuid4(self):
        return uuid.UUID(bytes=self.urandom(16), version=4)


def install(stream):
    p = _Patched(stream)
    if not _saved:
        for mod, names in ((random, ('random', 'randrange', 'randint', 'choice', 'uniform', 'shuffle', 'sample',
                                     'choices')),
                           (secrets, ('choice', 'token_bytes', 'token_hex', 'token_urlsafe', 'randbelow')),
                           (uuid, ('uuid4',)), (os, ('urandom',))):
            for n in names:
                _saved[(mod, n)] = getattr(mod, n)
    for n in ('random', 'randrange', 'randint', 'choice', 'uniform', 'shuffle', 'sample', 'choices'):
        setattr(random, n, getattr(p, n))
    secrets.choice = p.choice
    secrets.token_bytes = p.token_bytes
    secrets.token_hex = p.token_hex
    secrets.token_urlsafe = p.token_urlsafe
    secrets.randbelow = lambda n: p.s.draw(n)
    uuid.uuid4 = p.uuid4
    os.urandom = p.urandom


def uninstall():
    for (mod, n), f in _saved.items():
        setattr(mod, n, f)
