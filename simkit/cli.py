"""vcheck command line: check <id> quick|thorough, replay <file>, digest, selftest."""
import json
import os
import sys
import time

VERIF = os.path.dirname(os.path.dirname(os.path.abspath(__file__)))


def _reexec():
    if os.environ.get('PYTHONHASHSEED') != '0' and os.environ.get('VERIF_REEXEC') != '1':
        env = dict(os.environ)
        env['PYTHONHASHSEED'] = '0'
        env['VERIF_REEXEC'] = '1'
        os.execve(sys.executable, [sys.executable, '-m', 'simkit.cli'] + sys.argv[1:], env)


def cmd_replay(argv):
    from . import runner
    runner._quiet()
    path = argv[0]
    quiet = '--quiet' in argv
    ok, r, doc = runner.replay_file(path)
    if not quiet:
        for line in r.get('trace', []):
            print('   ', line)
    if ok:
        print(f'reproduced: {doc["signature"]}: {r["violation"]["detail"]}')
        print(f'VIOLATION property={doc["property"]} replay={path}')
        return 1
    print(f'replay did NOT reproduce (status={r["status"]}, '
          f'signature={r.get("violation", {}).get("signature")}, digest={r["digest"]} vs {doc["event_digest"]})')
    if r['status'] == 'error':
        print(r['error'])
    return 2


def cmd_digest(argv):
    from . import runner
    from .core import execute
    runner._quiet()
    mod, tier, prop = argv[0], argv[1], argv[2]
    params = json.loads(os.environ.get('VERIF_PARAMS', '{}'))
    scn = runner.load_scenario(mod)
    for s in argv[3:]:
        r = execute(scn, int(s), tier, None, prop, params)
        print(s, r['digest'])
    return 0


def cmd_selftest(argv):
    """large-sample determinism: every scenario of the named checks (default: all), N seeds each, executed
    (a) in one sweep with 16 workers and (b) seed by seed in fresh interpreters with another PYTHONHASHSEED and another
    process layout (different neighbours in the same process, which also tests run isolation); digests must agree."""
    import subprocess
    from . import runner
    import checks
    n = int(os.environ.get('VERIF_SELFTEST_N', '48'))
    ids = argv or sorted(checks.CHECKS)
    bad = 0
    total = 0
    for prop in ids:
        spec = checks.CHECKS[prop]
        for sc in spec['scenarios']:
            mod = sc['module']
            params = sc.get('params', {})
            sw = runner.Sweep(prop, 'quick', int(os.environ.get('VERIF_SEED', '0') or 0), 16)
            seeds = [sw.base_seed * 1_000_003 + sc.get('seed_offset', 0) + i for i in range(n)]
            import concurrent.futures
            import multiprocessing
            ctx = multiprocessing.get_context('fork')
            chunk = max(1, n // 16)
            chunks = [seeds[i:i + chunk] for i in range(0, n, chunk)]
            first = {}
            with concurrent.futures.ProcessPoolExecutor(16, mp_context=ctx, initializer=runner._worker_init) as ex:
                for res in ex.map(runner._run_chunk, [mod] * len(chunks), chunks, ['quick'] * len(chunks),
                                  [prop] * len(chunks), [params] * len(chunks), [900.0] * len(chunks)):
                    for r in res:
                        first[r['seed']] = r['digest']
            # second layout: 3 fresh interpreters, interleaved seed assignment, other hash seed
            second = {}
            procs = []
            for k in range(3):
                mine = seeds[k::3]
                env = dict(os.environ, PYTHONHASHSEED='4242', VERIF_REEXEC='1', VERIF_PARAMS=json.dumps(params))
                procs.append(subprocess.Popen([sys.executable, '-m', 'simkit.cli', 'digest', mod, 'quick', prop] +
                                              [str(x) for x in reversed(mine)], cwd=VERIF, env=env,
                                              stdout=subprocess.PIPE, stderr=subprocess.DEVNULL, text=True))
            for pr in procs:
                out, _ = pr.communicate(timeout=3000)
                for line in out.strip().splitlines():
                    a, b = line.split()
                    second[int(a)] = b
            diff = [x for x in seeds if first.get(x) != second.get(x)]
            total += len(seeds)
            bad += len(diff)
            print(f'[selftest] {prop} {mod}: {len(seeds)} seeds, {len(diff)} digest mismatches'
                  + (f' (first: seed {diff[0]})' if diff else ''), flush=True)
    print(f'[selftest] {total} runs compared, {bad} mismatches')
    return 0 if bad == 0 else 2


def cmd_check(argv):
    from . import runner
    import checks
    prop = argv[0]
    tier = argv[1] if len(argv) > 1 else os.environ.get('VERIF_TIER', 'quick')
    if tier not in ('quick', 'thorough'):
        tier = 'quick'
    spec = checks.CHECKS[prop]
    base_seed = int(os.environ.get('VERIF_SEED', '0') or 0)
    procs = int(os.environ.get('VERIF_PROCS', '0') or 0) or min(16, os.cpu_count() or 4)
    t0 = time.time()
    print(f'[vcheck] property={prop} tier={tier} VERIF_SEED={base_seed} procs={procs}')
    sw = runner.Sweep(prop, tier, base_seed, procs)

    known = runner.load_known(prop)
    if os.environ.get('VERIF_IGNORE_KNOWN'):
        # maintenance only: report listed findings as ordinary violations so that fresh replay files get written
        # (used to refresh /verif/findings/*.json after the harness changed); never set by a registered command
        known = []
    known_lines = []
    known_sigs = {}
    for e in known:
        if e.get('status') != 'known':
            continue
        known_sigs[e['signature']] = e
        rp = e.get('replay')
        if rp:
            ok, r, doc = _replay_subproc(os.path.join(VERIF, rp))
            if ok:
                known_lines.append(f'KNOWN-FINDING: property={prop} {e["what"]} [signature={e["signature"]} replay={rp}]')
            else:
                print(f'[vcheck] note: listed finding {e["signature"]} no longer reproduces from {rp}')

    scen_params = {}
    for sc in spec['scenarios']:
        mod = sc['module']
        n = max(1, int(sc[tier] * float(os.environ.get('VERIF_SCALE', '1') or 1)))  # VERIF_SCALE: deeper / shallower sweeps on demand
        params = sc.get('params', {})
        scen_params[mod] = params
        cap = sc.get('wall_cap', {}).get(tier, 1200.0 if tier == 'thorough' else 240.0)
        dt = sw.run(mod, n, params, wall_cap=cap, chunk=sc.get('chunk'), seed_offset=sc.get('seed_offset', 0))
        print(f'[vcheck] {mod}: {sw.per_scenario.get(mod, {}).get("runs", 0)}/{n} runs in {dt:.1f}s')

    harness_error = False
    if sw.errors:
        harness_error = True
        for mod, seed, err in sw.errors[:3]:
            print(f'[vcheck] HARNESS ERROR in {mod} seed={seed}:\n{err}')
    if sw.timed_out:
        print('[vcheck] wall cap reached before all runs finished (reported in evidence)')

    # determinism self-test on a sample of this sweep's seeds
    det = {'checked': 0}
    if not harness_error:
        try:
            det = _determinism(sw, scen_params, 6 if tier == 'quick' else 16)
        except Exception as e:  # pylint: disable=broad-except
            print(f'[vcheck] HARNESS ERROR determinism self-test: {e}')
            harness_error = True
        if det.get('mismatch_same_hashseed') or det.get('mismatch_other_hashseed'):
            print(f'[vcheck] HARNESS ERROR: nondeterministic runs {det}')
            harness_error = True

    # violations: shrink, write replay, verify in a fresh interpreter
    violation_lines = []
    known_hits = {}
    for sig, (mod, r) in sorted(sw.violations.items()):
        if sig in known_sigs:
            known_hits[sig] = sw.violation_counts[sig]
            line = f'KNOWN-FINDING: property={prop} {known_sigs[sig]["what"]} [signature={sig}]'
            if not any(sig in kl for kl in known_lines):
                known_lines.append(line)
            continue
        path, mr = _minimise_and_write(runner, prop, mod, tier, scen_params[mod], r, sig)
        if path is None:
            print(f'[vcheck] HARNESS ERROR: violation {sig} (seed {r["seed"]}) does not replay from its choices')
            harness_error = True
            continue
        ok, out = runner.replay_in_fresh_interpreter(path)
        if not ok:
            print(f'[vcheck] HARNESS ERROR: replay of {path} in a fresh interpreter did not reproduce:\n{out[-2000:]}')
            harness_error = True
            continue
        print(f'[vcheck] violation {sig}: {mr["violation"]["detail"]}')
        for line in mr.get('trace', [])[:60]:
            print('      ', line)
        violation_lines.append(f'VIOLATION property={prop} replay={path}')

    wall = time.time() - t0
    ev = _evidence(spec, sw, prop, tier, base_seed, wall, det, known_hits, len(violation_lines), procs)
    evdir = os.environ.get('VERIF_EVIDENCE_DIR') or os.path.join(VERIF, 'evidence')  # seeded-change runs redirect it
    os.makedirs(evdir, exist_ok=True)
    with open(os.path.join(evdir, f'{prop}.json'), 'w') as f:
        json.dump(ev, f, indent=1, sort_keys=True)

    for kl in known_lines:
        print(kl)
    print(f'[vcheck] {prop}: evaluations={sw.evaluations} distinct_nontrivial={len(sw.nontrivial_fps)} '
          f'faults={sum(sw.faults.values())} sim_s={sw.sim_time:.0f} wall={wall:.1f}s')
    zero = [p for p in spec.get('expected_probes', []) if not sw.probes.get(p)]
    if zero:
        print(f'[vcheck] warning: probes never hit: {zero}')
    if violation_lines:
        # a reproduced violation outranks harness errors seen in other runs of the sweep
        for vl in violation_lines:
            print(vl)
        return 1
    if harness_error:
        return 2
    return 0


def _replay_subproc(path):
    from . import runner
    ok, out = runner.replay_in_fresh_interpreter(path)
    return ok, out, None


def _determinism(sw, scen_params, n):
    from . import runner
    out = {'checked': 0, 'mismatch_same_hashseed': 0, 'mismatch_other_hashseed': 0}
    by_mod = {}
    for (mod, seed), d in sorted(sw.digests.items()):
        by_mod.setdefault(mod, [])
        if len(by_mod[mod]) < n:
            by_mod[mod].append((seed, d))
    import subprocess
    for hs, key in (('0', 'mismatch_same_hashseed'), ('4242', 'mismatch_other_hashseed')):
        for mod, lst in by_mod.items():
            env = dict(os.environ)
            env['PYTHONHASHSEED'] = hs
            env['VERIF_REEXEC'] = '1'
            env['VERIF_PARAMS'] = json.dumps(scen_params.get(mod, {}))
            args = [sys.executable, '-m', 'simkit.cli', 'digest', mod, sw.tier, sw.prop] + [str(s) for s, _ in lst]
            p = subprocess.run(args, cwd=VERIF, env=env, capture_output=True, text=True, timeout=1800)
            if p.returncode != 0:
                raise RuntimeError(f'digest subprocess failed: {p.stdout[-1500:]}\n{p.stderr[-1500:]}')
            got = dict(line.split() for line in p.stdout.strip().splitlines() if len(line.split()) == 2)
            for s, d in lst:
                out['checked'] += 1
                if got.get(str(s)) != d:
                    out[key] += 1
                    out.setdefault('examples', []).append([mod, s, hs])
    return out


def _minimise_and_write(runner, prop, mod, tier, params, r, sig):
    import concurrent.futures
    import multiprocessing
    budget = float(os.environ.get('VERIF_SHRINK_S', '40'))
    ctx = multiprocessing.get_context('fork')
    with concurrent.futures.ProcessPoolExecutor(1, mp_context=ctx, initializer=runner._worker_init) as ex:
        mr = ex.submit(runner._shrink_job, mod, r['seed'], tier, prop, params, r['choices'], sig, budget).result()
    if mr is None:
        return None, None
    path = runner.write_replay(prop, mod, tier, params, mr, mr['min_choices'])
    return path, mr


def _evidence(spec, sw, prop, tier, base_seed, wall, det, known_hits, n_viol, procs):
    import importlib
    comps = {}
    assumptions = []
    rules = []
    for sc in spec['scenarios']:
        m = importlib.import_module(sc['module'])
        comps.update(getattr(m, 'COMPONENTS', {}))
        for a in getattr(m, 'ASSUMPTIONS', []):
            if a not in assumptions:
                assumptions.append(a)
        if getattr(m, 'RULE', None):
            rules.append(f'{sc["module"]}: {m.RULE}')
    runs_per_hour = int(sw.evaluations / wall * 3600) if wall > 0 else 0
    cov = {
        'evaluations': sw.evaluations,
        'distinct_nontrivial': len(sw.nontrivial_fps),
        'distinct_interleavings': len(sw.fingerprints),
        'rule': ' | '.join(rules) + ' | distinct = distinct fingerprints (hash of the (actor, event kind) sequence of the '
                'run\'s event log); non-trivial = the scenario\'s own predicate (at least one injected fault fired or one '
                'named rare-condition probe was hit in the run).',
        'samples': sw.samples[:4],
        'seeds': {'base': base_seed, 'first': base_seed * 1_000_003, 'count_per_scenario': {
            sc['module']: sc[tier] for sc in spec['scenarios']}},
        'runs_per_hour': runs_per_hour,
        'processes': procs,
        'simulated_seconds': round(sw.sim_time, 3),
        'loop_steps': sw.steps,
        'events_logged': sw.n_events,
        'faults_fired': dict(sorted(sw.faults.items())),
        'probes_hit': dict(sorted(sw.probes.items())),
        'probes_expected_but_zero': [p for p in spec.get('expected_probes', []) if not sw.probes.get(p)],
        'per_scenario': sw.per_scenario,
        'components': comps,
        'determinism_selftest': det,
        'known_finding_hits': known_hits,
        'violation_signatures': {k: v for k, v in sw.violation_counts.items()},
        'wall_cap_reached': sw.timed_out,
        'harness_errors': len(sw.errors),
    }
    return {
        'property_id': prop,
        'tier': tier,
        'seed': base_seed,
        'level': spec['level'],
        'coverage': cov,
        'assumptions': assumptions,
        'wall_s': round(wall, 2),
        'violations': n_viol,
    }


def main():
    _reexec()
    sys.path.insert(0, VERIF)
    argv = sys.argv[1:]
    if not argv:
        print('usage: vcheck <id> quick|thorough | replay <file> | digest ... | selftest')
        return 2
    cmd = argv[0]
    if cmd == 'replay':
        return cmd_replay(argv[1:])
    if cmd == 'digest':
        return cmd_digest(argv[1:])
    if cmd == 'check':
        return cmd_check(argv[1:])
    if cmd == 'selftest':
        return cmd_selftest(argv[1:])
    return cmd_check(argv)


if __name__ == '__main__':
    try:
        rc = main()
    except SystemExit:
        raise
    except BaseException:  # pylint: disable=broad-except
        import traceback
        traceback.print_exc()
        rc = 2
    sys.exit(rc)
