"""Procedural statements: blocks, variables, control flow, cursors, handlers, CALL, triggers, functions."""
from .errors import MySQLError, NotFound
from .exprs import Env, Frame, Runtime, Scope
from .lexer import UnsupportedSQL
from .storage import Column, coerce
from .values import truth


class Leave(Exception):
    def __init__(self, label):
        super().__init__(label)
        self.label = label


class Iterate(Exception):
    def __init__(self, label):
        super().__init__(label)
        self.label = label


class Return(Exception):
    def __init__(self, value):
        super().__init__()
        self.value = value


class Routine:
    def __init__(self, kind, name, params, body, source=None, table=None, timing=None, event=None):
        self.kind = kind  # procedure | function | trigger
        self.name = name
        self.params = [(m, n.lower(), t) for m, n, t in params]
        self.body = body
        self.source = source
        self.table = table
        self.timing = timing
        self.event = event
        self.fn = None
        self.rvars = None
        self.vartypes = {}
        self.calls = 0


def _collect_decls(node, out):
    if isinstance(node, tuple):
        if node and node[0] == 'declare':
            for n in node[1]:
                out[n.lower()] = node[2]
        elif node and node[0] == 'declare_cursor':
            return
        for x in node:
            _collect_decls(x, out)
    elif isinstance(node, list):
        for x in node:
            _collect_decls(x, out)


def _typecol(name, typ):
    return Column({'name': name, 'type': typ, 'notnull': False, 'default': None, 'has_default': False, 'auto': False,
                   'cs': False})


class RoutineMixin:
    # ---- compile a routine lazily ---------------------------------------------------------------
    def compile_routine(self, r):
        if r.fn is not None:
            return
        decls = {}
        _collect_decls(r.body, decls)
        for _m, n, t in r.params:
            decls[n] = t
        r.rvars = set(decls)
        for n, t in decls.items():
            try:
                r.vartypes[n] = _typecol(n, t)
            except MySQLError:
                r.vartypes[n] = None
        scope = Scope(None, rvars=r.rvars, trig_table=r.table if r.kind == 'trigger' else None)
        scope.routine = r
        r.fn = self.c_stmt(scope, r.body, in_routine=True)

    def _c_setter(self, scope, target):
        """target: ('uvar', name) | ('name', name) | ('qual', 'NEW', col)"""
        if target[0] == 'uvar':
            name = target[1]

            def s(rt, v):
                rt.sess.uvars[name] = v
            return s
        if target[0] == 'name':
            name = target[1].lower()
            if scope.rvars is None or name not in scope.rvars:
                # system variables: SET autocommit / foreign_key_checks / names ...
                def sysvar(rt, v, name=name):
                    if name == 'autocommit':
                        rt.sess.autocommit = bool(truth(v))
                    rt.sess.sysvars[name] = v
                return sysvar
            r = _routine_of(scope)
            col = r.vartypes.get(name) if r is not None else None

            def s(rt, v):
                rt.frame.vars[name] = coerce(col, v) if (col is not None and v is not None) else v
            return s
        if target[0] == 'qual':
            q, cname = target[1].lower(), target[2].lower()
            if q != 'new' or scope.trig_table is None:
                raise UnsupportedSQL(f'SET {target[1]}.{target[2]}')
            j = scope.trig_table.colidx[cname]

            def s(rt, v):
                rt.frame.new[j] = v
            return s
        raise UnsupportedSQL(f'assignment target {target}')

    # ---- statements -----------------------------------------------------------------------------
    def c_stmt(self, scope, node, in_routine=False):
        k = node[0]
        if k in ('select', 'union', 'with', 'wrap'):
            f = self.c_select_stmt(scope, node)
            if in_routine:
                def run(rt):
                    r = f(rt)
                    if r is not None:
                        rt.results.append(r)
                return self._guard(run)
            return f
        if k == 'insert':
            return self._guard(self.c_insert(scope, node)) if in_routine else self.c_insert(scope, node)
        if k == 'update':
            return self._guard(self.c_update(scope, node)) if in_routine else self.c_update(scope, node)
        if k == 'delete':
            return self._guard(self.c_delete(scope, node)) if in_routine else self.c_delete(scope, node)
        if k == 'call':
            f = self.c_call(scope, node)
            return self._guard(f) if in_routine else f
        if k == 'set':
            pairs = [(self._c_setter(scope, t), self.c_expr(scope, e)) for t, e in node[1]]

            def run(rt):
                env = Env([], None, rt)
                for s, e in pairs:
                    s(rt, e(env))
            return self._guard(run) if in_routine else run
        if k == 'start':
            ro = node[1]
            return lambda rt: rt.eng.begin(rt.sess, ro)
        if k == 'commit':
            return lambda rt: rt.eng.commit(rt.sess)
        if k == 'rollback':
            return lambda rt: rt.eng.rollback(rt.sess)
        if k == 'block':
            return self.c_block(scope, node)
        if k == 'declare':
            names = [n.lower() for n in node[1]]
            d = self.c_expr(scope, node[3]) if node[3] is not None else None
            r = _routine_of(scope)

            def run(rt):
                v = d(Env([], None, rt)) if d is not None else None
                for n in names:
                    col = r.vartypes.get(n) if r is not None else None
                    rt.frame.vars[n] = coerce(col, v) if (col is not None and v is not None) else v
            return run
        if k == 'declare_cursor':
            name = node[1].lower()
            q = self.c_query(scope, node[2])

            def run(rt):
                rt.frame.cursors[name] = [q, None, 0]
            return run
        if k == 'declare_handler':
            kind, conds = node[1], node[2]
            body = self.c_stmt(scope, node[3], in_routine=True)

            def run(rt):
                rt.frame.handlers.append((kind, conds, body))
            return run
        if k == 'open':
            name = node[1].lower()

            def run(rt):
                c = rt.frame.cursors[name]
                _cols, rows = c[0](Env([], None, rt))
                c[1] = rows
                c[2] = 0
            return self._guard(run)
        if k == 'close':
            name = node[1].lower()

            def run(rt):
                rt.frame.cursors[name][1] = None
            return run
        if k == 'fetch':
            name = node[1].lower()
            setters = [self._c_setter(scope, ('name', v)) for v in node[2]]

            def run(rt):
                c = rt.frame.cursors[name]
                if c[1] is None:
                    raise MySQLError(1326, 'Cursor is not open')
                if c[2] >= len(c[1]):
                    raise NotFound('fetch')
                row = c[1][c[2]]
                c[2] += 1
                for s, v in zip(setters, row):
                    s(rt, v)
            return self._guard(run, fetch=True)
        if k == 'if':
            arms = [(self.c_expr(scope, c), [self.c_stmt(scope, s, True) for s in body]) for c, body in node[1]]
            els = [self.c_stmt(scope, s, True) for s in node[2]] if node[2] is not None else None

            def run(rt):
                env = Env([], None, rt)
                for c, body in arms:
                    if truth(c(env)):
                        for s in body:
                            s(rt)
                        return
                if els is not None:
                    for s in els:
                        s(rt)
            return run
        if k == 'loop':
            label = node[1]
            body = [self.c_stmt(scope, s, True) for s in node[2]]

            def run(rt):
                n = 0
                while True:
                    n += 1
                    if n > 1_000_000:
                        raise MySQLError(3024, 'loop iteration cap reached in simulation')
                    try:
                        for s in body:
                            s(rt)
                    except Iterate as it:
                        if it.label != label:
                            raise
                    except Leave as lv:
                        if lv.label != label:
                            raise
                        return
            return run
        if k == 'while':
            label = node[1]
            cond = self.c_expr(scope, node[2])
            body = [self.c_stmt(scope, s, True) for s in node[3]]

            def run(rt):
                n = 0
                while truth(cond(Env([], None, rt))):
                    n += 1
                    if n > 1_000_000:
                        raise MySQLError(3024, 'loop iteration cap reached in simulation')
                    try:
                        for s in body:
                            s(rt)
                    except Iterate as it:
                        if it.label != label:
                            raise
                    except Leave as lv:
                        if lv.label != label:
                            raise
                        return
            return run
        if k == 'repeat':
            label = node[1]
            body = [self.c_stmt(scope, s, True) for s in node[2]]
            cond = self.c_expr(scope, node[3])

            def run(rt):
                while True:
                    try:
                        for s in body:
                            s(rt)
                    except Leave as lv:
                        if lv.label != label:
                            raise
                        return
                    if truth(cond(Env([], None, rt))):
                        return
            return run
        if k == 'leave':
            label = node[1]

            def run(rt):
                raise Leave(label)
            return run
        if k == 'iterate':
            label = node[1]

            def run(rt):
                raise Iterate(label)
            return run
        if k == 'return':
            e = self.c_expr(scope, node[1])

            def run(rt):
                raise Return(e(Env([], None, rt)))
            return run
        if k == 'signal':
            state = node[1]
            msg = self.c_expr(scope, node[2]) if node[2] is not None else None
            errno = self.c_expr(scope, node[3]) if node[3] is not None else None

            def run(rt):
                env = Env([], None, rt)
                m = msg(env) if msg is not None else 'Unhandled user-defined exception condition'
                no = int(errno(env)) if errno is not None else 1644
                raise MySQLError(no, m, state)
            return run
        return self.c_ddl(scope, node)

    def c_block(self, scope, node):
        label = node[1]
        body = [self.c_stmt(scope, s, True) for s in node[2]]

        def run(rt):
            nh = len(rt.frame.handlers) if rt.frame is not None else 0
            try:
                for s in body:
                    s(rt)
            except Leave as lv:
                if label is None or lv.label != label:
                    raise
            finally:
                if rt.frame is not None:
                    del rt.frame.handlers[nh:]
        return run

    def _guard(self, f, fetch=False):
        """statement inside a routine: statement-level rollback on error, condition handlers."""
        def run(rt):
            sess = rt.sess
            rt.eng.stmt_seq += 1
            sp = len(sess.journal)
            epoch = sess.txn_epoch
            try:
                return f(rt)
            except NotFound:
                h = _find_handler(rt.frame, 'NOT FOUND', None)
                if h is None:
                    if fetch:
                        raise MySQLError(1329, 'No data - zero rows fetched, selected, or processed', '02000') from None
                    return None  # warning only
                kind, _c, body = h
                body(rt)
                if kind == 'EXIT':
                    raise Leave(None) from None
                return None
            except MySQLError as e:
                if sess.txn_epoch == epoch:
                    rt.eng.undo_to(sess, sp)
                h = _find_handler(rt.frame, 'SQLEXCEPTION', e)
                if h is None:
                    raise
                kind, _c, body = h
                body(rt)
                if kind == 'EXIT':
                    raise Leave(None) from None
                return None
        return run

    # ---- CALL / functions / triggers -----------------------------------------------------------
    def c_call(self, scope, node):
        name = node[1].lower()
        arg_nodes = node[2]

        def resolve():
            r = self.procedures.get(name)
            if r is None:
                raise MySQLError(1305, f'PROCEDURE {node[1]} does not exist', '42000')
            return r
        # compile argument evaluators; OUT params need setters, which depend on the routine's signature:
        # resolve at first execution (procedures may be redefined between compile and run at load time)
        state = {}

        def prepare():
            r = resolve()
            if len(arg_nodes) != len(r.params):
                raise MySQLError(1318, f'Incorrect number of arguments for PROCEDURE {r.name}', '42000')
            ins, outs = [], []
            for (mode, pname, _t), an in zip(r.params, arg_nodes):
                if mode in ('IN', 'INOUT'):
                    ins.append((pname, self.c_expr(scope, an)))
                else:
                    ins.append((pname, None))
                if mode in ('OUT', 'INOUT'):
                    if an[0] == 'uvar':
                        outs.append((pname, self._c_setter(scope, ('uvar', an[1]))))
                    elif an[0] == 'col' and an[1] is None:
                        outs.append((pname, self._c_setter(scope, ('name', an[2]))))
                    else:
                        raise MySQLError(1414, f'OUT or INOUT argument for routine {r.name} is not a variable', '42000')
            state['v'] = (r, ins, outs)
            return state['v']

        def run(rt):
            hit = state.get('v')
            if hit is None or self.procedures.get(name) is not hit[0]:
                hit = prepare()
            r, ins, outs = hit
            env = Env([], None, rt)
            vals = {}
            for pname, f in ins:
                vals[pname] = f(env) if f is not None else None
            frame = self.invoke(rt, r, vals)
            for pname, setter in outs:
                setter(rt, frame.vars.get(pname))
        return run

    def invoke(self, rt, r, vals, new=None, old=None):
        self.compile_routine(r)
        if rt.depth > 30:
            raise MySQLError(1456, 'Recursive limit exceeded for routine')
        frame = Frame(r)
        for n in r.rvars:
            frame.vars[n] = None
        for n, v in vals.items():
            col = r.vartypes.get(n)
            frame.vars[n] = coerce(col, v) if (col is not None and v is not None) else v
        frame.new = new
        frame.old = old
        rt2 = Runtime(rt.eng, rt.sess, None, frame, rt.results, rt.depth + 1)
        r.calls += 1
        try:
            r.fn(rt2)
        except Leave:
            pass
        return frame

    def call_function(self, rt, lname, argvals):
        r = self.functions[lname]
        if len(argvals) != len(r.params):
            raise MySQLError(1318, f'Incorrect number of arguments for FUNCTION {r.name}', '42000')
        try:
            self.invoke(rt, r, {p[1]: v for p, v in zip(r.params, argvals)})
        except Return as ret:
            return ret.value
        raise MySQLError(1321, f'FUNCTION {r.name} ended without RETURN', '2F005')

    def run_trigger(self, trig, rt, new, old):
        new_row = list(new) if new is not None else None
        self.invoke(rt, trig, {}, new_row, old)
        return new_row


def _routine_of(scope):
    s = scope
    while s is not None:
        r = getattr(s, 'routine', None)
        if r is not None:
            return r
        s = s.parent
    return None


def _find_handler(frame, cond, err):
    if frame is None:
        return None
    for kind, conds, body in reversed(frame.handlers):
        for c in conds:
            if c == cond:
                return (kind, conds, body)
            if err is not None and isinstance(c, tuple):
                if c[0] == 'ERRNO' and c[1] == err.errno:
                    return (kind, conds, body)
                if c[0] == 'SQLSTATE' and c[1] == err.sqlstate:
                    return (kind, conds, body)
    return None
