"""In-memory tables with primary/unique/secondary hash indexes and an undo journal."""
import datetime
import decimal

from .errors import MySQLError

INT_TYPES = {'INT', 'INTEGER', 'BIGINT', 'SMALLINT', 'TINYINT', 'MEDIUMINT', 'BOOLEAN', 'BOOL', 'BIT'}
FLOAT_TYPES = {'DOUBLE', 'FLOAT', 'REAL'}
DEC_TYPES = {'DECIMAL', 'NUMERIC'}
STR_TYPES = {'VARCHAR', 'CHAR', 'TEXT', 'MEDIUMTEXT', 'LONGTEXT', 'TINYTEXT', 'ENUM', 'JSON', 'BLOB', 'MEDIUMBLOB',
             'LONGBLOB', 'VARBINARY', 'BINARY'}


class Column:
    __slots__ = ('name', 'lname', 'type', 'targs', 'notnull', 'default', 'has_default', 'auto', 'cs', 'kind',
                 'default_now', 'on_update_now')

    def __init__(self, d):
        self.name = d['name']
        self.lname = d['name'].lower()
        self.type = d['type'][0]
        self.targs = d['type'][1]
        self.notnull = d['notnull']
        self.default = d['default']  # AST or None
        self.has_default = d['has_default']
        self.auto = d['auto']
        self.cs = d['cs']
        self.on_update_now = d.get('on_update_now', False)
        t = self.type
        if t in INT_TYPES:
            self.kind = 'int'
        elif t in FLOAT_TYPES:
            self.kind = 'float'
        elif t in DEC_TYPES:
            self.kind = 'dec'
        elif t in STR_TYPES:
            self.kind = 'str'
        elif t == 'DATE':
            self.kind = 'date'
        elif t in ('TIMESTAMP', 'DATETIME'):
            self.kind = 'datetime'
        else:
            raise MySQLError(1064, f'unsupported column type {t}')


def coerce(col, v):
    """store-time conversion of a value to the column's domain (strict mode)."""
    if v is None:
        return None
    k = col.kind
    if k == 'int':
        if isinstance(v, bool):
            return int(v)
        if isinstance(v, int):
            return v
        if isinstance(v, float):
            return int(decimal.Decimal(v).to_integral_value(rounding=decimal.ROUND_HALF_UP))
        if isinstance(v, decimal.Decimal):
            return int(v.to_integral_value(rounding=decimal.ROUND_HALF_UP))
        if isinstance(v, str):
            try:
                return int(v)
            except ValueError:
                try:
                    return int(decimal.Decimal(v).to_integral_value(rounding=decimal.ROUND_HALF_UP))
                except decimal.InvalidOperation:
                    raise MySQLError(1366, f"Incorrect integer value: '{v}' for column '{col.name}'") from None
        raise MySQLError(1366, f'Incorrect integer value {v!r} for column {col.name}')
    if k == 'float':
        if isinstance(v, str):
            try:
                return float(v)
            except ValueError:
                raise MySQLError(1366, f"Incorrect double value: '{v}' for column '{col.name}'") from None
        return float(v)
    if k == 'dec':
        return decimal.Decimal(str(v)) if not isinstance(v, decimal.Decimal) else v
    if k == 'str':
        if isinstance(v, str):
            s = v
        elif isinstance(v, bytes):
            s = v.decode('utf-8', 'replace')
        elif isinstance(v, bool):
            s = str(int(v))
        elif isinstance(v, float):
            s = repr(v)
        else:
            s = str(v)
        if col.type in ('VARCHAR', 'CHAR') and col.targs:
            try:
                n = int(col.targs[0])
            except ValueError:
                n = None
            if n is not None and len(s) > n:
                raise MySQLError(1406, f"Data too long for column '{col.name}'")
        if col.type == 'ENUM' and col.targs is not None:
            if s.lower() not in [a.lower() for a in col.targs]:
                raise MySQLError(1265, f"Data truncated for column '{col.name}'")
        return s
    if k == 'date':
        if isinstance(v, datetime.datetime):
            return v.date()
        if isinstance(v, datetime.date):
            return v
        if isinstance(v, str):
            return datetime.date.fromisoformat(v[:10])
        raise MySQLError(1292, f'Incorrect date value {v!r}')
    if k == 'datetime':
        if isinstance(v, datetime.datetime):
            return v
        if isinstance(v, str):
            return datetime.datetime.fromisoformat(v)
        raise MySQLError(1292, f'Incorrect datetime value {v!r}')
    return v


def key_norm(col, v):
    """normalise a value for index keys / equality lookups on this column."""
    if v is None:
        return None
    k = col.kind
    if k == 'int':
        if isinstance(v, int):
            return v
        if isinstance(v, str):
            try:
                return int(v)
            except ValueError:
                try:
                    f = float(v)
                    return int(f) if f == int(f) else f
                except ValueError:
                    return 0
        if isinstance(v, (float, decimal.Decimal)):
            return int(v) if v == int(v) else float(v)
        return v
    if k == 'str':
        if not isinstance(v, str):
            v = str(v)
        return v if col.cs else v.casefold()
    if k == 'float':
        try:
            return float(v)
        except (TypeError, ValueError):
            return v
    if k == 'date' and isinstance(v, str):
        try:
            return datetime.date.fromisoformat(v[:10])
        except ValueError:
            return v
    return v


class Table:
    def __init__(self, name, cols, pk, uniques, fks, temp=False):
        self.name = name
        self.lname = name.lower()
        self.cols = [Column(c) for c in cols]
        self.colidx = {c.lname: i for i, c in enumerate(self.cols)}
        self.pk = [self.colidx[c.lower()] for c in pk] if pk else None
        self.uniques = [[self.colidx[c.lower()] for c in u] for u in uniques]
        self.fks = []  # (col idxs, ref table lname, ref col names, ondelete)
        for f in fks:
            self.add_fk(f)
        self.rows = {}
        self.next_rowid = 1
        self.auto_next = 1
        self.pk_index = {}
        self.uniq_indexes = [dict() for _ in self.uniques]
        self.sec_indexes = {}  # tuple(col idxs) -> dict key -> set(rowid) (insertion ordered dict of rowids)
        self.triggers = {}
        self.temp = temp
        self.version = 0
        self.children = []  # (child table, fk) filled by the catalog

    def add_fk(self, f):
        fcols, rt, rcols, ondel = f
        self.fks.append(([self.colidx[c.lower()] for c in fcols], rt.lower(), [c.lower() for c in rcols], ondel))

    def add_column(self, cdef):
        c = Column(cdef)
        self.cols.append(c)
        self.colidx[c.lname] = len(self.cols) - 1
        for r in self.rows.values():
            r.append(None)

    # -- keys ------------------------------------------------------------------------------------
    def _key(self, idxs, row):
        cols = self.cols
        return tuple(key_norm(cols[i], row[i]) for i in idxs)

    def find_pk(self, row):
        if self.pk is None:
            return None
        return self.pk_index.get(self._key(self.pk, row))

    def find_conflict(self, row, exclude=None):
        """rowid of an existing row that conflicts on PK or a unique key (NULLs never conflict)."""
        if self.pk is not None:
            r = self.pk_index.get(self._key(self.pk, row))
            if r is not None and r != exclude:
                return r, 'PRIMARY'
        for u, idx in zip(self.uniques, self.uniq_indexes):
            k = self._key(u, row)
            if None in k:
                continue
            r = idx.get(k)
            if r is not None and r != exclude:
                return r, 'unique'
        return None, None

    def _index_add(self, rid, row):
        if self.pk is not None:
            self.pk_index[self._key(self.pk, row)] = rid
        for u, idx in zip(self.uniques, self.uniq_indexes):
            k = self._key(u, row)
            if None not in k:
                idx[k] = rid
        for cols, idx in self.sec_indexes.items():
            idx.setdefault(self._key(cols, row), {})[rid] = None

    def _index_del(self, rid, row):
        if self.pk is not None:
            self.pk_index.pop(self._key(self.pk, row), None)
        for u, idx in zip(self.uniques, self.uniq_indexes):
            k = self._key(u, row)
            if None not in k and idx.get(k) == rid:
                del idx[k]
        for cols, idx in self.sec_indexes.items():
            k = self._key(cols, row)
            d = idx.get(k)
            if d is not None:
                d.pop(rid, None)
                if not d:
                    del idx[k]

    def lookup(self, cols, vals):
        """row ids whose columns `cols` (tuple of idx, sorted) equal vals (already key-normalised)."""
        if self.pk is not None and tuple(self.pk) == cols:
            r = self.pk_index.get(vals)
            return () if r is None else (r,)
        idx = self.sec_indexes.get(cols)
        if idx is None:
            idx = {}
            for rid, row in self.rows.items():
                idx.setdefault(self._key(cols, row), {})[rid] = None
            self.sec_indexes[cols] = idx
        d = idx.get(vals)
        return tuple(sorted(d)) if d else ()

    # -- mutation (journalled) -------------------------------------------------------------------
    def insert(self, row, journal):
        rid = self.next_rowid
        self.next_rowid += 1
        self.rows[rid] = row
        self._index_add(rid, row)
        self.version += 1
        journal.append(('ins', self, rid, None, row))
        return rid

    def delete(self, rid, journal):
        row = self.rows.pop(rid)
        self._index_del(rid, row)
        self.version += 1
        journal.append(('del', self, rid, row, None))

    def update(self, rid, new, journal):
        old = self.rows[rid]
        self._index_del(rid, old)
        self.rows[rid] = new
        self._index_add(rid, new)
        self.version += 1
        journal.append(('upd', self, rid, old, new))

    def undo(self, entry):
        op, _t, rid, old, new = entry
        if op == 'ins':
            row = self.rows.pop(rid)
            self._index_del(rid, row)
        elif op == 'del':
            # re-insert at its rowid; dict order changes, so rebuild ordering by rowid
            self.rows[rid] = old
            self._index_add(rid, old)
            if rid < max(self.rows):
                self.rows = dict(sorted(self.rows.items()))
        else:
            cur = self.rows[rid]
            self._index_del(rid, cur)
            self.rows[rid] = old
            self._index_add(rid, old)
        self.version += 1
